"""C32 Value JSON conversion round-trips (hail/python/hail/expr/types.py).

Writer/reader AGREEMENT rules decided from the syntax trees of `_convert_to_json*` / `_convert_from_json*`:
  R1  every HailType subclass overriding one JSON direction overrides the other (same for the `_na` variants;
      a wrapper class that is provably only used on the binary-encoding path is exempt)
  R2  JSON object keys written == keys read, and per key the same component type converts on both sides; the member names of an emitted JSON object are
      literals or field names of the type, never components of the value (a missing component has no member-name form: json.dumps writes "null")
  R3  value objects are rebuilt from the same role they were taken from: wire key K is filled from attribute A of
      the value and fed into constructor parameter P, and P is stored where A reads (Locus, Interval)
  R4  floats: the writer's tokens for non-finite values are exactly strings the reader's `float(...)` parses; finite
      values pass through as JSON numbers
  R5  containers recurse through the missing-aware `_na` variants on both sides (components may be missing); the base
      `_na` wrappers map None <-> None; hashed positions (set elements, dict keys) are decoded frozen and the freeze
      flag is propagated downwards
  R6  call strings: the separators / missing markers `Call.__str__` emits are the ones `_tcall._convert_from_json` tests
  R7  ndarray: the flattening order of the writer equals the order the reader rebuilds with; shape and data travel
  R8  purity: the result of every _convert_*json* method depends only on (parameters of the type, the converted value) - no converter
      reads back state that outlives the call (class attributes, module globals, mutable defaults, instance attributes) unless it is
      a memo whose key contains every input of the remembered value (e.g. self.reference_genome for a remembered Locus)
  R9  component coverage: on every feasible path of a container converter the converter of each component (element, key, value,
      field, point) is applied - or the converter that is skipped is the identity for every class the path's type guards admit
      (decided from that class's own _convert_to_json / _convert_from_json; float32/float64 are not: non-finite values travel as strings)
  R10 call strings as a regular language: for each (ploidy, phased) class the set of ALL strings Call.__str__ can emit (literal text and
      decimal numerals, holes bracketed by marker characters) is pushed through _tcall._convert_from_json by abstract execution over
      regular languages (engines/c32strdec.py; every test of the reader splits the language, every position it computes is one more
      marker); on every non-empty exit the reader must rebuild the class's ploidy, each allele as int() of exactly the numeral written
      for it, and the class's phased flag, and must not raise.  A non-empty counter-language gives a shortest witness string (printed only).
Does not decide: equality of the rebuilt values (e.g. numeric precision of float32 text).
"""
from __future__ import annotations

import ast
from typing import Dict, List, Optional, Sequence, Set, Tuple

from engines import c32norm as N
from engines import c32strdec as SD
from engines import pyfacts as pf
from engines import wiresig as W
from engines.common import AnalysisError, Ctx

META = dict(
    category='other',
    text='Structural writer/reader agreement of the JSON converters of all 20 HailType subclasses: pairing of overrides, key sets, '
         'per-key component converters, constructor-role correspondence (incl. type parameters carried by the value), float tokens, missing-aware recursion, '
         'freeze propagation, call-string tokens and ndarray order; path-sensitive component coverage (a component converter may only be skipped under a type guard '
         'that admits classes whose converter is the identity - guards are evaluated from the module\'s own class tables); purity of every converter (no state that '
         'outlives the call is read back, or a memo keyed by every input of the remembered value); call strings: the reader is decided against the whole regular language '
         'of strings Call.__str__ emits, per (ploidy, phased) class (same ploidy, alleles taken from exactly the numerals written, same phased flag, no exception). '
         'Every rule is a necessary condition of the round trip; value '
         'equality itself is not decided, hence level "other".',
    note='Trusted: CPython ast; float(str(x)) round-trips nan/inf/-inf (CPython float.__str__ / float.__new__ contract); json maps None<->null; str(int) of a '
         'non-negative int is 0|[1-9][0-9]* and int() inverts it; the semantics of the str operations modelled in engines/c32strdec.py (indexing, slicing, find, split, partition, scan loops). '
         'Not decided: value equality after the round trip, numpy dtype conversions.',
    technique='static analysis: AST extraction of key tables, converter-call tables and token tables on both directions, compared symbolically; path enumeration with '
              'type-guard evaluation over the module\'s class tables; def-use based state / memo-key analysis; abstract execution of the call-string reader over regular '
              'languages with position markers (engines/c32strdec.py on engines/relang.py: products, complement, emptiness with shortest witness)',
    design_ref='DESIGN.md §3 C32',
)

F = W.TYPES
CALL_F = W.VALUE_CLASS_FILES['Call']

TO, FROM, TO_NA, FROM_NA = '_convert_to_json', '_convert_from_json', '_convert_to_json_na', '_convert_from_json_na'


# --------------------------------------------------------------------------------------
# R1 pairing
# --------------------------------------------------------------------------------------


JSON_METHODS = (TO, FROM, TO_NA, FROM_NA, '_to_json', '_from_json')


def _eff_methods(m: pf.Module, cname: str) -> Dict[str, pf.FuncDef]:
    """Methods an instance of class `cname` has, looked up through the bases defined in the module (mixins included), HailType itself
    excluded: a converter inherited from an intermediate base or a mixin is an override of the HailType default like any other."""
    top = {c.name: c for c in m.tree.body if isinstance(c, ast.ClassDef)}
    out: Dict[str, pf.FuncDef] = {}
    seen: Set[str] = set()
    stack = [cname]
    while stack:
        cn = stack.pop(0)
        if cn in seen or cn not in top or cn == 'HailType':
            continue
        seen.add(cn)
        for k, v in W.methods(top[cn]).items():
            out.setdefault(k, v)
        stack += [d for d in (pf.dotted(b) for b in top[cn].bases) if d]
    return out


def _has_subclass(classes: Dict[str, ast.ClassDef], cname: str) -> bool:
    return any(pf.dotted(b) == cname for c in classes.values() for b in c.bases)


def _stmt_of(par: Dict[ast.AST, ast.AST], n: ast.AST) -> Optional[ast.AST]:
    cur: Optional[ast.AST] = n
    while cur is not None and not isinstance(cur, ast.stmt):
        cur = par.get(cur)
    return cur


def _wrapper_usage(m: pf.Module, cname: str) -> Tuple[str, str]:
    """How is class `cname` used inside the module?
      ('ordinary', why)       it is not a private wrapper that only lives inside attributes of other types (public name, bound to a module global,
                              returned / passed around, or never constructed here): an ordinary type, judged like every other
      ('encoding-only', why)  every construction is stored (directly or inside a constructor expression, possibly through a local) into self.<attr>,
                              and every load of `.<attr>` only ever receives `_convert_to_encoding` / `_convert_from_encoding`
      ('json', where)         a value stored that way receives a JSON converter call
      ('unknown', why)        stored that way, but some use of the attribute is not understood"""
    par = m.parents()
    attrs: Set[str] = set()
    n_cons = 0
    if not cname.startswith('_'):
        return 'ordinary', 'public name'
    for st in m.tree.body:
        if isinstance(st, (ast.Assign, ast.AnnAssign)) and st.value is not None and any(isinstance(n, ast.Name) and n.id == cname for n in ast.walk(st.value)):
            return 'ordinary', 'bound to a module-level name'

    def stored_into_self(fn: Optional[pf.FuncDef], stmt: Optional[ast.AST], depth: int = 2) -> Optional[Set[str]]:
        if isinstance(stmt, ast.Assign) and len(stmt.targets) == 1:
            t = stmt.targets[0]
            if isinstance(t, ast.Attribute) and isinstance(t.value, ast.Name) and fn is not None and W.param_names(fn) and t.value.id == W.param_names(fn)[0]:
                return {t.attr}
            if isinstance(t, ast.Name) and fn is not None and depth > 0 and len(pf.assignments(fn).get(t.id, [])) == 1:
                got: Set[str] = set()
                uses = [n for n in pf.walk_shallow(fn) if isinstance(n, ast.Name) and n.id == t.id and isinstance(n.ctx, ast.Load)]
                if not uses:
                    return None
                for u in uses:
                    r = stored_into_self(fn, _stmt_of(par, u), depth - 1)
                    if r is None:
                        return None
                    got |= r
                return got
        return None

    for n in ast.walk(m.tree):
        if isinstance(n, ast.Call) and isinstance(n.func, ast.Name) and n.func.id == cname:
            n_cons += 1
            got = stored_into_self(m.enclosing_func(n), _stmt_of(par, n))
            if got is None:
                return 'ordinary', f'constructed at line {n.lineno} into something other than an attribute of the constructing type'
            attrs |= got
        elif isinstance(n, ast.Name) and n.id == cname and isinstance(n.ctx, ast.Load):
            p = par.get(n)
            if not (isinstance(p, ast.Call) and p.func is n) and not (isinstance(p, ast.Call) and pf.dotted(p.func) == 'super'):
                return 'ordinary', f'the class object is used as a value at line {n.lineno}'
    if n_cons == 0:
        return 'ordinary', 'never constructed inside the module'
    unknown: Optional[str] = None
    for n in ast.walk(m.tree):
        if isinstance(n, ast.Attribute) and n.attr in attrs and isinstance(n.ctx, ast.Load):
            # climb: .attr(.element_type | .key_type | ...)*.<converter>(...)
            cur2: ast.AST = n
            verdict = None
            while True:
                p = par.get(cur2)
                if isinstance(p, ast.Attribute) and p.value is cur2:
                    pp = par.get(p)
                    if isinstance(pp, ast.Call) and pp.func is p:
                        if p.attr in ('_convert_to_encoding', '_convert_from_encoding'):
                            verdict = 'enc'
                        elif p.attr in JSON_METHODS:
                            verdict = 'json'
                        else:
                            verdict = 'other'
                        break
                    cur2 = p
                    continue
                break
            if verdict == 'json':
                return 'json', f'line {n.lineno}: `{pf.nsrc(par.get(cur2) if par.get(cur2) is not None else n)[:60]}`'
            if verdict != 'enc' and unknown is None:
                fn = m.enclosing_func(n)
                unknown = f'`{pf.nsrc(_stmt_of(par, n) or n)[:70]}` (line {n.lineno}' + (f', in {fn.name}' if fn is not None else '') + ')'
    if unknown is not None:
        return 'unknown', f'{cname} instances live in self.{"/".join(sorted(attrs))}, which is also used in {unknown}'
    return 'encoding-only', f'constructed {n_cons}x, only into self.{"/".join(sorted(attrs))}, which only ever receives _convert_*_encoding'


def _r1(ctx: Ctx, m: pf.Module, classes: Dict[str, ast.ClassDef]):
    for cname, c in classes.items():
        ms = _eff_methods(m, cname)
        for a, b in ((TO, FROM), (TO_NA, FROM_NA)):
            ha, hb = a in ms, b in ms
            cons = f'{F}::{cname}::{a}/{b}'
            if ha == hb:
                ctx.ok('R1', cons, {'overrides': ha}, nontrivial=ha)
                continue
            have, lack = (a, b) if ha else (b, a)
            if _has_subclass(classes, cname):
                # the missing direction may be supplied by every subclass: the class is judged at its (concrete) subclasses, whose effective methods include this one
                subs = [s_ for s_, sc in classes.items() if any(pf.dotted(b_) == cname for b_ in sc.bases)]
                ctx.need(all(lack in _eff_methods(m, s_) for s_ in subs) and not any(isinstance(n, ast.Call) and isinstance(n.func, ast.Name) and n.func.id == cname for n in ast.walk(m.tree)),
                         f'{cname} defines {have} but not {lack} and has subclasses {subs}: cannot tell whether {cname} itself is ever instantiated')
                ctx.ok('R1', cons, {'abstract': f'never constructed in the module; every subclass {subs} has both directions'}, nontrivial=False)
                continue
            kind, why = _wrapper_usage(m, cname)
            if kind == 'encoding-only':
                ctx.ok('R1', cons, {'exempt': why})
                continue
            ctx.need(kind != 'unknown', f'{cname} overrides {have} but not {lack}; whether it is only used on the binary-encoding path cannot be established: {why}')
            ctx.bad('R1', cons, f'class {cname} overrides {have} but not {lack}: a value converted by the overridden direction is handled by the '
                                f'base-class identity conversion in the other direction and does not come back equal' + (f' (the wrapper is used on the JSON path: {why})' if kind == 'json' else ''),
                    m.path, ms[have].lineno)


# --------------------------------------------------------------------------------------
# R2 keys, R3 roles
# --------------------------------------------------------------------------------------


def _mutated_after_def(fn: pf.FuncDef, name: str) -> Optional[ast.AST]:
    """A statement that changes the object bound to `name` after its creation (item store, mutator call, augmented assignment), if any."""
    for n in pf.walk_shallow(fn):
        if isinstance(n, (ast.Assign, ast.AugAssign, ast.AnnAssign, ast.Delete)):
            tgts = n.targets if isinstance(n, (ast.Assign, ast.Delete)) else [n.target]
            for t in tgts:
                for tt in (t.elts if isinstance(t, (ast.Tuple, ast.List)) else [t]):
                    if isinstance(tt, (ast.Subscript, ast.Attribute)) and isinstance(tt.value, ast.Name) and tt.value.id == name:
                        return n
                    if isinstance(n, ast.AugAssign) and isinstance(tt, ast.Name) and tt.id == name:
                        return n
        if isinstance(n, ast.Call) and isinstance(n.func, ast.Attribute) and isinstance(n.func.value, ast.Name) and n.func.value.id == name and n.func.attr in W.MUTATORS:
            return n
    return None


def _returned_expr(fn: pf.FuncDef) -> List[ast.expr]:
    """Expressions a function may return: `return e` with a returned local followed to its defining expression(s).  Declines when the returned
    object is completed after its creation (`d = {}; d['k'] = ...; return d`): its defining expression is then not what is returned."""
    outs = []
    for n in pf.walk_shallow(fn):
        if isinstance(n, ast.Return) and n.value is not None:
            if isinstance(n.value, ast.Name) and n.value.id not in W.param_names(fn):
                mut = _mutated_after_def(fn, n.value.id)
                if mut is not None:
                    raise AnalysisError(f'{F}::{fn.name} (line {mut.lineno}): the returned object `{n.value.id}` is built up by `{pf.nsrc(mut)[:60]}` (unrecognised idiom)')
            r = pf.resolve_expr(fn, n.value)
            if isinstance(r, ast.Name) and r.id not in W.param_names(fn):
                ds = [d for d in pf.assignments(fn).get(r.id, []) if isinstance(d, ast.expr)]
                outs.extend(ds if ds else [r])
            else:
                outs.append(r)
    # a value served from a memo (`return S[k]` / `S.get(k)`): what the function stores into S is what it returns
    for r in list(outs):
        base = None
        if isinstance(r, ast.Subscript):
            base = r.value
        elif isinstance(r, ast.Call) and isinstance(r.func, ast.Attribute) and r.func.attr == 'get':
            base = r.func.value
        if base is not None and not (isinstance(base, ast.Name) and base.id in W.param_names(fn)):
            for n in pf.walk_shallow(fn):
                if isinstance(n, ast.Assign) and len(n.targets) == 1 and isinstance(n.targets[0], ast.Subscript) and pf.nsrc(n.targets[0].value) == pf.nsrc(base):
                    outs.append(pf.resolve_expr(fn, n.value))
    return outs


def _conv_call(e: ast.AST, names: Tuple[str, ...]) -> Optional[ast.Call]:
    if isinstance(e, ast.Call) and isinstance(e.func, ast.Attribute) and e.func.attr in names:
        return e
    return None


def _dict_display(e: ast.AST) -> Optional[List[Tuple[Optional[ast.expr], ast.expr]]]:
    """(key, value) pairs of `{...}` or `dict(k=v, ...)`; key None for a ** entry."""
    if isinstance(e, ast.Dict):
        return list(zip(e.keys, e.values))
    if isinstance(e, ast.Call) and isinstance(e.func, ast.Name) and e.func.id == 'dict' and not e.args and e.keywords:
        return [(ast.copy_location(ast.Constant(value=k.arg), k.value) if k.arg is not None else None, k.value) for k in e.keywords]
    return None


def _writer_key_table(fn: pf.FuncDef) -> Optional[Tuple[Dict[str, Tuple[Optional[ast.expr], ast.expr]], ast.AST]]:
    """Dict display returned (possibly as the element of a list comprehension): key -> (component receiver | None, raw value expr)."""
    for r in _returned_expr(fn):
        d = r
        if isinstance(d, ast.ListComp):
            d = d.elt
        pairs = _dict_display(d)
        if pairs is not None:
            tab: Dict[str, Tuple[Optional[ast.expr], ast.expr]] = {}
            for k, v in pairs:
                if not (isinstance(k, ast.Constant) and isinstance(k.value, str)):
                    raise AnalysisError(f'{F}::{fn.name}: JSON object with a non-literal key `{pf.nsrc(k) if k else "**"}`')
                if k.value in tab:
                    raise AnalysisError(f'{F}::{fn.name}: JSON object lists key {k.value!r} twice')
                c = _conv_call(v, (TO, TO_NA))
                if c is not None:
                    if len(c.args) != 1:
                        raise AnalysisError(f'{F}::{fn.name}: converter call with {len(c.args)} arguments')
                    tab[k.value] = (c.func.value, c.args[0])
                else:
                    tab[k.value] = (None, v)
            return tab, d
    return None


def _iter_bindings(fn: pf.FuncDef) -> List[Tuple[ast.AST, ast.AST, ast.AST]]:
    """(target, iterable, node) of every for loop / comprehension generator of fn"""
    out = []
    for n in ast.walk(fn):
        if isinstance(n, (ast.For, ast.AsyncFor)):
            out.append((n.target, n.iter, n))
        elif isinstance(n, ast.comprehension):
            out.append((n.target, n.iter, n))
    return out


def _reader_key_uses(fn: pf.FuncDef, par: Dict[ast.AST, ast.AST]) -> Tuple[Dict[str, List[Tuple[Optional[ast.expr], ast.AST]]], Tuple[Optional[str], Set[str]]]:
    """(key -> [(component receiver | None, outermost expression carrying the value)], first use of the JSON value that is not understood).
    The JSON value is the second parameter, or a loop / comprehension variable ranging over it; understood uses are `<json>['key']`, `<json>.get('key')`,
    iteration, `is None` tests, truth tests and len().  Anything else (the object handed to a helper, a computed key, an alias) means the set of keys
    the reader consults is not known."""
    ps = W.param_names(fn)
    x = ps[1]
    json_names = {x}
    grew = True
    while grew:
        grew = False
        for tgt, it, _ in _iter_bindings(fn):
            if isinstance(it, ast.Name) and it.id in json_names and isinstance(tgt, ast.Name) and tgt.id not in json_names:
                json_names.add(tgt.id)
                grew = True
    out: Dict[str, List[Tuple[Optional[ast.expr], ast.AST]]] = {}
    unknown: Optional[str] = None
    soft: Set[str] = set()
    for nm in json_names - {x}:
        if len(pf.assignments(fn).get(nm, [])) != 1:
            unknown = unknown or f'`{nm}` is bound more than once'
    for n in ast.walk(fn):
        if not (isinstance(n, ast.Name) and n.id in json_names):
            continue
        if not isinstance(n.ctx, ast.Load):
            continue
        p = par.get(n)
        use: Optional[ast.AST] = None
        key: Optional[str] = None
        if isinstance(p, (ast.comprehension, ast.For, ast.AsyncFor)) and p.iter is n:
            continue
        if isinstance(p, ast.Subscript) and p.value is n and isinstance(p.ctx, ast.Load) and isinstance(p.slice, ast.Constant) and isinstance(p.slice.value, str):
            use, key = p, p.slice.value
        elif isinstance(p, ast.Attribute) and p.value is n and p.attr == 'get' and isinstance(par.get(p), ast.Call) and par[p].func is p and 1 <= len(par[p].args) <= 2 \
                and isinstance(par[p].args[0], ast.Constant) and isinstance(par[p].args[0].value, str) and not par[p].keywords:
            use, key = par[p], par[p].args[0].value
            soft.add(key)   # a lookup that tolerates the absence of the key
        elif isinstance(p, ast.Compare) and len(p.ops) == 1 and isinstance(p.ops[0], (ast.Is, ast.IsNot)) and isinstance(p.comparators[0], ast.Constant) and p.comparators[0].value is None:
            continue
        elif isinstance(p, ast.Call) and pf.dotted(p.func) == 'len' and len(p.args) == 1:
            continue
        elif isinstance(p, (ast.If, ast.IfExp, ast.While)) and p.test is n or (isinstance(p, ast.UnaryOp) and isinstance(p.op, ast.Not)):
            continue
        if use is None:
            unknown = unknown or f'`{pf.nsrc(p if p is not None else n)[:60]}` (line {n.lineno})'
            continue
        pu = par.get(use)
        c = _conv_call(pu, (FROM, FROM_NA)) if pu is not None else None
        if c is not None and c.args and c.args[0] is use:
            out.setdefault(key, []).append((c.func.value, c))
        else:
            out.setdefault(key, []).append((None, use))
            if isinstance(pu, (ast.Assign, ast.AnnAssign, ast.NamedExpr, ast.AugAssign)):
                # the raw value goes into a variable (one that is assigned more than once, or the normal form would have substituted it): what happens to it is not followed
                unknown = unknown or f'`{pf.nsrc(pu)[:60]}` (line {n.lineno})'
    return out, (unknown, soft)


def _canon_recv(eff: Dict[str, pf.FuncDef], e: Optional[ast.AST]) -> Optional[str]:
    """`self.<attr>` with a plain property (`return self._x`) replaced by the attribute it returns; None for anything else (not comparable by text)."""
    if e is None:
        return None
    if isinstance(e, ast.Attribute) and isinstance(e.value, ast.Name) and e.value.id == 'self':
        fn = eff.get(e.attr)
        if fn is not None and 'property' in pf.decorator_names(fn):
            b = W.body_wo_doc(fn)
            if len(b) == 1 and isinstance(b[0], ast.Return) and isinstance(b[0].value, ast.Attribute) and isinstance(b[0].value.value, ast.Name) and b[0].value.value.id == W.param_names(fn)[0]:
                return f'self.{b[0].value.attr}'
            return None
        if fn is not None:
            return None
        return f'self.{e.attr}'
    return None


FIELD_ITEMS = ('self.items()', 'self._field_types.items()')
FIELD_NAMES = ('self._field_types', 'self.keys()', 'self._field_types.keys()', 'self.fields', 'self._fields', 'self')


def _binder_of(fn: pf.FuncDef, par: Dict[ast.AST, ast.AST], node: ast.AST, name: str) -> Optional[Tuple[ast.AST, ast.AST]]:
    """(target, iterable) of the innermost enclosing loop / comprehension that binds `name`"""
    cur: Optional[ast.AST] = node
    while cur is not None and cur is not fn:
        cur = par.get(cur)
        gens: List[Tuple[ast.AST, ast.AST]] = []
        if isinstance(cur, (ast.DictComp, ast.ListComp, ast.GeneratorExp, ast.SetComp)):
            gens = [(g.target, g.iter) for g in cur.generators]
        elif isinstance(cur, (ast.For, ast.AsyncFor)):
            gens = [(cur.target, cur.iter)]
        for tgt, it in reversed(gens):
            if any(isinstance(x_, ast.Name) and x_.id == name for x_ in ast.walk(tgt)):
                return tgt, it
    return None


def _field_name_key(fn: pf.FuncDef, par: Dict[ast.AST, ast.AST], node: ast.AST, key: Optional[ast.AST]) -> Optional[bool]:
    """Is `key` (used at `node`) the field NAME of an iteration over the type's field table?  True / False (it is another component of such an
    iteration) / None (not decided)."""
    if not isinstance(key, ast.Name):
        return None
    b = _binder_of(fn, par, node, key.id)
    if b is None:
        return None
    tgt, it = b
    its = pf.nsrc(it)
    if its in FIELD_ITEMS and isinstance(tgt, ast.Tuple) and len(tgt.elts) == 2 and all(isinstance(e_, ast.Name) for e_ in tgt.elts):
        return tgt.elts[0].id == key.id
    if its in FIELD_NAMES and isinstance(tgt, ast.Name):
        return tgt.id == key.id
    return None


def _value_bound_names(fn: pf.FuncDef, x: str) -> Set[str]:
    """names bound by a loop / comprehension that ranges over the converted value (or over something computed from it)"""
    taint = {x}
    grew = True
    while grew:
        grew = False
        for tgt, it, _ in _iter_bindings(fn):
            if any(isinstance(n, ast.Name) and n.id in taint for n in ast.walk(it)):
                for n in ast.walk(tgt):
                    if isinstance(n, ast.Name) and n.id not in taint:
                        taint.add(n.id)
                        grew = True
    return taint - {x}


def _r2_member_names(ctx: Ctx, m: pf.Module, classes: Dict[str, ast.ClassDef]) -> None:
    """Member names of the JSON objects a writer emits are literals or field names of the type - never components of the value: a component may be
    missing, json.dumps renders a None member name as the string "null", and the reader gets a different key back (or two entries collapse)."""
    par = m.parents()
    for cname in classes:
        ms = _eff_methods(m, cname)
        if TO not in ms:
            continue
        wfn = ms[TO]
        x = W.param_names(wfn)[1] if len(W.param_names(wfn)) > 1 else None
        if x is None:
            continue
        bound = _value_bound_names(wfn, x)
        try:
            rets = _returned_expr(wfn)
        except AnalysisError:
            continue   # reported by the rule that needs the returned expression
        for r in rets:
            d = r.elt if isinstance(r, (ast.ListComp, ast.GeneratorExp)) else r
            keys: List[Optional[ast.expr]] = []
            if isinstance(d, ast.DictComp):
                keys = [d.key]
            else:
                pairs = _dict_display(d)
                if pairs is None:
                    continue
                keys = [k for k, _ in pairs]
            cons = f'{F}::{cname}.{TO}::object member names'
            verdicts = []
            for k in keys:
                if isinstance(k, ast.Constant) and isinstance(k.value, str):
                    verdicts.append(('ok', 'literal'))
                    continue
                if k is None:
                    verdicts.append(('unknown', '** entry'))
                    continue
                if _field_name_key(wfn, par, k, k) is True:
                    verdicts.append(('ok', 'field name'))
                    continue
                core = k
                c = _conv_call(core, (TO, TO_NA))
                if c is not None and len(c.args) == 1:
                    core = c.args[0]
                if isinstance(core, ast.Name) and core.id in bound:
                    verdicts.append(('bad', pf.nsrc(k)))
                elif isinstance(core, ast.Subscript) and isinstance(core.value, ast.Name) and core.value.id in bound | {x}:
                    verdicts.append(('bad', pf.nsrc(k)))
                else:
                    verdicts.append(('unknown', pf.nsrc(k)))
            bads = [t for v, t in verdicts if v == 'bad']
            if bads:
                ctx.bad('R2', cons, f'{cname}.{TO} emits a JSON object whose member names are components of the value (`{bads[0]}`): a member name cannot be null - json.dumps writes a '
                                    f'missing (None) one as the string "null", which reads back as the text \'null\' (and collides with a real key of that spelling). '
                                    f'Counter-example: {{None: 7, \'a\': 1}} -> {{"null": 7, "a": 1}} -> {{\'null\': 7, \'a\': 1}}', m.path, d.lineno)
                continue
            unk = [t for v, t in verdicts if v == 'unknown']
            ctx.need(not unk, f'{F}::{cname}.{TO} (line {d.lineno}): JSON object member name `{unk[0] if unk else ""}` is neither a literal, a field name of the type nor a component of the value')
            ctx.ok('R2', cons, {'member_names': sorted({t for _, t in verdicts})})


def _r2_r3(ctx: Ctx, m: pf.Module, classes: Dict[str, ast.ClassDef]) -> int:
    par = m.parents()
    n_tables = 0
    for cname, c in classes.items():
        ms = _eff_methods(m, cname)
        if TO not in ms or FROM not in ms:
            continue
        wfn, rfn = ms[TO], ms[FROM]
        wt = _writer_key_table(wfn)
        cons = f'{F}::{cname}::json object keys'
        if wt is None:
            # symbolic keys (struct): {f: ... for f, t in <fields>} vs x.get(f) / x[f] for f, t in <fields>
            rets = _returned_expr(wfn)
            dc = [r for r in rets if isinstance(r, ast.DictComp)]
            if not dc:
                continue
            ctx.need(len(dc) == 1 and len(dc[0].generators) == 1 and not dc[0].generators[0].ifs, f'{cname}.{TO}: unrecognised dict comprehension')
            ctx.need(_field_name_key(wfn, par, dc[0].key, dc[0].key) is True, f'{cname}.{TO}: dict comprehension is not keyed by the field name of an iteration over the field table')
            # reader: every x.get(K)/x[K] uses the name variable of an iteration over the same field table
            x = W.param_names(rfn)[1]
            uses = []
            for n in ast.walk(rfn):
                if isinstance(n, ast.Call) and isinstance(n.func, ast.Attribute) and n.func.attr == 'get' and isinstance(n.func.value, ast.Name) and n.func.value.id == x:
                    uses.append((n, n.args[0] if n.args else None))
                elif isinstance(n, ast.Subscript) and isinstance(n.value, ast.Name) and n.value.id == x:
                    uses.append((n, n.slice))
            ctx.need(len(uses) >= 1, f'{cname}.{FROM}: the JSON object is never indexed')
            bad = None
            for node, key in uses:
                v = _field_name_key(rfn, par, node, key)
                ctx.need(v is not None, f'{cname}.{FROM}: the JSON object is indexed by `{pf.nsrc(key) if key is not None else ""}`, which is not a variable of an iteration over the field table')
                if v is False:
                    bad = node
            ctx.check(bad is None, 'R2', cons, f'writer keys the object by field name over the field table, reader indexes it by `{pf.nsrc(bad) if bad is not None else ""}` '
                      f'which is not the field name of the same iteration: fields are looked up under different keys than written', m.path, rfn.lineno,
                      detail={'keys': '<field names>'})
            n_tables += 1
            continue
        wtab, wdict = wt
        ruses, (unknown, soft) = _reader_key_uses(rfn, par)
        n_tables += 1
        wk, rk = set(wtab), set(ruses)
        if wk != rk:
            # a difference of the key sets is established only if every use of the JSON value is understood, and a key that is read without being
            # written fails only if the lookup does not tolerate its absence
            ctx.need(unknown is None, f'{cname}.{FROM}: keys written {sorted(wk)}, keys read by literal subscripts {sorted(rk)}, and the JSON value is also used in {unknown}: '
                                      f'the set of keys the reader consults is not known')
            ctx.need(not ((rk - wk) & soft) or (wk - rk), f'{cname}.{FROM}: {sorted((rk - wk) & soft)} is looked up with .get() but never written (reads as absent; not decided)')
            ctx.bad('R2', cons, f'keys written {sorted(wk)} != keys read {sorted(rk)}: ' +
                    (f'{sorted(rk - wk)} is read but never written (KeyError / None on read-back); ' if rk - wk else '') +
                    (f'{sorted(wk - rk)} is written but never read (component lost)' if wk - rk else ''), m.path, rfn.lineno)
        else:
            ctx.ok('R2', cons, {'keys': sorted(wk)})
        # per key: same component converter
        for k in sorted(wk & rk):
            wrecv = wtab[k][0]
            ck = f'{F}::{cname}::json key {k!r} component'
            rr = ruses[k]
            wc = _canon_recv(ms, wrecv)
            wtxt = pf.nsrc(wrecv) if wrecv is not None else None
            rtxts = sorted({pf.nsrc(r) if r is not None else 'no converter' for r, _ in rr})

            def same(r: Optional[ast.expr]) -> Optional[bool]:
                if wrecv is None and r is None:
                    return True
                if wrecv is None or r is None:
                    return False   # one side converts the component, the other passes it through
                if pf.nsrc(r) == wtxt:
                    return True
                rc_ = _canon_recv(ms, r)
                if wc is not None and rc_ is not None:
                    return wc == rc_
                return None

            verdicts = [same(r) for r, _ in rr]
            if all(v is True for v in verdicts):
                ctx.ok('R2', ck, {'component': wc or wtxt})
                continue
            if any(v is True for v in verdicts) and all(v is True or (v is False and r is None) for v, (r, _) in zip(verdicts, rr)):
                # parsed through the matching converter; further raw reads of the same key (a memo key, a log message) are not conversions
                ctx.ok('R2', ck, {'component': wc or wtxt, 'additional_raw_reads': sum(1 for v in verdicts if v is False)})
                continue
            ctx.need(unknown is None and not any(v is None for v in verdicts),
                     f'{cname}: key {k!r} is written through `{wtxt}` and read through {rtxts}: receivers are not plain attributes of the type (or the raw value is '
                     f'processed further), cannot compare them')
            if len(set(rtxts)) != 1:
                ctx.bad('R2', ck, f'key {k!r} is read through different converters {rtxts}', m.path, rfn.lineno)
                continue
            ctx.bad('R2', ck, f'key {k!r} is written through `{wtxt}` but read back through `{rtxts[0]}`: the component is '
                    f'converted by one type and parsed by another', m.path, rr[0][1].lineno, {'component': wtxt})
        # R3 roles: writer key -> attribute of the value; reader key -> constructor parameter
        ctor = None
        for r in _returned_expr(rfn):
            if isinstance(r, ast.Call) and W.value_class_of_call(r):
                ctor = r
        if ctor is None:
            continue
        vc = W.value_class(W.value_class_of_call(ctor))
        xw = W.param_names(wfn)[1]
        # parameters of the type that the rebuilt value carries (reference genome of a locus, point type of an interval) come from the decoding type
        for prm_, ok_, what_ in W.type_params_passed(classes, cname, rfn, ctor, vc):
            ctx.need(ok_ is not None, f'{cname}.{FROM}: the {vc.name} is built with {prm_} = {what_}: not recognised as the type\'s own {prm_} nor as something else')
            ctx.check(ok_, 'R3', f'{F}::{cname}.{FROM}::{vc.name}({prm_}=) comes from the type',
                      f'{cname}.{FROM} builds the {vc.name} with {prm_} = {what_} instead of self.{prm_}: the wire form does not carry the {prm_}, so a value of '
                      f'{cname}<X> is read back with another {prm_} and compares unequal', m.path, ctor.lineno, detail={'param': prm_})
        for k in sorted(wk ^ rk):
            ctx.ok('R3', f'{F}::{cname}::role of json key {k!r}', 'not comparable: key exists on one side only (reported under R2)', nontrivial=False)
        for k in sorted(wk & rk):
            src = wtab[k][1]
            if not (isinstance(src, ast.Attribute) and isinstance(src.value, ast.Name) and src.value.id == xw):
                raise AnalysisError(f'{cname}.{TO}: value of key {k!r} is `{pf.nsrc(src)}`, not an attribute of the converted object')
            ctor_args = list(ctor.args) + [kw.value for kw in ctor.keywords]
            arg_nodes = [node for _, node in ruses[k] if any(node is a for a in ctor_args)]  # other reads of the key (e.g. a memo key) are not roles
            ctx.need(len(arg_nodes) == 1, f'{cname}.{FROM}: key {k!r} is passed to the {vc.name} constructor {len(arg_nodes)} times')
            prm = vc.param_of_arg(ctor, arg_nodes[0])
            ctx.need(prm is not None, f'{cname}.{FROM}: key {k!r} is not passed directly to the {vc.name} constructor')
            a_w = vc.attr_for_prop(src.attr)
            a_r = vc.attr_for_param(prm)
            ctx.need(a_w is not None, f'{vc.rel}::{vc.name}.{src.attr} is not a plain property returning self._x')
            ctx.need(a_r is not None, f'{vc.rel}::{vc.name}.__init__ does not store parameter {prm} in exactly one attribute')
            ctx.check(a_w == a_r, 'R3', f'{F}::{cname}::role of json key {k!r}',
                      f'key {k!r} is written from {vc.name}.{src.attr} (stored in {a_w}) but read back into constructor parameter `{prm}` (stored in {a_r}): '
                      f'the rebuilt {vc.name} has its components swapped', m.path, ctor.lineno, detail={'attr': src.attr, 'param': prm})
    return n_tables


# --------------------------------------------------------------------------------------
# R4 floats
# --------------------------------------------------------------------------------------

# tokens CPython's float.__str__ / repr produce for non-finite values, and what float(<str>) accepts (case-insensitive, optional sign)
STR_NONFINITE = {'nan', 'inf', '-inf'}
FLOAT_PARSES = {s + w for s in ('', '+', '-') for w in ('nan', 'inf', 'infinity')}


def _r4(ctx: Ctx, m: pf.Module, classes: Dict[str, ast.ClassDef]):
    for cname in ('_tfloat32', '_tfloat64'):
        ctx.need(cname in classes, f'anchor vanished: class {cname}')
        ms = _eff_methods(m, cname)
        cons = f'{F}::{cname}::non-finite tokens'
        # neither direction: the base-class identity on both sides; what json.dumps / json.loads make of NaN is outside this analysis
        ctx.need(TO in ms or FROM in ms, f'{cname} has neither {TO} nor {FROM}: the wire form of non-finite floats is then decided by the json module alone (not modelled)')
        if TO not in ms or FROM not in ms:
            # R1 reports the missing half; without both there is nothing to compare
            ctx.bad('R4', cons, f'{cname} lacks {TO if TO not in ms else FROM}: NaN/inf written as strings are not turned back into floats '
                                f'(or are handed to json.dumps unquoted)', m.path, classes[cname].lineno)
            continue
        wfn, rfn = ms[TO], ms[FROM]
        x = W.param_names(wfn)[1]
        wb = W.body_wo_doc(wfn)
        ctx.need(len(wb) == 1 and isinstance(wb[0], ast.If) and len(wb[0].body) == 1 and len(wb[0].orelse) == 1
                 and isinstance(wb[0].body[0], ast.Return) and isinstance(wb[0].orelse[0], ast.Return),
                 f'{cname}.{TO}: not of the form `if <test>: return a else: return b`')
        iff = wb[0]
        test, neg = iff.test, False
        if isinstance(test, ast.UnaryOp) and isinstance(test.op, ast.Not):
            test, neg = test.operand, True
        ctx.need(isinstance(test, ast.Call) and pf.dotted(test.func) in ('math.isfinite', 'np.isfinite', 'numpy.isfinite')
                 and len(test.args) == 1 and pf.nsrc(test.args[0]) == x, f'{cname}.{TO}: branch test `{pf.nsrc(iff.test)}` is not [not] math.isfinite({x})')
        fin, nonfin = (iff.body[0].value, iff.orelse[0].value) if not neg else (iff.orelse[0].value, iff.body[0].value)
        # tokens written for non-finite values
        tokens: Optional[Set[str]] = None
        if isinstance(nonfin, ast.Call) and pf.dotted(nonfin.func) in ('str', 'repr') and len(nonfin.args) == 1 and pf.nsrc(nonfin.args[0]) == x:
            tokens = set(STR_NONFINITE)
        elif isinstance(nonfin, ast.Constant) and isinstance(nonfin.value, str):
            tokens = {nonfin.value}
        elif isinstance(nonfin, ast.Constant) and nonfin.value is None:
            ctx.bad('R4', cons, f'{cname}.{TO} maps non-finite floats to None: NaN and the infinities come back as missing values', m.path, iff.lineno)
            continue
        elif isinstance(nonfin, ast.Name) and nonfin.id == x:
            tokens = None
            ctx.bad('R4', cons, f'{cname}.{TO} returns non-finite floats unchanged: json.dumps renders them as the bare tokens NaN/Infinity which are not JSON '
                                f'and which the reader\'s counterpart never sees as strings', m.path, iff.lineno)
            continue
        else:
            raise AnalysisError(f'{cname}.{TO}: non-finite branch returns `{pf.nsrc(nonfin)}` (unrecognised token producer)')
        ctx.need(isinstance(fin, ast.Name) and fin.id == x, f'{cname}.{TO}: finite branch returns `{pf.nsrc(fin)}`, expected the number itself')
        # reader
        rb = W.body_wo_doc(rfn)
        xr = W.param_names(rfn)[1]
        ctx.need(len(rb) == 1 and isinstance(rb[0], ast.Return) and rb[0].value is not None, f'{cname}.{FROM}: not a single return')
        rv = rb[0].value
        if isinstance(rv, ast.Name) and rv.id == xr:
            ctx.bad('R4', cons, f'{cname}.{FROM} returns the JSON value unchanged, so the strings {sorted(tokens)} written for NaN/inf come back as str, not float',
                    m.path, rfn.lineno)
            continue
        ctx.need(isinstance(rv, ast.Call) and pf.dotted(rv.func) == 'float' and len(rv.args) == 1 and pf.nsrc(rv.args[0]) == xr,
                 f'{cname}.{FROM}: returns `{pf.nsrc(rv)}`, expected float({xr})')
        unread = sorted(t for t in tokens if t.strip().lower() not in FLOAT_PARSES)
        ctx.check(not unread, 'R4', cons, f'writer emits {unread} for a non-finite value but float() does not parse it (ValueError on read-back)',
                  m.path, iff.lineno, detail={'tokens_written': sorted(tokens), 'reader': 'float(x)'})


# --------------------------------------------------------------------------------------
# R5 missing-aware recursion, base wrappers, freezing
# --------------------------------------------------------------------------------------


def _none_test(t: ast.AST, x: str) -> Optional[bool]:
    """polarity of a test that is exactly `x is None` (True) / `x is not None` (False); None for anything else"""
    neg = False
    while isinstance(t, ast.UnaryOp) and isinstance(t.op, ast.Not):
        t, neg = t.operand, not neg
    if isinstance(t, ast.Compare) and len(t.ops) == 1 and isinstance(t.left, ast.Name) and t.left.id == x and isinstance(t.comparators[0], ast.Constant) and t.comparators[0].value is None:
        if isinstance(t.ops[0], (ast.Is, ast.Eq)):
            return not neg
        if isinstance(t.ops[0], (ast.IsNot, ast.NotEq)):
            return neg
    return None


def _na_wrapper(fn: pf.FuncDef, delegate: str) -> Tuple[Optional[bool], str]:
    """Is fn `None -> None, anything else -> self.<delegate>(x, ...)`?  (True, '') | (False, what is wrong - a recognised shape that breaks it) |
    (None, why the shape is not recognised).  fn is in normal form (guards and conditional expressions are if/else statements)."""
    b = W.body_wo_doc(fn)
    ps = W.param_names(fn)
    if len(ps) < 2:
        return None, 'no value parameter'
    selfname, x = ps[0], ps[1]

    def delegates(e: Optional[ast.AST]) -> bool:
        return (isinstance(e, ast.Call) and pf.dotted(e.func) == f'{selfname}.{delegate}' and len(e.args) >= 1 and isinstance(e.args[0], ast.Name) and e.args[0].id == x
                and not any(isinstance(a, ast.Starred) for a in e.args))

    def none_value(e: Optional[ast.AST]) -> bool:
        return e is None or (isinstance(e, ast.Constant) and e.value is None) or (isinstance(e, ast.Name) and e.id == x)

    if len(b) == 1 and isinstance(b[0], ast.Return):
        if delegates(b[0].value):
            return False, f'calls {selfname}.{delegate}({x}) without testing `{x} is None`: a missing value reaches the type-specific converter'
        return None, f'returns `{pf.nsrc(b[0].value)[:60]}`'
    if len(b) == 1 and isinstance(b[0], ast.If) and len(b[0].body) == 1 and len(b[0].orelse) == 1 and isinstance(b[0].body[0], ast.Return) and isinstance(b[0].orelse[0], ast.Return):
        pol = _none_test(b[0].test, x)
        if pol is None:
            return None, f'branches on `{pf.nsrc(b[0].test)[:60]}`'
        none_ret, other_ret = (b[0].body[0].value, b[0].orelse[0].value) if pol else (b[0].orelse[0].value, b[0].body[0].value)
        if not delegates(other_ret):
            return None, f'the non-missing branch returns `{pf.nsrc(other_ret)[:60] if other_ret is not None else None}`'
        if none_value(none_ret):
            return True, ''
        if isinstance(none_ret, ast.Constant):
            return False, f'maps a missing value to the constant {none_ret.value!r} instead of None'
        return None, f'the missing branch returns `{pf.nsrc(none_ret)[:60]}`'
    return None, 'body is not a single if/else of returns'


def _flag_param(fn: pf.FuncDef) -> Optional[str]:
    ps = W.param_names(fn)
    if len(ps) >= 3:
        return ps[2]
    kw = [a.arg for a in fn.args.kwonlyargs]
    return kw[0] if len(kw) == 1 else None


def _flag_arg(call: ast.Call) -> Tuple[Optional[ast.AST], bool]:
    """(expression passed as the freeze flag | None, True when the call has * / ** arguments that may carry it)"""
    flag = call.args[1] if len(call.args) >= 2 else None
    star = any(isinstance(a, ast.Starred) for a in call.args) or any(k.arg is None for k in call.keywords)
    for kw in call.keywords:
        if kw.arg == '_should_freeze':
            flag = kw.value
    return flag, star


def _r5(ctx: Ctx, m: pf.Module, classes: Dict[str, ast.ClassDef]):
    base = W.methods(m.cls('HailType'))
    for na, plain in ((TO_NA, TO), (FROM_NA, FROM)):
        ctx.need(na in base and plain in base, f'anchor vanished: HailType.{na}/{plain}')
        okv, why = _na_wrapper(base[na], plain)
        ctx.need(okv is not None, f'{F}::HailType.{na}: not recognised as `None -> None, else self.{plain}(x)` ({why})')
        ctx.check(okv, 'R5', f'{F}::HailType.{na}',
                  f'HailType.{na} is not `None -> None, else self.{plain}(x)` - it {why}: missing values do not round-trip through null', m.path, base[na].lineno)
    # wrappers _to_json/_from_json use the _na entry points
    for nm, inner, plain, lib in (('_to_json', TO_NA, TO, 'json.dumps'), ('_from_json', FROM_NA, FROM, 'json.loads')):
        ctx.need(nm in base, f'anchor vanished: HailType.{nm}')
        calls = [pf.dotted(c.func) for c in pf.calls_in(base[nm])]
        good = f'self.{inner}' in calls and lib in calls
        # established: the entry point goes through the type-specific converter directly, so a top-level None reaches it
        ctx.need(good or (f'self.{plain}' in calls and f'self.{inner}' not in calls), f'{F}::HailType.{nm}: does not recognisably go through self.{inner} and {lib} (calls: {calls})')
        ctx.check(good, 'R5', f'{F}::HailType.{nm}',
                  f'HailType.{nm} calls self.{plain} instead of self.{inner} (calls: {calls}): a top-level missing value is not mapped to/from null',
                  m.path, base[nm].lineno)

    for cname, c in classes.items():
        ms = W.methods(c)
        for meth, plain, na in ((TO, TO, TO_NA), (FROM, FROM, FROM_NA), (FROM_NA, FROM, FROM_NA), (TO_NA, TO, TO_NA)):
            if meth not in ms:
                continue
            fn = ms[meth]
            own_flag = _flag_param(fn)
            for call in pf.calls_in(fn):
                f = call.func
                if not (isinstance(f, ast.Attribute) and f.attr in (plain, na)):
                    continue
                recv = pf.nsrc(f.value)
                if recv in ('self', 'super()') :
                    continue
                cons = f'{F}::{cname}.{meth}::{recv}.{f.attr}({pf.nsrc(call.args[0]) if call.args else ""})'
                ctx.check(f.attr == na, 'R5', cons,
                          f'component converted with `{recv}.{f.attr}` instead of `{na}`: a missing (None) component is passed to the type-specific '
                          f'converter instead of being mapped to null (e.g. float64 -> math.isfinite(None) TypeError, array -> iteration over None, '
                          f'call -> the string "None")' if plain == TO else
                          f'component parsed with `{recv}.{f.attr}` instead of `{na}`: a null component is passed to the type-specific parser '
                          f'(e.g. float(None) TypeError)', m.path, call.lineno)
                # freeze propagation on the reader side
                if plain == FROM:
                    flag, star = _flag_arg(call)
                    fcons = f'{F}::{cname}.{meth}::{recv}.{f.attr}::freeze flag'
                    txt = pf.nsrc(flag) if flag is not None else None
                    forwarded = (isinstance(flag, ast.Name) and own_flag is not None and flag.id == own_flag) or (isinstance(flag, ast.Constant) and flag.value is True)
                    dropped = (flag is None and not star) or (isinstance(flag, ast.Constant) and not flag.value)
                    ctx.need(forwarded or dropped, f'{F}::{cname}.{meth} (line {call.lineno}): the freeze flag handed to `{pf.nsrc(call)[:80]}` is `{txt}`, neither the method\'s own flag nor a constant')
                    ctx.check(forwarded, 'R5', fcons, f'recursive parse `{pf.nsrc(call)[:90]}` does not forward the freeze flag (passes {txt}): inside a set element or '
                              f'dict key the nested list/dict stays unhashable and building the enclosing set/dict raises TypeError', m.path, call.lineno)
    # hashed positions are frozen unconditionally
    for cname, which in (('tset', 'element_type'), ('tdict', 'key_type')):
        ctx.need(cname in classes, f'anchor vanished: class {cname}')
        ms = _eff_methods(m, cname)
        ctx.need(FROM in ms, f'anchor vanished: {cname}.{FROM}')
        want = _canon_recv(ms, ast.Attribute(value=ast.Name(id='self', ctx=ast.Load()), attr=which, ctx=ast.Load()))
        ctx.need(want is not None, f'{cname}.{which} is not a plain attribute / property of the type')
        found = []
        for call in pf.calls_in(ms[FROM]):
            f = call.func
            if isinstance(f, ast.Attribute) and f.attr in (FROM, FROM_NA) and _canon_recv(ms, f.value) == want:
                found.append((call,) + _flag_arg(call))
        ctx.need(len(found) >= 1, f'{cname}.{FROM}: no parse of self.{which} found')
        own_flag = _flag_param(ms[FROM])
        for idx, (call, flag, star) in enumerate(found):
            frozen = isinstance(flag, ast.Constant) and flag.value is True
            not_frozen = (flag is None and not star) or (isinstance(flag, ast.Constant) and not flag.value) or (isinstance(flag, ast.Name) and flag.id == own_flag)
            ctx.need(frozen or not_frozen, f'{cname}.{FROM} (line {call.lineno}): self.{which} is parsed with the freeze flag `{pf.nsrc(flag) if flag is not None else "*args"}`, which is neither True nor a recognised other value')
            ctx.check(frozen, 'R5', f'{F}::{cname}.{FROM}::self.{which} frozen' + (f'#{idx}' if idx else ''),
                      f'self.{which} values become {"set elements" if cname == "tset" else "dict keys"} but are parsed with _should_freeze={pf.nsrc(flag) if flag is not None else "default False"}: '
                      f'an array/set/dict/struct-typed one is an unhashable list/dict and the read-back raises TypeError', m.path, call.lineno)


# --------------------------------------------------------------------------------------
# R6 call tokens
# --------------------------------------------------------------------------------------


_CALL_MOD: List[pf.Module] = []


def _call_module() -> pf.Module:
    """call.py with Call.__str__ in normal form (tuple assignments split, same-class helpers inlined, load-chain locals substituted, guards as if/else)"""
    if not _CALL_MOD:
        _CALL_MOD.append(N.normalise_module(pf.load(CALL_F), lambda c, f: 'cheap' if (c == 'Call' and f == '__str__') else None))
    return _CALL_MOD[0]


def _r6(ctx: Ctx, m: pf.Module, classes: Dict[str, ast.ClassDef], r10_done: bool = False, r10_failed: bool = False):
    cm = _call_module()
    s = cm.func('Call.__str__')
    ctx.need('_tcall' in classes, 'anchor vanished: class _tcall')
    ms = W.methods(classes['_tcall'])
    ctx.need(TO in ms and FROM in ms, 'anchor vanished: _tcall JSON converters')
    wb = W.body_wo_doc(ms[TO])
    xw = W.param_names(ms[TO])[1]
    ctx.need(len(wb) == 1 and isinstance(wb[0], ast.Return) and pf.nsrc(wb[0].value) == f'str({xw})', f'_tcall.{TO} is not `return str({xw})`')
    # writer tokens from Call.__str__: every returned constant / f-string, holes rendered as {}
    wtoks: Set[str] = set()
    plain_int = False
    for n in pf.walk_shallow(s):
        if isinstance(n, ast.Return) and n.value is not None:
            t = pf.fstring_template(n.value, lambda e: '{}')
            if t is not None:
                wtoks.add(t)
            elif isinstance(n.value, ast.Call) and pf.dotted(n.value.func) == 'str' and len(n.value.args) == 1:
                plain_int = True
            else:
                raise AnalysisError(f'{CALL_F}::Call.__str__: unrecognised return `{pf.nsrc(n.value)}`')
    ctx.need(plain_int, 'Call.__str__ no longer renders the unphased haploid call as the bare allele')
    consts = {t for t in wtoks if '{}' not in t}
    templ = {t for t in wtoks if '{}' in t}
    # reader tokens
    rfn = ms[FROM]
    xr = W.param_names(rfn)[1]
    eq_consts: Set[str] = set()
    prefix: Set[str] = set()
    sepset: Optional[str] = None
    phased_sep: Optional[str] = None
    for n in ast.walk(rfn):
        if isinstance(n, ast.Compare) and len(n.ops) == 1 and isinstance(n.comparators[0], ast.Constant) and isinstance(n.comparators[0].value, str):
            v = n.comparators[0].value
            if isinstance(n.ops[0], ast.Eq) and pf.nsrc(n.left) == xr:
                eq_consts.add(v)
            elif isinstance(n.ops[0], ast.Eq) and pf.nsrc(n.left) == f'{xr}[0]':
                prefix.add(v)
            elif isinstance(n.ops[0], ast.In):
                sepset = v
            elif isinstance(n.ops[0], ast.Eq) and isinstance(n.left, ast.Name):
                phased_sep = v
    ctx.need(sepset is not None and phased_sep is not None, f'_tcall.{FROM}: separator tests not found')
    cons = f'{F}::_tcall::call string tokens'
    problems = []
    if consts != eq_consts:
        problems.append(f'ploidy-0 markers written {sorted(consts)} != markers tested {sorted(eq_consts)}')
    hap = {t for t in templ if t.count('{}') == 1}
    dip = {t for t in templ if t.count('{}') == 2}
    if hap != {p + '{}' for p in prefix}:
        problems.append(f'phased haploid form written {sorted(hap)} != <prefix><allele> with the prefix tested on x[0] {sorted(prefix)}')
    if not all(t.startswith('{}') and t.endswith('{}') and len(t) > 4 for t in dip):
        problems.append(f'diploid forms written {sorted(dip)} are not <allele><separator><allele>')
    seps = {t[2:-2] for t in dip}
    if seps != set(sepset):
        problems.append(f'diploid separators written {sorted(seps)} != separators scanned for {sorted(set(sepset))}')
    # which separator means phased: in __str__ the template returned under `if self._phased`
    ph_written = None
    for n in ast.walk(s):
        if isinstance(n, ast.If) and pf.nsrc(n.test) in ('self._phased', 'self.phased') and len(n.body) == 1 and isinstance(n.body[0], ast.Return):
            t = pf.fstring_template(n.body[0].value, lambda e: '{}')
            if t is not None and t.count('{}') == 2 and t.startswith('{}') and t.endswith('{}'):
                ph_written = t[2:-2]
    ctx.need(ph_written is not None, 'Call.__str__: phased diploid template not found')
    if ph_written != phased_sep:
        problems.append(f'phased separator written {ph_written!r} but reader treats {phased_sep!r} as phased')
    detail = {'consts': sorted(consts), 'haploid': sorted(hap), 'diploid': sorted(dip)}
    if not problems:
        ctx.ok('R6', cons, detail)
        return
    # The token tables are read off the reader by shape (comparisons with literals); a reader that spells its tests differently (`x in ('-', '|-')`,
    # startswith, a table) yields tables that differ without the behaviour differing.  A difference is reported only when R10 - which decides the reader
    # on every string of the writer's language - has established that some call string is read back wrongly; then the tables say which tokens drifted.
    if r10_failed:
        ctx.bad('R6', cons, '; '.join(problems) + ': a call rendered by Call.__str__ is parsed back as a different call or fails to parse', m.path, rfn.lineno, detail)
    elif r10_done:
        ctx.ok('R6', cons, {'tables_differ_by_spelling': problems, 'decided_by': 'R10'}, nontrivial=False)
        ctx.info(f'{F}::_tcall: token tables of writer and reader differ in spelling only ({"; ".join(problems)}); R10 decides every string of the wire language and finds no difference')
    else:
        raise AnalysisError(f'{F}::_tcall: token tables of Call.__str__ and the reader differ ({"; ".join(problems)}) but the reader could not be decided on the wire language (R10 declined)')


# --------------------------------------------------------------------------------------
# R10 call strings: the reader decided against the regular language of everything the writer emits
# --------------------------------------------------------------------------------------


def _r10(ctx: Ctx, m: pf.Module, classes: Dict[str, ast.ClassDef]) -> None:
    cm = _call_module()
    ctx.need('_tcall' in classes, 'anchor vanished: class _tcall')
    ms = W.methods(classes['_tcall'])
    ctx.need(TO in ms and FROM in ms, 'anchor vanished: _tcall JSON converters')
    wb = W.body_wo_doc(ms[TO])
    xw = W.param_names(ms[TO])[1]
    # the wire form is str(value): Call.__str__ (an f-string / format of the value is the same function)
    ctx.need(len(wb) == 1 and isinstance(wb[0], ast.Return) and wb[0].value is not None
             and pf.nsrc(wb[0].value) in (f'str({xw})', f'{xw}.__str__()', "f'{" + xw + "}'", f"'{{}}'.format({xw})", f"'%s' % {xw}", f"'%s' % ({xw},)"),
             f'_tcall.{TO} is not `return str({xw})`')
    sfn = cm.func('Call.__str__')
    forms = SD.writer_forms(sfn, f'{CALL_F}::Call.__str__')
    vc = W.value_class('Call')
    rfn = ms[FROM]
    where = f'{F}::_tcall.{FROM}'
    selfname = W.param_names(rfn)[0]
    base_ms = W.methods(m.cls('HailType'))

    def resolver(name: str):
        """same-module helpers of the reader: methods of _tcall / HailType (not the converters themselves) and module-level functions"""
        parts = name.split('.')
        if len(parts) == 2 and parts[0] in (selfname, '_tcall'):
            fdef = ms.get(parts[1]) or base_ms.get(parts[1])
            if fdef is not None and not parts[1].startswith('_convert_') and isinstance(fdef, ast.FunctionDef):
                static = 'staticmethod' in pf.decorator_names(fdef)
                return (fdef, 0 if static or parts[0] != selfname else 1)
            return None
        if len(parts) == 1:
            for st_ in m.tree.body:
                if isinstance(st_, ast.FunctionDef) and st_.name == name:
                    return (st_, 0)
        return None

    mk = lambda: SD.Decoder(rfn, where, lambda c: W.value_class_of_call(c) == 'Call', vc.params[:2], resolver)
    ctx.need(vc.params[:2] == ['alleles', 'phased'], f'{CALL_F}::Call.__init__ parameters are {vc.params}')
    n_exits = n_splits = 0
    for (p, f), form in sorted(forms.items()):
        cons = f'{F}::_tcall::wire strings of calls with ploidy {p}, {"phased" if f else "unphased"}'
        holes = getattr(form, 'bad_holes', None)
        if holes is not None:
            ctx.bad('R10', cons, f'Call.__str__ renders a call with ploidy {p}, phased={f} as `{form.template()}`: alleles {holes} are on the wire, not each of '
                                 f'{list(range(p))} exactly once - no reader can rebuild the call', cm.path, form.line)
            continue
        v = SD.check_class(mk, form)
        n_exits += v.exits
        n_splits += v.splits
        msgs = list(dict.fromkeys(t for t, _ in v.problems))
        ctx.check(not msgs, 'R10', cons, ' | '.join(msgs[:3]) + f' (wire form of the class: `{form.template()}`, numerals 0|[1-9][0-9]*)', m.path,
                  v.problems[0][1] if v.problems else rfn.lineno, detail={'template': form.template(), 'reader_exits': v.exits, 'language_splits': v.splits})
    ctx.unit('call_string_classes', len(forms))
    ctx.unit('call_string_language_splits', n_splits)


# --------------------------------------------------------------------------------------
# R7 ndarray
# --------------------------------------------------------------------------------------


def _r7(ctx: Ctx, m: pf.Module, classes: Dict[str, ast.ClassDef]):
    ctx.need('tndarray' in classes, 'anchor vanished: class tndarray')
    ms = _eff_methods(m, 'tndarray')
    ctx.need(TO in ms and FROM in ms, 'anchor vanished: tndarray JSON converters')
    wt = _writer_key_table(ms[TO])
    ctx.need(wt is not None and 'data' in wt[0], f'tndarray.{TO}: no JSON object with a data key')
    data = pf.resolve_expr(ms[TO], wt[0]['data'][1])
    worder = None
    xw = W.param_names(ms[TO])[1]
    for n in ast.walk(data):
        if isinstance(n, ast.Call) and isinstance(n.func, ast.Attribute) and n.func.attr in ('flatten', 'ravel'):
            recv = pf.resolve_expr(ms[TO], n.func.value)
            ctx.need(isinstance(recv, ast.Name) and recv.id == xw, f'tndarray.{TO}: flattens `{pf.nsrc(n.func.value)[:60]}`, not the converted array itself (order relative to the value not known)')
            worder = 'C'
            args = list(n.args) + [k.value for k in n.keywords if k.arg == 'order']
            if args:
                ctx.need(isinstance(args[0], ast.Constant) and isinstance(args[0].value, str), f'tndarray.{TO}: non-literal flatten order')
                worder = args[0].value
    ctx.need(worder is not None, f'tndarray.{TO}: data is not produced by flatten/ravel')
    rorder = None
    builders = 0
    for n in ast.walk(ms[FROM]):
        if isinstance(n, ast.Call) and pf.dotted(n.func) in ('np.ndarray', 'numpy.ndarray'):
            builders += 1
            rorder = 'C'
            ctx.need(len(n.args) <= 1, f'tndarray.{FROM}: np.ndarray with positional arguments beyond the shape (order not read)')
            for k in n.keywords:
                if k.arg == 'order':
                    ctx.need(isinstance(k.value, ast.Constant) and isinstance(k.value.value, str), f'tndarray.{FROM}: non-literal order')
                    rorder = k.value.value
                ctx.need(k.arg not in ('strides', None), f'tndarray.{FROM}: np.ndarray with explicit strides / ** arguments (order not read)')
        elif isinstance(n, ast.Call) and isinstance(n.func, ast.Attribute) and n.func.attr == 'reshape':
            builders += 1
            o = [k.value for k in n.keywords if k.arg == 'order']
            ctx.need(all(isinstance(v, ast.Constant) and isinstance(v.value, str) for v in o), f'tndarray.{FROM}: non-literal reshape order')
            rorder = o[0].value if o else 'C'
        elif isinstance(n, ast.Attribute) and n.attr == 'T' or (isinstance(n, ast.Call) and isinstance(n.func, ast.Attribute) and n.func.attr in ('transpose', 'swapaxes')):
            raise AnalysisError(f'tndarray.{FROM}: the rebuilt array is transposed (`{pf.nsrc(n)[:40]}`): element order not read')
    ctx.need(builders <= 1, f'tndarray.{FROM}: the array is rebuilt in {builders} places')
    ctx.need(rorder is not None, f'tndarray.{FROM}: array is not rebuilt with np.ndarray(...)/reshape')
    ctx.check(worder.upper() == rorder.upper(), 'R7', f'{F}::tndarray::element order',
              f'writer flattens in {worder!r} order but the reader rebuilds the buffer in {rorder!r} order: every non-symmetric n-d array (n >= 2) comes back transposed/scrambled',
              m.path, ms[FROM].lineno, detail={'order': worder})


# --------------------------------------------------------------------------------------
# R8 purity / memo keys
# --------------------------------------------------------------------------------------

_PURITY_CONTROL = """
class HailType(object):
    pass
class tprobe(HailType):
    _seen = {}
    def _convert_from_json(self, x, _should_freeze=False):
        k = (x['a'],)
        v = tprobe._seen.get(k)
        if v is None:
            v = (x['a'], self.param)
            tprobe._seen[k] = v
        return v
"""


def _r8(ctx: Ctx, m: pf.Module, classes: Dict[str, ast.ClassDef]):
    is_codec = lambda n: n in (TO, FROM, TO_NA, FROM_NA, '_to_json', '_from_json')
    # converters inherited from a mixin (a module-level base that is not itself a HailType) are converters of the types that mix it in
    top = {c.name: c for c in m.tree.body if isinstance(c, ast.ClassDef)}
    classes = dict(classes)
    for c in list(classes.values()):
        stack = [pf.dotted(b) for b in c.bases]
        while stack:
            b = stack.pop()
            if b in top and b != 'HailType' and b not in classes:
                classes[b] = top[b]
                stack += [pf.dotted(x) for x in top[b].bases]
    findings, n_methods = W.codec_state(m, classes, is_codec)
    ctx.need(n_methods >= 26, f'expected >= 26 JSON converter methods, found {n_methods}')
    flagged = set()
    undecided = []
    for f in findings:
        if f.kind == 'violation':
            ctx.bad('R8', f.construct, f.message, m.path, f.line, f.detail)
            flagged.add(f.construct.split('::')[1])
        elif f.kind == 'ok':
            ctx.ok('R8', f.construct, f.message)
        else:
            undecided.append(f.message)
    for cname, c in list(classes.items()) + [('HailType', m.cls('HailType'))]:
        for nm in W.methods(c):
            if is_codec(nm) and f'{cname}.{nm}' not in flagged:
                ctx.ok('R8', f'{F}::{cname}.{nm}::pure', 'no state that outlives the call flows into the result')
    # positive control: the same analysis must flag a synthetic decoder whose class-level memo key omits a type parameter
    cm = pf.Module('<control>', '<control>', _PURITY_CONTROL, ast.parse(_PURITY_CONTROL))
    cf, _ = W.codec_state(cm, W.hail_type_classes(cm), is_codec)
    ctx.need(any(f.kind == 'violation' and 'self.param' in f.message for f in cf), 'internal: purity analysis does not flag its positive control')
    ctx.ok('R8', 'positive control: class-level memo keyed without a type parameter', 'flagged', nontrivial=False)
    ctx.need(not undecided, undecided[0] if undecided else '')


# --------------------------------------------------------------------------------------
# R9 component coverage under type guards
# --------------------------------------------------------------------------------------

FIELD_TABLES = ('self.items()', 'self._field_types.items()', 'self.types', 'self._types', 'self._field_types.values()', 'self.values()')


def _role(fn: pf.FuncDef, recv: ast.AST) -> str:
    """Normalised component role of a converter receiver / guard subject: element_type, key_type, value_type, point_type, fields.
    Roles are compared across paths and directions, so a receiver that is not recognised is not given a made-up role: the analysis declines."""
    if isinstance(recv, ast.Attribute) and isinstance(recv.value, ast.Name) and recv.value.id == 'self':
        return recv.attr.lstrip('_')
    if isinstance(recv, ast.Subscript) and pf.nsrc(recv.value) in ('self.types', 'self._types', 'self._field_types', 'self'):
        return 'fields'
    if pf.nsrc(recv) in ('self', 'super()'):
        return 'self'   # the type's own converter (base-class entry points)
    if isinstance(recv, ast.Name):
        for n in ast.walk(fn):
            tgt = it = None
            if isinstance(n, (ast.For, ast.comprehension)):
                tgt, it = n.target, n.iter
            if tgt is None or not any(isinstance(x, ast.Name) and x.id == recv.id for x in ast.walk(tgt)):
                continue
            if isinstance(it, ast.Call) and pf.dotted(it.func) == 'enumerate' and it.args and isinstance(tgt, ast.Tuple) and len(tgt.elts) == 2:
                tgt, it = tgt.elts[1], it.args[0]
            pairs = [(tgt, it)]
            if isinstance(it, ast.Call) and pf.dotted(it.func) == 'zip' and isinstance(tgt, ast.Tuple) and len(tgt.elts) == len(it.args) and not it.keywords:
                pairs = list(zip(tgt.elts, it.args))
            for t_, i_ in pairs:
                if any(isinstance(x, ast.Name) and x.id == recv.id for x in ast.walk(t_)):
                    i_r = pf.resolve_expr(fn, i_)
                    if isinstance(i_r, ast.Call) and pf.dotted(i_r.func) in ('list', 'tuple') and len(i_r.args) == 1 and not i_r.keywords:
                        i_r = i_r.args[0]
                    if pf.nsrc(i_r) in FIELD_TABLES:
                        return 'fields'
        d = pf.single_def(fn, recv.id)
        if isinstance(d, ast.expr) and not isinstance(d, ast.Name):
            return _role(fn, d)
    raise AnalysisError(f'{F}::{fn.name} (line {getattr(recv, "lineno", fn.lineno)}): converter receiver / guard subject `{pf.nsrc(recv)[:60]}` is not a recognised component of the type')


class _Path:
    def __init__(self, conds=(), roles=(), end='fall'):
        self.conds: Tuple[Tuple[ast.AST, bool], ...] = tuple(conds)
        self.roles: frozenset = frozenset(roles)
        self.end = end

    def plus(self, conds=(), roles=(), end=None) -> '_Path':
        return _Path(self.conds + tuple(conds), self.roles | frozenset(roles), end or self.end)


def _paths(fn: pf.FuncDef, names: Tuple[str, ...], include_self: bool = False, helpers: Optional[Dict[str, pf.FuncDef]] = None, _depth: int = 0) -> List[_Path]:
    """Feasible-by-syntax paths of a converter: branch decisions taken and the component roles whose converter (one of `names`) is applied.
    include_self: also count `self.<converter>(...)` (role 'self') - used for the base-class entry points.
    helpers: 'self.h' / 'Cls.h' / 'h' -> definition of same-module helpers; a call to one counts as applying the converters its body applies
    (when that does not depend on the helper's own branches; otherwise the analysis declines)."""
    where = f'{F}::{fn.name}'
    helpers = helpers or {}
    helper_roles: Dict[str, frozenset] = {}

    def roles_of_helper(call: ast.Call) -> Optional[frozenset]:
        d = pf.dotted(call.func)
        if d is None or d not in helpers or _depth >= 3:
            return None
        if d not in helper_roles:
            h = helpers[d]
            ps_ = _paths(h, names, include_self, {k: v for k, v in helpers.items() if v is not h}, _depth + 1)
            rs = {p_.roles for p_ in ps_}
            if len(rs) > 1:
                raise AnalysisError(f'{where}: helper {d} applies component converters on some of its paths only (unrecognised idiom)')
            # roles are named from the helper's own expressions (self.element_type, ...): the same names the caller would use
            helper_roles[d] = next(iter(rs)) if rs else frozenset()
        return helper_roles[d]

    def is_conv(e: ast.AST) -> bool:
        if isinstance(e, ast.Call) and roles_of_helper(e):
            return True
        return (isinstance(e, ast.Call) and isinstance(e.func, ast.Attribute) and e.func.attr in names
                and (include_self or pf.nsrc(e.func.value) not in ('self', 'super()')))

    def conv_roles(e: ast.Call) -> frozenset:
        hr = roles_of_helper(e)
        if hr:
            return hr
        return frozenset([_role(fn, e.func.value)])

    def has_conv(e: ast.AST) -> bool:
        return any(is_conv(x) for x in ast.walk(e))

    def alts(e: Optional[ast.AST]) -> List[Tuple[tuple, frozenset]]:
        """alternatives (conds, roles) of evaluating an expression"""
        if e is None or not has_conv(e):
            return [((), frozenset())]
        if isinstance(e, ast.IfExp):
            out = []
            for tc, tr in alts(e.test):
                for bc, br in alts(e.body):
                    out.append((tc + ((e.test, True),) + bc, tr | br))
                for oc, orr in alts(e.orelse):
                    out.append((tc + ((e.test, False),) + oc, tr | orr))
            return out
        if isinstance(e, ast.BoolOp):
            raise AnalysisError(f'{where} (line {e.lineno}): component converter inside a short-circuit expression (unrecognised idiom)')
        if isinstance(e, (ast.ListComp, ast.SetComp, ast.GeneratorExp, ast.DictComp)):
            if any(g.ifs for g in e.generators):
                raise AnalysisError(f'{where} (line {e.lineno}): filtered comprehension around a component converter (unrecognised idiom)')
        if isinstance(e, ast.Lambda):
            raise AnalysisError(f'{where} (line {e.lineno}): component converter inside a lambda (unrecognised idiom)')
        cur: List[Tuple[tuple, frozenset]] = [((), conv_roles(e) if is_conv(e) else frozenset())]
        for c in ast.iter_child_nodes(e):
            if isinstance(c, ast.expr) or isinstance(c, (ast.comprehension, ast.keyword)):
                sub = alts(c) if isinstance(c, ast.expr) else alts_node(c)
                cur = [(a + b, ra | rb) for a, ra in cur for b, rb in sub]
                if len(cur) > 64:
                    raise AnalysisError(f'{where}: too many paths')
        return cur

    def alts_node(n: ast.AST) -> List[Tuple[tuple, frozenset]]:
        cur: List[Tuple[tuple, frozenset]] = [((), frozenset())]
        for c in ast.iter_child_nodes(n):
            if isinstance(c, ast.expr):
                cur = [(a + b, ra | rb) for a, ra in cur for b, rb in alts(c)]
        return cur

    def block(stmts: Sequence[ast.stmt], live: List[_Path]) -> Tuple[List[_Path], List[_Path]]:
        """(paths falling through, paths ended)"""
        done: List[_Path] = []
        for st in stmts:
            if not live:
                break
            if isinstance(st, (ast.FunctionDef, ast.AsyncFunctionDef, ast.ClassDef)):
                if has_conv(st):
                    raise AnalysisError(f'{where} (line {st.lineno}): component converter inside a nested definition (unrecognised idiom)')
                continue
            if isinstance(st, ast.If):
                pre = alts(st.test)
                nxt: List[_Path] = []
                for p in live:
                    for c, r in pre:
                        q = p.plus(c, r)
                        f1, d1 = block(st.body, [q.plus([(st.test, True)])])
                        f2, d2 = block(st.orelse, [q.plus([(st.test, False)])])
                        nxt += f1 + f2
                        done += d1 + d2
                live = nxt
            elif isinstance(st, (ast.For, ast.AsyncFor, ast.While)):
                head = alts(st.iter) if not isinstance(st, ast.While) else alts(st.test)
                live = [p.plus(c, r) for p in live for c, r in head]
                f1, d1 = block(st.body, live)
                # early exits inside the loop body end the function; otherwise the body is taken as executed (per element)
                live = f1
                done += d1
            elif isinstance(st, (ast.With, ast.AsyncWith)):
                live, d1 = block(st.body, live)
                done += d1
            elif isinstance(st, ast.Try):
                if has_conv(st):
                    raise AnalysisError(f'{where} (line {st.lineno}): component converter inside try (unrecognised idiom)')
            elif isinstance(st, ast.Return):
                done += [p.plus(c, r, 'return') for p in live for c, r in alts(st.value)]
                live = []
            elif isinstance(st, ast.Raise):
                done += [p.plus(end='raise') for p in live]
                live = []
            else:
                for c in ast.iter_child_nodes(st):
                    if isinstance(c, ast.expr):
                        live = [p.plus(cc, r) for p in live for cc, r in alts(c)]
            if len(live) + len(done) > 64:
                raise AnalysisError(f'{where}: too many paths')
        return live, done

    live, done = block(W.body_wo_doc(fn), [_Path()])
    return [p for p in done + [q.plus(end='return') for q in live] if p.end != 'raise']


def _identity_conv(classes: Dict[str, ast.ClassDef], base: Dict[str, pf.FuncDef], cname: str, plain: str, na: str) -> Tuple[bool, str]:
    """Is the effective `plain` converter of class cname the identity (and the `_na` wrapper the base None-passthrough)?"""
    ms = W.methods(classes[cname])
    if na in ms:
        return False, f'{cname} overrides {na}'
    fn = ms.get(plain)
    owner = cname
    if fn is None:
        # single inheritance inside the module: walk named bases
        seen = set()
        stack = [pf.dotted(b) for b in classes[cname].bases]
        while stack and fn is None:
            b = stack.pop(0)
            if b in seen or b is None:
                continue
            seen.add(b)
            if b == 'HailType':
                fn, owner = base.get(plain), 'HailType'
            elif b in classes:
                fn, owner = W.methods(classes[b]).get(plain), b
                stack += [pf.dotted(x) for x in classes[b].bases]
    if fn is None:
        return False, f'{plain} of {cname} not found'
    b = W.body_wo_doc(fn)
    ps = W.param_names(fn)
    if len(b) == 1 and isinstance(b[0], ast.Return) and isinstance(b[0].value, ast.Name) and len(ps) >= 2 and b[0].value.id == ps[1]:
        return True, f'{owner}.{plain} returns its argument'
    return False, f'{owner}.{plain} is `{pf.nsrc(b[-1])[:70]}`' if b else f'{owner}.{plain} is empty'


def _float_tokens_note(classes: Dict[str, ast.ClassDef], cname: str) -> str:
    ms = W.methods(classes[cname])
    if TO in ms and any(isinstance(n, ast.Call) and pf.dotted(n.func) in ('str', 'repr') for n in ast.walk(ms[TO])):
        return (f'{cname}.{TO} writes non-finite values as str(x) ("nan", "inf", "-inf") and only {cname}.{FROM} (`{pf.nsrc(W.body_wo_doc(ms[FROM])[-1])}`) turns them back'
                if FROM in ms else f'{cname}.{TO} writes non-finite values as strings')
    return ''


def _split_conds(T: W.TypeTables, conds) -> List[Tuple[ast.AST, bool]]:
    """`a and b` taken / `a or b` not taken: every operand holds / fails - unless the whole test is one guard on one subject."""
    out: List[Tuple[ast.AST, bool]] = []
    for test, pol in conds:
        if T.guard(test) is None:
            t, p2 = test, pol
            while isinstance(t, ast.UnaryOp) and isinstance(t.op, ast.Not):
                t, p2 = t.operand, not p2
            if isinstance(t, ast.BoolOp) and ((isinstance(t.op, ast.And) and p2) or (isinstance(t.op, ast.Or) and not p2)):
                out += _split_conds(T, [(v, p2) for v in t.values])
                continue
            out.append((t, p2))
        else:
            out.append((test, pol))
    return out


def _type_guard(T: W.TypeTables, fn: pf.FuncDef, test: ast.AST) -> Optional[Tuple[str, frozenset, Optional[str]]]:
    """(component role, admitted classes, dead reason) of a test on a component type; `all(G(t) for t in <field types>)` bounds every field."""
    g = T.guard(test)
    if g is not None:
        return _role(fn, g.subject), g.admitted, g.dead
    if isinstance(test, ast.Call) and pf.dotted(test.func) == 'all' and len(test.args) == 1 and isinstance(test.args[0], (ast.GeneratorExp, ast.ListComp)) \
            and len(test.args[0].generators) == 1 and not test.args[0].generators[0].ifs:
        gen = test.args[0].generators[0]
        inner = T.guard(test.args[0].elt)
        if inner is not None and isinstance(inner.subject, ast.Name) and any(isinstance(x, ast.Name) and x.id == inner.subject.id for x in ast.walk(gen.target)) \
                and pf.nsrc(gen.iter) in FIELD_TABLES:
            return 'fields', inner.admitted, inner.dead
    return None


def _r9(ctx: Ctx, m: pf.Module, classes: Dict[str, ast.ClassDef]):
    T = W.TypeTables(m, classes)
    base = W.methods(m.cls('HailType'))
    n_inst = 0
    todo = list(classes.items()) + [('HailType', m.cls('HailType'))]
    for cname, c in todo:
        ms = W.methods(c)
        sides = {}
        is_base = cname == 'HailType'
        helpers: Dict[str, pf.FuncDef] = {}
        for hn, hf in list(base.items()) + list(ms.items()):
            if hn not in (TO, TO_NA, FROM, FROM_NA, '_to_json', '_from_json', '__init__') and not any(d_ in ('property', 'classmethod') for d_ in pf.decorator_names(hf)):
                helpers[f'self.{hn}'] = hf
                helpers[f'{cname}.{hn}'] = hf
        for st_ in m.tree.body:
            if isinstance(st_, ast.FunctionDef):
                helpers[st_.name] = st_
        for meth, side in ((TO, 'w'), (TO_NA, 'w'), (FROM, 'r'), (FROM_NA, 'r')) + ((('_to_json', 'w'), ('_from_json', 'r')) if is_base else ()):
            if meth in ms and not (is_base and meth in (TO, FROM)):
                names = (TO, TO_NA) if side == 'w' else (FROM, FROM_NA)
                sides[meth] = (side, _paths(ms[meth], names, include_self=is_base, helpers=helpers))
        roles = set()
        for meth, (side, ps) in sides.items():
            for p in ps:
                roles |= p.roles
        if not roles:
            continue
        for meth, (side, ps) in sides.items():
            fn = ms[meth]
            value_param = W.param_names(fn)[1] if len(W.param_names(fn)) > 1 else None
            plain, na = (TO, TO_NA) if side == 'w' else (FROM, FROM_NA)
            cons = f'{F}::{cname}.{meth}::component converters applied on every path'
            problems: List[str] = []
            facts: List[str] = []
            undecided: Optional[str] = None
            line = fn.lineno
            for p in ps:
                for role in sorted(roles - p.roles):
                    admitted = T.all
                    gtxt = []
                    vacuous = False
                    unknown = None
                    for test, pol in _split_conds(T, p.conds):
                        g = _type_guard(T, fn, test)
                        if g is not None:
                            if g[0] == role:
                                admitted = admitted & (g[1] if pol else (T.all - g[1]))
                                gtxt.append(('' if pol else 'not ') + pf.nsrc(test))
                                if pol and g[2]:
                                    facts.append(f'branch `{pf.nsrc(test)}` is dead: {g[2]}')
                            continue
                        t, neg = test, not pol
                        if isinstance(t, ast.UnaryOp) and isinstance(t.op, ast.Not):
                            t, neg = t.operand, not neg
                        # the converted value (or one component of it) is None / empty on this path: nothing to convert
                        if isinstance(t, ast.Compare) and len(t.ops) == 1 and isinstance(t.comparators[0], ast.Constant) and t.comparators[0].value is None:
                            is_none = isinstance(t.ops[0], ast.Is) != neg if isinstance(t.ops[0], (ast.Is, ast.IsNot)) else None
                            if is_none is True:
                                vacuous = True
                                continue
                            if is_none is False:
                                continue
                        if value_param and pf.nsrc(t) in (value_param, f'len({value_param})') and neg:
                            vacuous = True
                            continue
                        if value_param and pf.nsrc(t) in (f'len({value_param}) == 0', f'{value_param} == []') and not neg:
                            vacuous = True
                            continue
                        if isinstance(t, ast.Name) and t.id != value_param and t.id in W.param_names(fn):
                            continue  # a flag such as _should_freeze does not select component types
                        unknown = test
                    if vacuous:
                        continue
                    if unknown is not None:
                        undecided = (f'{F}::{cname}.{meth} (line {unknown.lineno}): the {role} converter is skipped under `{pf.nsrc(unknown)[:80]}`, '
                                     f'which is not a recognised test on the component type')
                        continue
                    if not admitted:
                        continue
                    offenders = []
                    for tname in sorted(admitted):
                        ok, why = _identity_conv(classes, base, tname, plain, na)
                        if not ok:
                            offenders.append((tname, why))
                    if offenders:
                        line = p.conds[-1][0].lineno if p.conds else fn.lineno
                        names = [t for t, _ in offenders]
                        ex = offenders[0]
                        note = next((nt for nt in (_float_tokens_note(classes, t) for t in names) if nt), '')
                        under = ' and '.join(f'`{g}`' for g in gtxt) if gtxt else 'no test on the component type at all'
                        cex = ''
                        floaty = [t for t in names if 'float' in t]
                        if floaty and note:
                            cex = (f' Counter-example: {cname}<{floaty[0].lstrip("_t")}> value [nan] -> wire ["nan"] -> read back as [\'nan\'] (a str)' if side == 'r' else
                                   f' Counter-example: {cname}<{floaty[0].lstrip("_t")}> value [nan] is handed to json.dumps unquoted (bare NaN token, not JSON)')
                        problems.append(f'on the path taken under {under} the {role} {"decoder" if side == "r" else "encoder"} (`{plain}`) is not applied although the other paths / the other '
                                        f'direction apply it; the path admits component classes {sorted(admitted)} and for {names} skipping is not the identity ({ex[1]}'
                                        + (f'; {note}' if note else '') + f').{cex}')
            problems = list(dict.fromkeys(problems))
            if problems:
                ctx.bad('R9', cons, ' | '.join(problems), m.path, line)
            else:
                ctx.ok('R9', cons, {'roles': sorted(roles), 'paths': len(ps), 'facts': facts})
            n_inst += 1
            if undecided:
                # established violations are recorded above; an unrecognised guard is an analysis error, reported after them
                ctx.need(False, undecided)
    ctx.need(n_inst >= 10, f'expected >= 10 container converters with component calls, found {n_inst}')


def run(ctx: Ctx) -> None:
    ctx.level = 'other'
    ctx.explanation = ('AST-level agreement tables between the JSON writer and reader of every HailType subclass in expr/types.py (override pairing, key sets, '
                       'component converters, constructor roles, float tokens, null handling, freeze flags, call tokens, ndarray order); no repository code is run.')
    ctx.rule('R1', 'a HailType subclass overrides _convert_to_json[_na] iff it overrides _convert_from_json[_na] (encoding-only wrappers exempt)', 40)
    ctx.rule('R2', 'JSON object keys written == keys read, and each key is converted/parsed through the same component type; member names of emitted objects are literals or '
                   'field names of the type, never (possibly missing) components of the value', 20)
    ctx.rule('R3', 'each wire key is filled from attribute A and fed to constructor parameter P with store(P) == source(A); parameters of the type carried by the value (reference genome, point type) are passed from self (Locus, Interval)', 7)
    ctx.rule('R4', 'float writer emits for NaN/inf exactly strings the reader\'s float() parses; finite values pass through', 2)
    ctx.rule('R5', 'components are converted through the missing-aware _na variants on both sides; base _na wrappers map None<->None; '
                   'set elements / dict keys are parsed frozen and the freeze flag is forwarded', 30)
    ctx.rule('R6', 'markers, prefix and separators of Call.__str__ are the ones _tcall._convert_from_json tests', 1)
    ctx.rule('R7', 'ndarray JSON: flatten order of the writer == rebuild order of the reader', 1)
    ctx.rule('R8', 'purity: no JSON converter reads back state that outlives the call unless it is a memo keyed by every input of the remembered value '
                   '(type parameters such as self.reference_genome included)', 26)
    ctx.rule('R9', 'on every feasible path of a container converter each component converter is applied, or the skipped converter is the identity for every '
                   'class the path\'s type guards admit (float32/float64 are not: nan/inf travel as strings)', 15)
    ctx.rule('R10', 'for each (ploidy, phased) class, every string Call.__str__ can emit (regular language, numerals 0|[1-9][0-9]*) is read back by '
                    '_tcall._convert_from_json without raising, with the same ploidy, each allele taken from exactly the numeral written for it, and the same phased flag', 6)
    ctx.assume('allele indices are non-negative ints: str() renders them as 0|[1-9][0-9]*; int() of such a numeral is the index; the alleles of an unphased diploid call are '
               'sorted by Call.__init__, so either order of the two numerals rebuilds the same call')
    ctx.assume('float(str(x)) == x for nan/inf/-inf and str(x) of a non-finite float is one of nan, inf, -inf (CPython)')
    ctx.assume('every component position of a container (element, key, value, field, interval endpoint) may hold a missing value')
    m_raw = pf.load(F)
    raw_classes = W.hail_type_classes(m_raw)
    ctx.need(len(raw_classes) >= 20, f'expected >= 20 HailType subclasses in {F}, found {len(raw_classes)}')
    ctx.unit('files', 3)
    ctx.unit('classes', len(raw_classes))
    _r8(ctx, m_raw, raw_classes)   # first: a history-dependent decoder is reported even when a later, shape-dependent rule declines
    # every other rule reads the converters in normal form (engines/c32norm.py): same-module helpers inlined (never another converter: those are dispatched on the
    # component's class), locals substituted, accumulation loops as comprehensions, guard clauses / conditional expressions as if/else.  The JSON converters have no
    # stream, their sub-expressions are functions of their arguments: every single-definition local may be substituted; everywhere else only load chains are.
    is_conv = lambda n: n in JSON_METHODS or n.startswith('_convert_') or n in ('_to_encoding', '_from_encoding')
    m = N.normalise_module(m_raw, lambda c, f: ('all' if f in JSON_METHODS else 'cheap') if c is not None else None, exclude=is_conv)
    classes = W.hail_type_classes(m)
    _r9(ctx, m, classes)
    _r1(ctx, m, classes)
    _r2_member_names(ctx, m, classes)
    nt = _r2_r3(ctx, m, classes)
    ctx.need(nt >= 5, f'expected >= 5 classes with JSON object layouts (ndarray, dict, struct, locus, interval), found {nt}')
    ctx.unit('key_tables', nt)
    _r4(ctx, m, classes)
    _r5(ctx, m, classes)
    _r7(ctx, m, classes)
    # call strings: R10 decides the reader against the whole language of the writer; R6 compares the token tables of the two sides.  Either may
    # meet a shape it does not recognise: the other one still reports, and the decline is raised after both
    deferred: List[str] = []
    r10_done = False
    try:
        _r10(ctx, m, classes)
        r10_done = True
    except AnalysisError as e:
        deferred.append(f'R10: {e}')
    r10_failed = any(i['rule'] == 'R10' and not i['holds'] for i in ctx.instances)
    try:
        _r6(ctx, m, classes, r10_done, r10_failed)
    except AnalysisError as e:
        if r10_done:
            # the token tables are a coarser view of what R10 has just decided for every string of every class
            ctx.ok('R6', f'{F}::_tcall::call string tokens', {'not_tabulated': str(e), 'decided_by': 'R10'}, nontrivial=False)
            ctx.info(f'{F}::_tcall: token tables of the call-string reader not extracted ({e}); the reader is decided by R10 on the whole wire language')
        else:
            deferred.append(f'R6: {e}')
    ctx.need(not deferred, '; '.join(deferred))
