"""C33 Value binary encoding round-trips and matches the engine layout.

Writer/reader/engine AGREEMENT rules, decided from syntax trees (Python) and narrow Scala extractors:
  R1  byte_reader.py primitive pairs: read_X / write_X use the same struct format, with the width and signedness the name
      promises, standard sizes in native/little-endian order, and the reader advances its offset by exactly that width
  R2  per HailType class: the wire program of `_convert_to_encoding` (sequence of primitives, loops / conditionals kept as
      structure, lengths resolved to the primitive that carries them) equals that of `_convert_from_encoding`; both directions
      are overridden together; presence tests guard the component that is then encoded
  R3  missing bits: element e of a nullable sequence is bit (e mod 8) of byte (e div 8), LSB first, ceil(n/8) bytes, on the
      writer (loop idiom), the reader (addressing idiom) and in `lookup_bit`
  R4  engine agreement: `EType.fromPythonTypeEncoding` (Scala) gives, per virtual type, an EType whose frozen wire layout equals
      the Python class's layout (missing bytes exactly where the element/field is not required, field order and kinds of
      locus / interval / dict entries, length prefixes); every Python class with an encoder has an arm
  R5  n-d arrays: shape as int64 per dimension, elements in column-major (Fortran) order on both sides; the raw-buffer fast
      path (memory order) must be dead or absent
  R6  struct-represented values (locus, interval): names written == fields of the representation == attributes read back,
      and each travels from attribute A to constructor parameter P with store(P) == source(A)
  R7  entry points: EncodedLiteral ships base64(type._to_encoding(value)) and the parser decodes it with
      fromPythonTypeEncoding over an unframed stream; results come back through the same function and stream spec
  R8  strings: utf-8 on both sides, the length prefix counts encoded bytes
  R9  purity: the result of every _convert_*_encoding method depends only on (parameters of the type, the bytes / value converted):
      state that outlives the call is not read back unless it is a memo whose key contains every input of the remembered value
  R10 freeze duty: a decoder that builds a list / set / dict returns a frozen value on every path on which _should_freeze may be true (tset /
      tdict decode elements / keys with the flag set because they hash them); an early return - bulk fast path, empty-input shortcut - placed
      before the freeze decision skips it.  Abstract execution of the decoder over (flag knowledge T/F/?, kind of each local H/U/?), helpers
      summarised, decided before and independently of the wire programs
Slot identity (R3): bit k must be computed from the component the payload writes k-th, i.e. the k-th DECLARED field.  Entries of a view of a
Mapping value (value.values() / .items() / .keys()) are separate symbolic slots "k-th entry in the value's own order"; a header built from
them is a violation (a struct value is any Mapping with the declared keys, in any order), whatever helper the packing went through.
Bulk reads (R2): a composite reader operation of the stream class that unpacks `count` values of one struct code (summarised from its body:
format <order><count><code>, unpack at the current offset, offset advanced by exactly the packed size) is one wire item; a decoder branch
`if <element type has a struct code> and <no missing bit set>: bulk read` is compared, for every element class the guard admits (per-class
table of the class-level code constant), with the general decode loop specialised to that class and to "every slot present".
R3 (writer side) is decided semantically: the statements that compute and write the missing bytes - with helper methods that receive
the stream inlined - are evaluated by an own interpreter over a symbolic missingness vector for n = 0..17 slots and compared with the
layout; R5 decides reachability of the n-d array bulk branch from the definitions its guard consults and, when live, the memory
order of the bytes from a table of numpy idioms (declining outside the table).
Does not decide: n-d array stride arithmetic, equality of decoded values.
"""
from __future__ import annotations

import ast
from typing import Any, Dict, List, Optional, Sequence, Tuple

from engines import c32norm as N
from engines import exprir as X
from engines import pyfacts as pf
from engines import scalalite_enc as S
from engines import wiresig as W
from engines.common import AnalysisError, Ctx, repo_path

META = dict(
    category='other',
    text='Wire programs are extracted from both converter directions of all HailType subclasses and compared structurally; the engine side is '
         'extracted from EType.fromPythonTypeEncoding and mapped through a frozen table of EType layouts. Agreement of layouts is a necessary '
         'condition of the round trip and of engine compatibility; value equality and numpy stride arithmetic are not decided, hence "other".',
    note='Scala is read through engines/scalalite_enc.py (tokeniser + parser for a small expression subset, anchored on object/def/val/case names, '
         'fail-closed; no Scala parser exists offline). Trusted base: CPython ast; that extractor; the frozen EType layout table in this module '
         '(EInt32/EInt64/EFloat32/EFloat64/EBoolean/EBinary/EBaseStruct/EArray/EUnsortedSet/EDictAsUnsortedArrayOfPairs/ENDArrayColumnMajor, '
         'read from their _buildEncoder/_buildDecoder by hand); struct standard sizes; well-typed values (rank of an ndarray value == ndim of its type).',
    technique='static analysis: extraction of wire programs (regular signatures with loops/conditionals, helpers that receive the stream inlined) from ASTs on both '
              'directions and from the Scala type-to-encoding table, compared symbolically; the missing-bit code of writers and readers is evaluated by an own interpreter '
              'over symbolic missingness bits (n = 0..17 slots; entries of a Mapping view of the value are separate symbols); type guards of bulk paths are evaluated from the '
              'module\'s class tables; numpy memory order from an idiom table; freeze duty by abstract execution over (flag knowledge, container kind); bulk reads summarised '
              'from the stream class and compared with the general decode loop per admitted element class',
    design_ref='DESIGN.md §3 C33',
)

F = W.TYPES
BR = 'hail/python/hail/utils/byte_reader.py'
MISC = 'hail/python/hail/utils/misc.py'
IRPY = 'hail/python/hail/ir/ir.py'
BACKEND = 'hail/python/hail/backend/backend.py'
ETYPE = 'hail/hail/src/is/hail/types/encoded/EType.scala'
VIRT = 'hail/hail/src/is/hail/types/virtual/'
PARSER = 'hail/hail/src/is/hail/expr/ir/Parser.scala'
BACKSC = 'hail/hail/src/is/hail/backend/Backend.scala'
BUFSPEC = 'hail/hail/src/is/hail/io/BufferSpecs.scala'

TO, FROM = '_convert_to_encoding', '_convert_from_encoding'

# struct module, standard sizes (modes '=', '<', '>', '!'): code -> (size, kind)
STRUCT_STD = {'b': (1, 'sint'), 'B': (1, 'uint'), '?': (1, 'bool'), 'h': (2, 'sint'), 'H': (2, 'uint'), 'i': (4, 'sint'), 'I': (4, 'uint'),
              'l': (4, 'sint'), 'L': (4, 'uint'), 'q': (8, 'sint'), 'Q': (8, 'uint'), 'e': (2, 'float'), 'f': (4, 'float'), 'd': (8, 'float')}
PRIM_SPEC = {'int32': (4, 'sint'), 'int64': (8, 'sint'), 'float32': (4, 'float'), 'float64': (8, 'float'), 'byte': (1, 'uint')}


# --------------------------------------------------------------------------------------
# R1 byte_reader primitives
# --------------------------------------------------------------------------------------


def _struct_fmt(call: ast.Call) -> Optional[str]:
    if pf.dotted(call.func) in ('struct.pack', 'struct.unpack', 'struct.unpack_from') and call.args:
        return pf.const_str(call.args[0])
    return None


def _fmt_info(ctx: Ctx, fmt: str, where: str) -> Tuple[str, int, str]:
    ctx.need(len(fmt) == 2, f'{where}: struct format {fmt!r} is not <order><code>')
    order, code = fmt[0], fmt[1]
    ctx.need(order in '=<>!@' and code in STRUCT_STD, f'{where}: struct format {fmt!r} not in the standard table')
    size, kind = STRUCT_STD[code]
    return order, size, kind


def _stream_module() -> pf.Module:
    """byte_reader.py in normal form: private helpers of the stream classes (`_read_fixed(fmt, n)`, `_append(bs)`) inlined into the operations that
    call them, load-chain locals substituted, guards as if/else"""
    return N.normalise_module(pf.load(BR), lambda c, f: 'cheap', exclude=lambda n: not n.startswith('_'))   # public operations are judged on their own


def _appended(fn: pf.FuncDef, st: ast.stmt) -> Optional[ast.expr]:
    """E when `st` appends E to a buffer attribute of self: `self._b += E` / `self._b.extend(E)`"""
    me = W.param_names(fn)[0]
    if isinstance(st, ast.AugAssign) and isinstance(st.op, ast.Add) and isinstance(st.target, ast.Attribute) and isinstance(st.target.value, ast.Name) and st.target.value.id == me:
        return st.value
    if isinstance(st, ast.Expr) and isinstance(st.value, ast.Call) and isinstance(st.value.func, ast.Attribute) and st.value.func.attr == 'extend' and len(st.value.args) == 1 \
            and not st.value.keywords and isinstance(st.value.func.value, ast.Attribute) and isinstance(st.value.func.value.value, ast.Name) and st.value.func.value.value.id == me:
        return st.value.args[0]
    return None


def _r1(ctx: Ctx):
    m = _stream_module()
    rd = W.methods(m.cls('ByteReader'))
    wr = W.methods(m.cls('ByteWriter'))
    # offset attribute and buffer attribute of the reader
    for nm, (size, kind) in PRIM_SPEC.items():
        wname, rname = f'write_{nm}', f'read_{nm}'
        ctx.need(wname in wr, f'anchor vanished: ByteWriter.{wname}')
        wfn = wr[wname]
        wcalls = [c for c in pf.calls_in(wfn) if _struct_fmt(c) is not None]
        ctx.need(len(wcalls) == 1 and pf.dotted(wcalls[0].func) == 'struct.pack', f'{BR}::ByteWriter.{wname}: expected one struct.pack')
        wfmt = _struct_fmt(wcalls[0])
        order, wsize, wkind = _fmt_info(ctx, wfmt, f'{BR}::ByteWriter.{wname}')
        v = W.param_names(wfn)[1]
        ctx.need(len(wcalls[0].args) == 2 and pf.nsrc(wcalls[0].args[1]) == v, f'{BR}::ByteWriter.{wname}: packs `{pf.nsrc(wcalls[0])}`, not its argument')
        cons = f'{BR}::ByteWriter.{wname}'
        msg = []
        if order not in '=<':
            msg.append(f'byte order/size mode {order!r} is not native-standard "=" or little-endian "<"' + (' ("@" uses native sizes and alignment)' if order == '@' else ' (the engine reads little-endian)'))
        if (wsize, wkind) != (size, kind):
            msg.append(f'format {wfmt!r} is a {wsize}-byte {wkind}, the engine expects a {size}-byte {kind} for {nm}')
        ctx.check(not msg, 'R1', cons, '; '.join(msg), m.path, wfn.lineno, detail={'fmt': wfmt})
        if nm == 'byte':
            continue
        ctx.need(rname in rd, f'anchor vanished: ByteReader.{rname}')
        rfn = rd[rname]
        rcalls = [c for c in pf.calls_in(rfn) if _struct_fmt(c) is not None]
        ctx.need(len(rcalls) == 1 and pf.dotted(rcalls[0].func) == 'struct.unpack', f'{BR}::ByteReader.{rname}: expected one struct.unpack')
        rfmt = _struct_fmt(rcalls[0])
        rorder, rsize, rkind = _fmt_info(ctx, rfmt, f'{BR}::ByteReader.{rname}')
        # slice self._memview[self._offset : self._offset + N]
        ctx.need(len(rcalls[0].args) == 2 and isinstance(rcalls[0].args[1], ast.Subscript) and isinstance(rcalls[0].args[1].slice, ast.Slice),
                 f'{BR}::ByteReader.{rname}: unpack source is not a slice')
        sl = rcalls[0].args[1].slice
        ctx.need(sl.lower is not None and sl.upper is not None and isinstance(sl.upper, ast.BinOp) and isinstance(sl.upper.op, ast.Add)
                 and pf.nsrc(sl.upper.left) == pf.nsrc(sl.lower) and W.const_int(sl.upper.right) is not None, f'{BR}::ByteReader.{rname}: slice is not [off : off + N]')
        off = pf.nsrc(sl.lower)
        width = W.const_int(sl.upper.right)
        incs = [s for s in ast.walk(rfn) if isinstance(s, ast.AugAssign) and pf.nsrc(s.target) == off]
        ctx.need(len(incs) == 1 and isinstance(incs[0].op, ast.Add) and W.const_int(incs[0].value) is not None, f'{BR}::ByteReader.{rname}: offset is not advanced by one `+= N`')
        adv = W.const_int(incs[0].value)
        # result is element 0 of the unpacked tuple and is what is returned
        rets = [s for s in ast.walk(rfn) if isinstance(s, ast.Return)]
        ctx.need(len(rets) == 1, f'{BR}::ByteReader.{rname}: expected one return')
        rv = pf.resolve_expr(rfn, rets[0].value)
        ctx.need(isinstance(rv, ast.Subscript) and rv.value is rcalls[0] and W.const_int(rv.slice) == 0, f'{BR}::ByteReader.{rname}: does not return unpack(...)[0]')
        msg = []
        if rfmt[1] != wfmt[1] or rorder != order:
            msg.append(f'reader format {rfmt!r} != writer format {wfmt!r}')
        if rorder not in '=<':
            msg.append(f'byte order/size mode {rorder!r} is not "=" or "<"')
        if (rsize, rkind) != (size, kind):
            msg.append(f'format {rfmt!r} is a {rsize}-byte {rkind}, expected a {size}-byte {kind}')
        if width != rsize:
            msg.append(f'slice is {width} bytes wide but calcsize({rfmt!r}) = {rsize} (struct.error / wrong value)')
        if adv != rsize:
            msg.append(f'offset advances by {adv} but the value occupies {rsize} bytes: every later field is read from the wrong position')
        ctx.check(not msg, 'R1', f'{BR}::ByteReader.{rname}', '; '.join(msg), m.path, rfn.lineno, detail={'fmt': rfmt, 'width': width, 'advance': adv})
    # bool: one byte, non-zero = True
    ctx.need('write_bool' in wr and 'read_bool' in rd, 'anchor vanished: read_bool/write_bool')
    wfn = wr['write_bool']
    wb = W.body_wo_doc(wfn)
    v = W.param_names(wfn)[1]
    t_ = f_ = None
    shown = ''
    if len(wb) == 1 and _appended(wfn, wb[0]) is not None and isinstance(_appended(wfn, wb[0]), ast.IfExp):
        ie = _appended(wfn, wb[0])
        test, t_, f_ = ie.test, ie.body, ie.orelse
        shown = pf.nsrc(ie)
    elif len(wb) == 1 and isinstance(wb[0], ast.If) and len(wb[0].body) == 1 and len(wb[0].orelse) == 1 and _appended(wfn, wb[0].body[0]) is not None \
            and _appended(wfn, wb[0].orelse[0]) is not None and pf.nsrc(getattr(wb[0].body[0], 'target', None) or wb[0].body[0].value.func.value) \
            == pf.nsrc(getattr(wb[0].orelse[0], 'target', None) or wb[0].orelse[0].value.func.value):
        test, t_, f_ = wb[0].test, _appended(wfn, wb[0].body[0]), _appended(wfn, wb[0].orelse[0])
        shown = f'{pf.nsrc(t_)} if {pf.nsrc(test)} else {pf.nsrc(f_)}'
    else:
        raise AnalysisError(f'{BR}::ByteWriter.write_bool: unrecognised body')
    neg = False
    while isinstance(test, ast.UnaryOp) and isinstance(test.op, ast.Not):
        test, neg = test.operand, not neg
    if isinstance(test, ast.Call) and pf.dotted(test.func) == 'bool' and len(test.args) == 1 and not test.keywords:
        test = test.args[0]
    ctx.need(isinstance(test, ast.Name) and test.id == v, f'{BR}::ByteWriter.write_bool: the byte is selected by `{pf.nsrc(test)}`, not by the truth of the argument')
    if neg:
        t_, f_ = f_, t_
    ctx.need(all(isinstance(c_, ast.Constant) and isinstance(c_.value, bytes) for c_ in (t_, f_)), f'{BR}::ByteWriter.write_bool: appends `{shown}`, not literal bytes')
    okw = len(t_.value) == 1 and len(f_.value) == 1 and t_.value != b'\x00' and f_.value == b'\x00'
    ctx.check(okw, 'R1', f'{BR}::ByteWriter.write_bool', f'write_bool appends `{shown}`: not exactly one byte, zero for False and non-zero for True', m.path, wfn.lineno)
    rb = rd['read_bool']
    cmpn = [n for n in ast.walk(rb) if isinstance(n, ast.Compare)]
    incs = [s for s in ast.walk(rb) if isinstance(s, ast.AugAssign)]
    ctx.need(len(cmpn) == 1 and len(incs) == 1 and isinstance(cmpn[0].left, ast.Subscript) and len(cmpn[0].ops) == 1 and isinstance(incs[0].op, ast.Add)
             and W.const_int(cmpn[0].comparators[0]) is not None and W.const_int(incs[0].value) is not None and isinstance(cmpn[0].ops[0], (ast.NotEq, ast.Eq, ast.Gt))
             and pf.nsrc(cmpn[0].left.slice) == pf.nsrc(incs[0].target), f'{BR}::ByteReader.read_bool: unrecognised body')
    c = cmpn[0]
    # byte != 0 / byte > 0 (a byte is unsigned): True exactly for the non-zero bytes; anything else with literal operands is a different decoding
    okr = isinstance(c.ops[0], (ast.NotEq, ast.Gt)) and W.const_int(c.comparators[0]) == 0 and W.const_int(incs[0].value) == 1
    ctx.check(okr, 'R1', f'{BR}::ByteReader.read_bool', f'read_bool evaluates `{pf.nsrc(c)}` and advances by `{pf.nsrc(incs[0].value)}`: expected byte != 0 and an advance of 1', m.path, rb.lineno)
    # byte strings
    ctx.need('read_bytes_view' in rd and 'read_bytes' in rd and 'write_bytes' in wr, 'anchor vanished: read_bytes[_view]/write_bytes')
    rv = rd['read_bytes_view']
    n = W.param_names(rv)[1]
    sls = [x for x in ast.walk(rv) if isinstance(x, ast.Slice)]
    incs = [s for s in ast.walk(rv) if isinstance(s, ast.AugAssign)]
    ctx.need(len(sls) == 1 and len(incs) == 1 and sls[0].lower is not None and sls[0].upper is not None and sls[0].step is None and isinstance(incs[0].op, ast.Add),
             f'{BR}::ByteReader.read_bytes_view: unrecognised body')
    off = pf.nsrc(sls[0].lower)
    up = sls[0].upper
    ctx.need(isinstance(up, ast.BinOp) and isinstance(up.op, ast.Add) and off in (pf.nsrc(up.left), pf.nsrc(up.right)) and pf.nsrc(incs[0].target) == off,
             f'{BR}::ByteReader.read_bytes_view: the view is not [off : off + <count>] with `off += <count>`')
    width = up.right if pf.nsrc(up.left) == off else up.left
    # both the width of the view and the advance are expressions over the count parameter and literals: compared as such
    ctx.need(all(isinstance(x, (ast.Name, ast.Constant, ast.BinOp, ast.operator)) for e_ in (width, incs[0].value) for x in ast.walk(e_) if not isinstance(x, ast.expr_context))
             and all(x.id == n for e_ in (width, incs[0].value) for x in ast.walk(e_) if isinstance(x, ast.Name)), f'{BR}::ByteReader.read_bytes_view: width / advance are not expressions over `{n}`')
    ok = pf.nsrc(width) == n and pf.nsrc(incs[0].value) == n
    ctx.check(ok, 'R1', f'{BR}::ByteReader.read_bytes_view', f'view is [{pf.nsrc(sls[0].lower)} : {pf.nsrc(sls[0].upper)}] and the offset advances by `{pf.nsrc(incs[0].value)}`; expected [off : off + {n}] and += {n}',
              m.path, rv.lineno)
    rbb = W.body_wo_doc(rd['read_bytes'])
    nb = W.param_names(rd['read_bytes'])[1]
    view = f'self.read_bytes_view({nb})'
    ctx.need(len(rbb) == 1 and isinstance(rbb[0], ast.Return) and rbb[0].value is not None and pf.nsrc(rbb[0].value) in (f'{view}.tobytes()', f'bytes({view})'),
             f'{BR}::ByteReader.read_bytes: not recognised as the bytes of read_bytes_view({nb})')
    ctx.ok('R1', f'{BR}::ByteReader.read_bytes', {'returns': pf.nsrc(rbb[0].value)})
    wbb = W.body_wo_doc(wr['write_bytes'])
    ctx.need(len(wbb) == 1 and _appended(wr['write_bytes'], wbb[0]) is not None and pf.nsrc(_appended(wr['write_bytes'], wbb[0])) == W.param_names(wr['write_bytes'])[1],
             f'{BR}::ByteWriter.write_bytes: not recognised as appending exactly its argument')
    ctx.ok('R1', f'{BR}::ByteWriter.write_bytes', {'appends': W.param_names(wr['write_bytes'])[1]})
    # the reader starts at offset 0 by default
    init = rd.get('__init__')
    ctx.need(init is not None and init.args.defaults and W.const_int(init.args.defaults[-1]) is not None, 'anchor vanished: ByteReader.__init__ literal offset default')
    ctx.check(W.const_int(init.args.defaults[-1]) == 0, 'R1', f'{BR}::ByteReader.__init__::offset default', 'default start offset is not 0', m.path, init.lineno)


# --------------------------------------------------------------------------------------
# canonical wire programs (R2)
# --------------------------------------------------------------------------------------
#
# canonical items:
#   ('prim', k)  ('lenprefix', tag)  ('bytes', tag)  ('missing', tag)  ('loop', tag, body)  ('present', body)
#   ('cond', label, then, else)  ('rec', target)  ('raise',)
# tags: '@n' (n-th length prefix of the program), 'fields', 'ndim', 'size', 'rawdata'

FIELD_SEQS = {'self', 'self.keys()', 'list(self.keys())', 'self.items()', 'self._field_types.items()', 'self._field_types', 'self.types', 'self._types',
              'self._fields', 'self.fields', 'self._field_types.values()', 'self.values()'}


def _resolve(fn: pf.FuncDef, e: ast.AST, depth: int = 4) -> ast.AST:
    return pf.resolve_expr(fn, e, depth)


_TT_CACHE: Dict[int, W.TypeTables] = {}


def _type_tables(m: pf.Module) -> W.TypeTables:
    if id(m) not in _TT_CACHE:
        _TT_CACHE[id(m)] = W.TypeTables(m)
    return _TT_CACHE[id(m)]


# ---- numpy memory-order table (n-d array bulk paths) -------------------------------------------------
#
# writer: which element order do the bytes handed to write_bytes have, relative to the logical array `value`?
#   'C' row-major, 'F' column-major, 'mem' whatever the input's memory layout happens to be, None = idiom not in the table.

_NP = ('np', 'numpy')


def _kw(call: ast.Call, name: str, pos: Optional[int] = None) -> Optional[ast.AST]:
    for k in call.keywords:
        if k.arg == name:
            return k.value
    if pos is not None and len(call.args) > pos:
        return call.args[pos]
    return None


def _order_lit(e: Optional[ast.AST], default: str) -> Optional[str]:
    if e is None:
        return default
    if isinstance(e, ast.Constant) and isinstance(e.value, str) and e.value.upper() in ('C', 'F', 'A', 'K'):
        return e.value.upper()
    return None


def _np_func(call: ast.Call) -> Optional[str]:
    d = pf.dotted(call.func)
    if d and '.' in d and d.split('.')[0] in _NP and d.count('.') == 1:
        return d.split('.')[1]
    return None


class _Arr:
    """logical array = value (flip False) or value transposed (flip True); layout = memory layout of that logical array; flat = element order if already 1-d"""

    def __init__(self, flip=False, layout='any', flat=None):
        self.flip, self.layout, self.flat = flip, layout, flat

    def seq(self, order: str) -> Optional[str]:
        """element order (relative to `value`) of serialising this array in numpy order `order`"""
        if self.flat is not None:
            return self.flat
        if order in ('A', 'K'):
            if self.layout == 'any':
                return 'mem'
            order = self.layout
        rel = order
        if self.flip:
            rel = 'F' if order == 'C' else 'C'
        return rel


def _arr_of(fn: pf.FuncDef, e: ast.AST, value: str, depth: int = 8) -> Optional[_Arr]:
    if depth <= 0:
        return None
    if isinstance(e, ast.Name):
        if e.id == value:
            return _Arr()
        d = pf.single_def(fn, e.id)
        return _arr_of(fn, d, value, depth - 1) if isinstance(d, ast.expr) else None
    if isinstance(e, ast.Attribute) and e.attr == 'T':
        a = _arr_of(fn, e.value, value, depth - 1)
        if a is None or a.flat is not None:
            return a
        return _Arr(not a.flip, {'C': 'F', 'F': 'C'}.get(a.layout, 'any'))
    if isinstance(e, ast.Call):
        npf = _np_func(e)
        if npf in ('ascontiguousarray', 'asfortranarray', 'asarray', 'array', 'require', 'asanyarray') and e.args:
            a = _arr_of(fn, e.args[0], value, depth - 1)
            if a is None or a.flat is not None:
                return a
            if npf == 'ascontiguousarray':
                return _Arr(a.flip, 'C')
            if npf == 'asfortranarray':
                return _Arr(a.flip, 'F')
            if npf == 'require':
                return None
            o = _order_lit(_kw(e, 'order'), 'K')
            if o is None:
                return None
            return _Arr(a.flip, o if o in ('C', 'F') else a.layout)
        if npf == 'transpose' and len(e.args) == 1 and not e.keywords:
            return _arr_of(fn, ast.Attribute(value=e.args[0], attr='T', ctx=ast.Load()), value, depth)
        if npf == 'ravel' and e.args:
            a = _arr_of(fn, e.args[0], value, depth - 1)
            o = _order_lit(_kw(e, 'order', 1), 'C')
            return None if a is None or o is None else _Arr(False, 'C', a.seq(o))
        if isinstance(e.func, ast.Attribute):
            a = _arr_of(fn, e.func.value, value, depth - 1)
            if a is None:
                return None
            m_ = e.func.attr
            if m_ in ('astype', 'view'):
                return a
            if m_ == 'copy':
                o = _order_lit(_kw(e, 'order', 0), 'C')
                if o is None:
                    return None
                return a if a.flat is not None else _Arr(a.flip, o if o in ('C', 'F') else a.layout)
            if m_ == 'transpose' and not e.args and not e.keywords:
                return a if a.flat is not None else _Arr(not a.flip, {'C': 'F', 'F': 'C'}.get(a.layout, 'any'))
            if m_ in ('flatten', 'ravel'):
                o = _order_lit(_kw(e, 'order', 0), 'C')
                return None if o is None else _Arr(False, 'C', a.seq(o))
            if m_ == 'reshape' and e.args and W.const_int(e.args[0]) == -1 and len(e.args) == 1:
                o = _order_lit(_kw(e, 'order'), 'C')
                return None if o is None else _Arr(False, 'C', a.seq(o))
    return None


def bulk_write_order(fn: pf.FuncDef, e: ast.AST, value: str) -> Optional[str]:
    """Element order of the bytes object `e` (argument of write_bytes) relative to `value`: 'C' | 'F' | 'mem' | None (not in the table)."""
    e = pf.resolve_expr(fn, e, 4)
    if isinstance(e, ast.Call) and pf.dotted(e.func) in ('bytes', 'memoryview', 'bytearray') and len(e.args) == 1 and not e.keywords:
        return bulk_write_order(fn, e.args[0], value)
    if isinstance(e, ast.Attribute) and e.attr == 'data':
        a = _arr_of(fn, e.value, value)
        if a is None:
            return None
        if a.flat is not None:
            return a.flat
        if a.layout == 'any':
            return 'mem' if not a.flip else None
        if a.layout == 'C':
            return a.seq('C')
        return None  # the buffer of a Fortran-ordered array is not C-contiguous: appending it to a bytearray is outside the table
    if isinstance(e, ast.Call) and isinstance(e.func, ast.Attribute) and e.func.attr in ('tobytes', 'tostring'):
        a = _arr_of(fn, e.func.value, value)
        o = _order_lit(_kw(e, 'order', 0), 'C')
        if a is None or o is None:
            return None
        return a.seq(o)
    return None


def bulk_read_order(fn: pf.FuncDef, e: ast.AST, shape_names: set, depth: int = 8) -> Optional[str]:
    """Order in which the flat buffer is laid out into the returned n-d array: 'C' | 'F' | None (not in the table)."""
    def rec(x: ast.AST, d: int) -> Optional[Tuple[str, bool]]:
        """(kind, reversed_shape): kind 'flat' (1-d buffer view) | 'C' | 'F' (n-d array with that order relative to the wire sequence)"""
        if d <= 0:
            return None
        if isinstance(x, ast.Name):
            dd = pf.single_def(fn, x.id)
            return rec(dd, d - 1) if isinstance(dd, ast.expr) else None
        if isinstance(x, ast.Attribute) and x.attr == 'T':
            r = rec(x.value, d - 1)
            if r is None or r[0] == 'flat':
                return r
            return ({'C': 'F', 'F': 'C'}[r[0]], not r[1])
        if isinstance(x, ast.Call):
            npf = _np_func(x)
            if npf == 'frombuffer':
                return ('flat', False)
            if npf == 'ndarray':
                if _kw(x, 'buffer') is None or _kw(x, 'shape', 0) is None:
                    return None
                o = _order_lit(_kw(x, 'order'), 'C')
                rev = _is_reversed_shape(_kw(x, 'shape', 0), shape_names)
                if o not in ('C', 'F') or rev is None:
                    return None
                return (o, rev)
            if npf == 'reshape' and len(x.args) >= 2:
                r = rec(x.args[0], d - 1)
                o = _order_lit(_kw(x, 'order', 2), 'C')
                rev = _is_reversed_shape(x.args[1], shape_names)
                if r is None or r[0] != 'flat' or o not in ('C', 'F') or rev is None:
                    return None
                return (o, rev)
            if isinstance(x.func, ast.Attribute):
                m_ = x.func.attr
                if m_ in ('copy', 'astype', 'view') and _kw(x, 'order') is None:
                    return rec(x.func.value, d - 1)
                if m_ == 'transpose' and not x.args and not x.keywords:
                    return rec(ast.Attribute(value=x.func.value, attr='T', ctx=ast.Load()), d)
                if m_ == 'reshape' and x.args:
                    r = rec(x.func.value, d - 1)
                    o = _order_lit(_kw(x, 'order'), 'C')
                    rev = _is_reversed_shape(x.args[0], shape_names) if len(x.args) == 1 else None
                    if r is None or r[0] != 'flat' or o not in ('C', 'F') or rev is None:
                        return None
                    return (o, rev)
        return None

    r = rec(e, depth)
    if r is None or r[0] == 'flat':
        return None
    kind, rev = r
    if rev:
        return None  # the result has the reversed shape: not the array that was sent
    return kind


def _is_reversed_shape(e: Optional[ast.AST], shape_names: set) -> Optional[bool]:
    if e is None:
        return None
    if isinstance(e, ast.Name) and e.id in shape_names:
        return False
    if isinstance(e, ast.Call) and pf.dotted(e.func) in ('tuple', 'list') and len(e.args) == 1:
        return _is_reversed_shape(e.args[0], shape_names)
    if isinstance(e, ast.Subscript) and isinstance(e.value, ast.Name) and e.value.id in shape_names and pf.nsrc(e.slice) == '::-1':
        return True
    if isinstance(e, ast.Call) and pf.dotted(e.func) == 'reversed' and len(e.args) == 1 and isinstance(e.args[0], ast.Name) and e.args[0].id in shape_names:
        return True
    return None


class Canon:
    def __init__(self, ctx: Ctx, m: pf.Module, cls: str, fn: pf.FuncDef, side: str):
        self.ctx, self.m, self.cls, self.fn, self.side = ctx, m, cls, fn, side
        self.ex = W.Extractor(m, cls, fn, side)
        self.fn = self.ex.fn  # helpers that receive the stream are inlined: analyse what actually runs
        self.where = f'{cls}.{fn.name}'
        self.fixed_arity = '__len__' in W.methods(m.cls(cls))
        # the type object is a Mapping of its field types <=> its values are Mappings (struct): iterating such a value, or a view of it, follows the
        # value's own order; a value of a Sequence-like fixed-arity type (tuple) is positional
        self.value_is_mapping = any((pf.dotted(b) or '').split('.')[-1] in ('Mapping', 'MutableMapping') for b in m.cls(cls).bases)
        self.prog = self.ex.program()
        self.tt = _type_tables(m)
        self.value = self.ex.value
        self.binds: Dict[str, str] = {}      # reader: name bound to a length prefix -> raw tag
        self.shape_names: set = set()        # reader: names bound to the per-dimension int64 loop
        self.facts: Dict[str, Any] = {}      # things the other rules look at (missing idiom parameters, nditer order, codec, ...)
        self.n_len = 0

    def fail(self, node: Optional[ast.AST], msg: str):
        raise AnalysisError(f'{F}::{self.where} (line {getattr(node, "lineno", self.fn.lineno)}): {msg}')

    # ---- domains ---------------------------------------------------------
    def seq_tag(self, e: ast.AST) -> str:
        """Tag of the sequence an expression ranges over / measures."""
        e = _resolve(self.fn, e)
        t = pf.nsrc(e)
        if isinstance(e, ast.Call) and pf.dotted(e.func) in ('range', 'enumerate', 'list', 'tuple') and len(e.args) == 1:
            if pf.dotted(e.func) == 'range':
                return self.count_tag(e.args[0])
            return self.seq_tag(e.args[0])
        if t in FIELD_SEQS:
            return 'fields'
        if isinstance(e, (ast.ListComp, ast.GeneratorExp)) and len(e.generators) == 1 and not e.generators[0].ifs:
            return self.seq_tag(e.generators[0].iter)  # one item per element of the generator's domain
        if isinstance(e, ast.Call) and pf.dotted(e.func) == 'zip' and len(e.args) >= 2 and not e.keywords and not any(isinstance(a, ast.Starred) for a in e.args):
            tags = [self.seq_tag(a) for a in e.args]
            if len(set(tags)) == 1:
                return tags[0]   # parallel iteration over sequences with the same domain
            own = [x for x in tags if x.startswith('own-order:')]
            if own:
                return own[0]    # pairs the k-th declared component with the k-th entry of the value's own order
            self.fail(e, f'zip over sequences with different domains {tags}')
        if self.side == 'w':
            v = self.value
            if self.fixed_arity and v:
                if t in (f'{v}.items()', f'{v}.keys()', f'{v}.values()') or (t == v and self.value_is_mapping):
                    return f'own-order:{v}'   # one entry per field, but in the iteration order of the VALUE, which the type does not determine
                if t == v:
                    return 'fields'           # positional value of a fixed-arity type: component k is slot k (well-typed: as many as the type has)
            if t in (v, f'{v}.items()', f'{v}.keys()', f'{v}.values()'):
                return f'len:{v}'
            if t == f'{v}.shape':
                return 'ndim'
            if isinstance(e, ast.Call) and pf.dotted(e.func) in ('np.nditer', 'numpy.nditer') and e.args and pf.nsrc(e.args[0]) == v:
                order = 'C'
                for k in e.keywords:
                    if k.arg == 'order':
                        order = k.value.value if isinstance(k.value, ast.Constant) else '?'
                if len(e.args) > 1:
                    self.fail(e, 'np.nditer with positional flags (unrecognised)')
                self.facts['nditer_order'] = (order, e)
                return 'size'
        self.fail(e, f'cannot classify the iteration domain `{t[:80]}`')
        return ''

    def count_tag(self, e: ast.AST) -> str:
        """Tag of an integer count expression."""
        raw = e
        e = _resolve(self.fn, e)
        t = pf.nsrc(e)
        if isinstance(raw, ast.Name) and raw.id in self.binds:
            return self.binds[raw.id]
        if isinstance(e, ast.Call) and pf.dotted(e.func) == 'len' and len(e.args) == 1:
            a = _resolve(self.fn, e.args[0])
            if self.side == 'w' and isinstance(a, ast.Call) and isinstance(a.func, ast.Attribute) and a.func.attr == 'encode':
                return 'len:' + pf.nsrc(e.args[0])
            if self.side == 'w' and isinstance(e.args[0], ast.Name) and e.args[0].id != self.value and not pf.nsrc(a) in FIELD_SEQS and not isinstance(a, ast.Call):
                return 'len:' + e.args[0].id
            return self.seq_tag(e.args[0])
        if t == 'self.ndim':
            return 'ndim'
        if self.side == 'r' and isinstance(e, ast.Call) and pf.dotted(e.func) in ('np.prod', 'numpy.prod') and e.args and isinstance(e.args[0], ast.Name) \
                and e.args[0].id in self.shape_names:
            return 'size'
        if self.side == 'w' and t == f'{self.value}.size':
            return 'size'
        self.fail(raw, f'cannot classify the count `{pf.nsrc(raw)[:60]}` (= `{t[:60]}`)')
        return ''

    # ---- items ------------------------------------------------------------
    def canon(self) -> List[tuple]:
        out = self.items(self.prog)
        # number the length prefixes
        order: List[str] = []

        def collect(xs):
            for it in xs:
                if it[0] == 'lenprefix' and it[1] not in order:
                    order.append(it[1])
                elif it[0] == 'loop':
                    collect(it[2])
                elif it[0] == 'present':
                    collect(it[1])
                elif it[0] == 'cond':
                    collect(it[2])
                    collect(it[3])
        collect(out)
        ren = {t: f'@{i}' for i, t in enumerate(order)}

        def rn(xs):
            res = []
            for it in xs:
                if it[0] in ('lenprefix', 'bytes', 'missing'):
                    res.append((it[0], ren.get(it[1], it[1])))
                elif it[0] == 'packed':
                    res.append(('packed', ren.get(it[1], it[1])) + tuple(it[2:]))
                elif it[0] == 'loop':
                    res.append(('loop', ren.get(it[1], it[1]), rn(it[2])))
                elif it[0] == 'present':
                    res.append(('present', rn(it[1])))
                elif it[0] == 'cond':
                    res.append(('cond', it[1], rn(it[2]), rn(it[3])))
                else:
                    res.append(it)
            return res
        # a tag that stays `len:<expr>` is a length that governs stream data without being the value of any length prefix:
        # it is kept verbatim, so the two directions (and the layout signature) visibly differ
        return rn(out)

    def items(self, prog: Sequence[tuple]) -> List[tuple]:
        out: List[tuple] = []
        # reader: which bound names are later used as counts
        for idx, it in enumerate(prog):
            k = it[0]
            if k == 'raise':
                out.append(('raise',))
            elif k == 'prim':
                kind, info = it[1], it[2]
                if self.side == 'w':
                    tag = None
                    if kind == 'i32':
                        a = _resolve(self.fn, info['arg'])
                        if isinstance(a, ast.Call) and pf.dotted(a.func) == 'len':
                            tag = self.count_tag(info['arg'])
                    out.append(('lenprefix', tag) if tag is not None and tag.startswith('len:') else ('prim', kind))
                else:
                    b = info['bind']
                    if kind == 'i32' and b is not None and self._used_as_count(b, info['node']):
                        tag = f'len:{b}'
                        self.binds[b] = tag
                        out.append(('lenprefix', tag))
                    else:
                        out.append(('prim', kind))
            elif k == 'bytes':
                out.append(self.bytes_item(it[1]))
            elif k == 'packed':
                info = it[1]
                out.append(('packed', self.count_tag(info['count']), self.code_of(info['code']), info['order'], info['op']))
                self.facts.setdefault('packed', []).append(info)
            elif k == 'missing_w':
                info = it[1]
                msg, sources = W.check_missing_region(info, own_order_is_defect=self.fixed_arity)
                self.facts.setdefault('missing_w', []).append((info, msg, sources))
                sources = set(sources)
                if 'mapping' in sources:   # a view of a Mapping value (value.values(), ...) has one entry per key of the value
                    sources = (sources - {'mapping'}) | {'value'}
                if self.fixed_arity:
                    # the type object is itself a fixed collection of component types (it has __len__): a well-typed value has exactly
                    # that many components, so a header that ranges over the value ranges over the fields
                    sources = {('fields' if x == 'value' else x) for x in sources}
                if sources == {'value'} or (msg is not None and 'value' in sources):
                    tag = f'len:{self.value}'
                elif sources == {'fields'} or msg is not None:
                    tag = 'fields'
                else:
                    self.fail(info['node'], f'cannot tell which sequence the missing bytes describe (sizes consulted: {sorted(sources)})')
                out.append(('missing', tag))
            elif k == 'rec':
                out.append(('rec', self.rec_target(it[1], it[2])))
                self.facts.setdefault('recs', []).append(it)
            elif k == 'loop':
                info = it[1]
                if info['kind'] == 'while':
                    if W.const_int(info['step']) != 1 or W.const_int(info['init']) != 0:
                        self.fail(info['node'], 'counted reader loop does not run i = 0, 1, 2, …')
                    tag = self.count_tag(info['count'])
                else:
                    tag = self.seq_tag(info['iter'])
                body = self.items(it[2])
                if self.side == 'r' and info.get('bind') and tag == 'ndim' and body == [('prim', 'i64')]:
                    self.shape_names.add(info['bind'])
                self.facts.setdefault('loops', []).append((tag, info))
                out.append(('loop', tag, body))
            elif k == 'cond':
                out += self.cond_item(it)
        return out

    def _used_as_count(self, name: str, after: ast.AST) -> bool:
        """Is `name` (bound to an int32 read) used in a loop bound, a byte count or a ceil(name / k)?"""
        for n in ast.walk(self.fn):
            if isinstance(n, ast.While) and isinstance(n.test, ast.Compare) and any(isinstance(x, ast.Name) and x.id == name for x in ast.walk(n.test)):
                return True
            if isinstance(n, ast.Call) and pf.dotted(n.func) in ('range', 'math.ceil') and any(isinstance(x, ast.Name) and x.id == name for x in ast.walk(n)):
                return True
            if isinstance(n, ast.Call) and isinstance(n.func, ast.Attribute) and n.func.attr in ('read_bytes', 'read_bytes_view') \
                    and any(isinstance(x, ast.Name) and x.id == name for a in n.args for x in ast.walk(a)):
                return True
        return False

    def bytes_item(self, info: dict) -> tuple:
        arg = info['arg']
        r = _resolve(self.fn, arg)
        if self.side == 'w':
            if isinstance(r, ast.Call) and isinstance(r.func, ast.Attribute) and r.func.attr == 'encode':
                self.facts['codec_w'] = (r, arg)
                return ('bytes', 'len:' + pf.nsrc(arg))
            order = bulk_write_order(self.fn, arg, self.value) if self.value else None
            if order is not None:
                self.facts['bulk_w'] = (order, info['node'], arg)
                return ('bytes', 'rawdata')
            self.fail(info['node'], f'cannot classify the bytes written `{pf.nsrc(arg)}` (not an encoded string and not a numpy serialisation in the order table)')
        else:
            if isinstance(arg, ast.Name) and arg.id in self.binds:
                self.facts['bytes_r'] = info
                return ('bytes', self.binds[arg.id])
            if isinstance(r, ast.Call) and pf.dotted(r.func) == 'math.ceil' and len(r.args) == 1 and isinstance(r.args[0], ast.BinOp) and isinstance(r.args[0].op, ast.Div):
                d = W.const_int(r.args[0].right)
                self.facts.setdefault('missing_r', []).append(dict(n=r.args[0].left, div=d, rounding='ceil', node=info['node'], bind=info['bind'], view=info['view']))
                return ('missing', self.count_tag(r.args[0].left))
            if isinstance(r, ast.BinOp) and isinstance(r.op, ast.FloorDiv) and W.const_int(r.right) is not None:
                d = W.const_int(r.right)
                num = r.left
                rounding = 'floor'
                # (n + d - 1) // d  is the integer form of ceil(n / d)
                if isinstance(num, ast.BinOp) and isinstance(num.op, ast.Add) and W.const_int(num.right) is not None:
                    rounding = 'ceil' if W.const_int(num.right) == d - 1 else f'floor(n + {W.const_int(num.right)})'
                    num = num.left
                self.facts.setdefault('missing_r', []).append(dict(n=num, div=d, rounding=rounding, node=info['node'], bind=info['bind'], view=info['view']))
                return ('missing', self.count_tag(num))
            if info['bind'] and self._taints_a_branch(info['bind']):
                # bytes whose content decides later branches: the missing bytes, with a count expression outside the recognised forms.
                # Which sequence they describe (and whether the count is right) is decided by the symbolic evaluation of the decoder.
                msg, sources, _ = self.reader_semantics()
                tag = None
                if 'value' in sources and len(set(self.binds.values())) == 1:
                    tag = next(iter(self.binds.values()))
                elif sources == {'fields'}:
                    tag = 'fields'
                if tag is not None:
                    self.facts.setdefault('missing_r', []).append(dict(n=None, div=None, rounding='semantic', node=info['node'], bind=info['bind'], view=info['view']))
                    return ('missing', tag)
            if isinstance(r, ast.BinOp) and isinstance(r.op, ast.Mult):
                tags = []
                for side_ in (r.left, r.right):
                    try:
                        tags.append(self.count_tag(side_))
                    except AnalysisError:
                        tags.append(None)
                if 'size' in tags:
                    self.facts['bulk_r'] = info
                    return ('bytes', 'rawdata')
            self.fail(info['node'], f'cannot classify the byte count `{pf.nsrc(arg)}`')
        return ('raise',)

    def code_of(self, e: ast.AST) -> tuple:
        """struct code handed to a bulk read: ('const', c) | ('classattr', <receiver text>, <attribute>) (a class-level constant of the element type)"""
        r = _resolve(self.fn, e)
        c = pf.const_str(r)
        if c is not None:
            return ('const', c)
        if isinstance(r, ast.Attribute) and pf.dotted(r.value) is not None and pf.dotted(r.value).split('.')[0] == self.ex.selfname:
            return ('classattr', pf.nsrc(r.value), r.attr)
        self.fail(e, f'cannot resolve the struct code `{pf.nsrc(e)[:60]}` of a bulk read')
        return ('const', '')

    def fast_path(self, test: ast.AST, then: Sequence[tuple], orelse: Sequence[tuple]) -> Optional[List[tuple]]:
        """`if <element type has a struct code> and <no missing bit is set>: <bulk read>` in front of the general decode loop.  The bulk
        branch is compared, per admitted element class C, with the general branch specialised to C and to "everything present": equal
        for every C -> the condition does not select a layout (the general branch is the wire program); different -> recorded as a
        violation of reader/writer agreement (the writer has no such branch)."""
        if self.side != 'r':
            return None
        has_packed = any(x[0] == 'packed' for x in W.flatten_prims(then))
        atoms = list(test.values) if isinstance(test, ast.BoolOp) and isinstance(test.op, ast.And) else [test]
        mb_taint = self.tainted_by({i_['bind'] for i_ in self.facts.get('missing_r', []) if i_.get('bind')}) if self.facts.get('missing_r') else set()
        recv: Optional[str] = None
        admitted: Optional[frozenset] = None
        all_present = False
        unknown: List[str] = []
        for a in atoms:
            x = a
            notnone = None
            if isinstance(x, ast.Compare) and len(x.ops) == 1 and isinstance(x.ops[0], (ast.IsNot, ast.NotEq)) and isinstance(x.comparators[0], ast.Constant) and x.comparators[0].value is None:
                notnone = x.left
            elif isinstance(x, ast.Name):
                notnone = x
            if notnone is not None:
                r = _resolve(self.fn, notnone)
                if isinstance(r, ast.Attribute) and pf.dotted(r.value) is not None and pf.dotted(r.value).split('.')[0] == self.ex.selfname and pf.dotted(r.value) != self.ex.selfname:
                    tab = _class_attr_table(self.m, r.attr)
                    adm = frozenset(c_ for c_, v in tab.items() if v is not None and not (isinstance(x, ast.Name) and not v))
                    if recv is not None and recv != pf.nsrc(r.value):
                        self.fail(test, 'bulk-path guard consults two different type components')
                    recv = pf.nsrc(r.value)
                    admitted = adm if admitted is None else admitted & adm
                    continue
            if isinstance(x, ast.UnaryOp) and isinstance(x.op, ast.Not) and isinstance(x.operand, ast.Call) and pf.dotted(x.operand.func) == 'any' and len(x.operand.args) == 1 \
                    and isinstance(x.operand.args[0], ast.Name) and x.operand.args[0].id in mb_taint and not x.operand.keywords:
                all_present = True   # no byte of the missing bytes is non-zero: every slot is present
                continue
            g = self.tt.guard(x)
            if g is not None and g.subject_text.split('.')[0] == self.ex.selfname:
                if recv is not None and recv != g.subject_text:
                    self.fail(test, 'bulk-path guard consults two different type components')
                recv = g.subject_text
                admitted = g.admitted if admitted is None else admitted & g.admitted
                continue
            unknown.append(pf.nsrc(x))
        if not has_packed and not all_present:
            return None   # neither a bulk read nor an "everything present" shortcut: not this idiom
        t_items, e_items = self.items(then), self.items(orelse)
        if has_packed and (recv is None or admitted is None):
            self.fail(test, f'bulk read under `{pf.nsrc(test)[:80]}`: the guard does not restrict the element type to classes with a known struct code')
        problems: List[str] = []
        if recv is None or admitted is None:
            # "no missing bit is set" shortcut without a restriction on the component types: compared with the general path once, delegated decodes left as they are
            tc, ec = _specialise(self, t_items, None, None, False), _specialise(self, e_items, None, None, True)
            if tc != ec:
                problems.append(f'the shortcut reads {show_canon(tc)} where the general decode loop with every slot present - and the writer - have {show_canon(ec)}')
            admitted = frozenset()
        for cn in sorted(admitted):
            try:
                tc = _specialise(self, t_items, recv, cn, False)
                ec = _specialise(self, e_items, recv, cn, all_present)
            except AnalysisError as ex:
                self.fail(test, f'bulk read under `{pf.nsrc(test)[:60]}`, element class {cn}: {ex}')
            if isinstance(tc, str):
                problems.append(f'element class {cn}: {tc}')
            elif tc != ec:
                why = '' if all_present else ' (the guard does not establish that no missing bit is set, so the general path still skips missing slots)'
                problems.append(f'element class {cn}: the bulk branch reads {show_canon(tc)} where the general decode loop - and the writer - have {show_canon(ec)}{why}')
        if problems and unknown:
            self.fail(test, f'bulk read under `{pf.nsrc(test)[:80]}` differs from the general path, but the guard has conjunct(s) that are not understood: {unknown}')
        self.facts.setdefault('fast_paths', []).append(dict(test=test, classes=sorted(admitted), problems=problems, all_present=all_present))
        return e_items

    def tainted_by(self, names: set) -> set:
        """names whose value is computed from `names` (transitively, flow-insensitive)"""
        taint = set(names)
        changed = True
        while changed:
            changed = False
            for n in ast.walk(self.fn):
                tgts: List[ast.AST] = []
                val: Optional[ast.AST] = None
                if isinstance(n, ast.Assign):
                    tgts, val = list(n.targets), n.value
                elif isinstance(n, (ast.AnnAssign, ast.AugAssign)) and n.value is not None:
                    tgts, val = [n.target], n.value
                elif isinstance(n, (ast.For, ast.comprehension)):
                    tgts, val = [n.target], n.iter
                if val is None or not any(isinstance(x, ast.Name) and x.id in taint for x in ast.walk(val)):
                    continue
                for t in tgts:
                    for x in ast.walk(t):
                        if isinstance(x, ast.Name) and x.id not in taint:
                            taint.add(x.id)
                            changed = True
        return taint

    def _taints_a_branch(self, name: str) -> bool:
        taint = self.tainted_by({name})
        return any(isinstance(n, (ast.If, ast.IfExp)) and any(isinstance(x, ast.Name) and x.id in taint for x in ast.walk(n.test)) for n in ast.walk(self.fn))

    def reader_semantics(self) -> Tuple[Optional[str], set, int]:
        if 'reader_semantics' not in self.facts:
            self.facts['reader_semantics'] = W.check_missing_reader(self.m, self.cls, self.fn)
        return self.facts['reader_semantics']

    def rec_target(self, target: ast.AST, info: dict) -> str:
        t = pf.nsrc(target)
        if isinstance(target, ast.Name):
            # loop variable bound to the type component of a field iteration
            role = self._loopvar_role(target.id)
            if role is None:
                self.fail(target, f'converter receiver `{t}` is not a recognised loop variable')
            return role
        return t

    def _loopvar_role(self, name: str) -> Optional[str]:
        for n in ast.walk(self.fn):
            tgt = it = None
            if isinstance(n, ast.For):
                tgt, it = n.target, n.iter
            elif isinstance(n, ast.comprehension):
                tgt, it = n.target, n.iter
            if tgt is None:
                continue
            inner = tgt
            if isinstance(it, ast.Call) and pf.dotted(it.func) == 'enumerate' and isinstance(tgt, ast.Tuple) and len(tgt.elts) == 2 and it.args:
                inner = tgt.elts[1]
                it = it.args[0]
            # a sequence held in a local (a helper's parameter after inlining) or copied with list(...) / tuple(...) is the sequence it was built from
            it = _resolve(self.fn, it)
            while isinstance(it, ast.Call) and pf.dotted(it.func) in ('list', 'tuple') and len(it.args) == 1 and not it.keywords:
                it = _resolve(self.fn, it.args[0])
            its = pf.nsrc(it)
            if isinstance(it, ast.Call) and pf.dotted(it.func) == 'zip' and isinstance(inner, ast.Tuple) and len(inner.elts) == len(it.args):
                # parallel iteration: the role of a target is decided by the sequence it is drawn from
                for sub_t, sub_it in zip(inner.elts, it.args):
                    sub_s = pf.nsrc(_resolve(self.fn, sub_it))
                    if sub_s in ('self.items()', 'self._field_types.items()') and isinstance(sub_t, ast.Tuple) and len(sub_t.elts) == 2 \
                            and isinstance(sub_t.elts[1], ast.Name) and sub_t.elts[1].id == name:
                        return 'fieldtype'
                    if sub_s in ('self.types', 'self._types', 'self._field_types.values()', 'self.values()') and isinstance(sub_t, ast.Name) and sub_t.id == name:
                        return 'fieldtype'
                continue
            if its in ('self.items()', 'self._field_types.items()') and isinstance(inner, ast.Tuple) and len(inner.elts) == 2 \
                    and isinstance(inner.elts[1], ast.Name) and inner.elts[1].id == name:
                return 'fieldtype'
            if its in ('self.types', 'self._types', 'self._field_types.values()', 'self.values()') and isinstance(inner, ast.Name) and inner.id == name:
                return 'fieldtype'
        return None

    def cond_item(self, it: tuple) -> List[tuple]:
        test, then, orelse = it[1], it[2], it[3]
        neg = False
        t = test
        if isinstance(t, ast.UnaryOp) and isinstance(t.op, ast.Not):
            t, neg = t.operand, True
        if isinstance(t, ast.Call) and pf.dotted(t.func) in ('HailType._missing', 'self._missing') and len(t.args) == 1:
            present, absent = (then, orelse) if neg else (orelse, then)
            if absent:
                self.fail(test, 'the missing branch of a presence test touches the byte stream')
            self.facts.setdefault('present_w', []).append((t.args[0], present, test))
            return [('present', self.items(present))]
        if isinstance(t, ast.Call) and pf.dotted(t.func) == 'lookup_bit' and len(t.args) == 2:
            present, absent = (then, orelse) if neg else (orelse, then)
            if absent:
                self.fail(test, 'the missing branch of a lookup_bit test reads the byte stream')
            self.facts.setdefault('lookup_r', []).append((t, test))
            return [('present', self.items(present))]
        if self.side == 'r' and self.facts.get('missing_r'):
            # any other condition computed from the missing bytes (inline shifts, a helper, a list of flags): a presence test; the branch
            # that reads the stream is the "present" one.  Whether it consults the right bit is decided by R3's symbolic evaluation.
            taint = self.tainted_by({i_['bind'] for i_ in self.facts['missing_r'] if i_.get('bind')})
            if any(isinstance(x, ast.Name) and x.id in taint for x in ast.walk(test)) and bool(then) != bool(orelse):
                self.facts.setdefault('presence_r', []).append(test)
                return [('present', self.items(then or orelse))]
        fp = self.fast_path(test, then, orelse)
        if fp is not None:
            return fp
        txt = pf.nsrc(test)
        g = self.tt.guard(test)
        if g is not None and g.subject_text in ('self.element_type', 'self._element_type'):
            # a test on the element type of an n-d array selecting the raw-buffer path: which classes does it admit?
            self.facts['numeric_cond'] = test
            self.facts['numeric_guard'] = g
            label = 'numeric-fast-path' + ('' if not g.admitted else ':' + ','.join(sorted(g.admitted)))
            return [('cond', label, self.items(then), self.items(orelse))]
        if self.side == 'w' and txt in (f'{self.value}.size > 0', f'{self.value}.size != 0', f'{self.value}.size'):
            inner = self.items(then)
            if orelse:
                self.fail(test, 'else branch of the non-empty guard touches the stream')
            # when size == 0 every guarded item is empty (loops over `size`, raw buffer of size 0): the guard is transparent
            def sized(xs) -> bool:
                for x in xs:
                    if x[0] == 'loop' and x[1] == 'size':
                        continue
                    if x[0] == 'bytes' and x[1] == 'rawdata':
                        continue
                    if x[0] == 'cond' and sized(x[2]) and sized(x[3]):
                        continue
                    return False
                return True
            if not sized(inner):
                self.fail(test, 'non-empty guard protects items whose size is not governed by the element count')
            self.facts['nonempty_guard'] = test
            return inner
        # a condition that does not select a layout: both alternatives perform the same stream operations
        a, b = self.items(then), self.items(orelse)
        if a == b:
            self.facts.setdefault('transparent_conds', []).append(test)
            return a
        self.fail(test, f'unrecognised condition `{txt[:80]}` around stream operations')
        return []


def _flat(xs: Sequence[tuple]) -> List[tuple]:
    out = []
    for it in xs:
        out.append(it)
        if it[0] == 'loop':
            out += _flat(it[2])
        elif it[0] == 'present':
            out += _flat(it[1])
        elif it[0] == 'cond':
            out += _flat(it[2]) + _flat(it[3])
    return out


def show_canon(xs: Sequence[tuple]) -> str:
    parts = []
    for it in xs:
        k = it[0]
        if k == 'prim':
            parts.append(it[1].upper())
        elif k == 'lenprefix':
            parts.append(f'I32(len {it[1]})')
        elif k == 'bytes':
            parts.append(f'BYTES[{it[1]}]')
        elif k == 'missing':
            parts.append(f'MISSINGBITS[{it[1]}]')
        elif k == 'loop':
            parts.append(f'LOOP[{it[1]}]{{{show_canon(it[2])}}}')
        elif k == 'present':
            parts.append(f'IFPRESENT{{{show_canon(it[1])}}}')
        elif k == 'cond':
            parts.append(f'IF[{it[1]}]{{{show_canon(it[2])}}}ELSE{{{show_canon(it[3])}}}')
        elif k == 'rec':
            parts.append(f'REC({it[1]})')
        elif k == 'raise':
            parts.append('RAISE')
        elif k == 'packed':
            parts.append(f'PACKED[{it[1]} x {it[2][1] if it[2][0] == "const" else it[2][1] + "." + it[2][2]}]')
    return ' · '.join(parts)


_CATTR_CACHE: Dict[tuple, Dict[str, Any]] = {}
_RCANON_CACHE: Dict[tuple, List[tuple]] = {}
STD_PRIM = {v: k for k, v in PRIM_SPEC.items()}
STD_PRIM[(1, 'bool')] = 'bool'
PRIM_KIND = {'int32': 'i32', 'int64': 'i64', 'float32': 'f32', 'float64': 'f64', 'byte': 'byte', 'bool': 'bool'}


def _class_attr_table(m: pf.Module, attr: str) -> Dict[str, Any]:
    """class name -> value of the class-level constant `attr` as an instance of that class sees it (MRO lookup inside the module); classes whose
    value cannot be established are absent.  Declines when the attribute is ever stored on an instance or a class from inside a function."""
    key = (id(m), attr)
    if key in _CATTR_CACHE:
        return _CATTR_CACHE[key]
    for n in ast.walk(m.tree):
        if isinstance(n, ast.Attribute) and n.attr == attr and isinstance(n.ctx, (ast.Store, ast.Del)):
            raise AnalysisError(f'{m.rel}: `.{attr}` is assigned outside a class body (line {n.lineno}): its per-class value is not a constant table')
        if isinstance(n, ast.Call) and pf.dotted(n.func) == 'setattr':
            raise AnalysisError(f'{m.rel}: setattr(...) (line {n.lineno}): the per-class value of `.{attr}` is not a constant table')
    top = {c.name: c for c in m.tree.body if isinstance(c, ast.ClassDef)}
    classes = W.hail_type_classes(m)

    def own(c: ast.ClassDef) -> Tuple[bool, Any]:
        vals = []
        for st in c.body:
            if isinstance(st, ast.Assign) and any(isinstance(t, ast.Name) and t.id == attr for t in st.targets):
                vals.append(st.value)
            elif isinstance(st, ast.AnnAssign) and isinstance(st.target, ast.Name) and st.target.id == attr and st.value is not None:
                vals.append(st.value)
            elif isinstance(st, (ast.FunctionDef, ast.AsyncFunctionDef)) and st.name == attr:
                raise AnalysisError(f'{m.rel}::{c.name}.{attr} is a method / property, not a class-level constant')
        if not vals:
            return False, None
        v = vals[-1]
        if not isinstance(v, ast.Constant):
            raise AnalysisError(f'{m.rel}::{c.name}.{attr} = `{pf.nsrc(v)[:40]}` is not a constant')
        return True, v.value

    def lookup(cn: str, seen: tuple = ()) -> Tuple[bool, Any]:
        c = top.get(cn)
        if c is None or cn in seen:
            return False, None
        f_, v = own(c)
        if f_:
            return True, v
        for b in c.bases:
            d = pf.dotted(b)
            if d in top:
                f2, v2 = lookup(d, seen + (cn,))
                if f2:
                    return True, v2
        return False, None

    out: Dict[str, Any] = {}
    for cn in classes:
        f_, v = lookup(cn)
        if not f_:
            raise AnalysisError(f'{m.rel}: class {cn} has no class-level `{attr}` (AttributeError on the bulk-path guard)')
        out[cn] = v
    _CATTR_CACHE[key] = out
    return out


def _reader_canon(cn_ctx: 'Canon', cn: str) -> List[tuple]:
    key = (id(cn_ctx.m), cn)
    if key not in _RCANON_CACHE:
        ms = W.methods(cn_ctx.m.cls(cn))
        if FROM not in ms:
            raise AnalysisError(f'class {cn} has no {FROM}')
        _RCANON_CACHE[key] = Canon(cn_ctx.ctx, cn_ctx.m, cn, ms[FROM], 'r').canon()
    return _RCANON_CACHE[key]


def _specialise(c: 'Canon', xs: Sequence[tuple], recv: Optional[str], cn: Optional[str], all_present: bool) -> Any:
    """Canonical items `xs` for element class `cn`: delegated decodes on `recv` replaced by the class's own reader program (primitives only), bulk
    reads by `count` repetitions of the primitive their struct code denotes, presence tests dropped when every slot is known to be present.
    Returns a message (str) when the bulk read itself is ill-formed for this class."""
    out: List[tuple] = []
    for it in xs:
        k = it[0]
        if k == 'rec' and recv is not None and it[1] == recv:
            prog = _reader_canon(c, cn)
            if not all(p[0] == 'prim' for p in prog):
                raise AnalysisError(f'the decoder of {cn} is not a sequence of primitives ({show_canon(prog)})')
            out += prog
        elif k == 'packed':
            _, tag, code, order, op = it
            ch = code[1] if code[0] == 'const' else _class_attr_table(c.m, code[2]).get(cn)
            if not isinstance(ch, str) or len(ch) != 1 or ch not in STRUCT_STD:
                return f'{op} is handed the struct code {ch!r}, which is not one of the fixed-width format characters of the struct table'
            if order not in '=<' and STRUCT_STD[ch][0] > 1:
                return f'{op} unpacks with byte order / size mode {order!r} (the stream is little-endian with standard sizes)'
            prim = STD_PRIM.get(STRUCT_STD[ch])
            if ch in ('b', 'B'):
                # one byte read as a small integer: 0 / 1 compare equal to False / True, so neither "equal" nor "different" is established here
                raise AnalysisError(f'{op} unpacks struct code {ch!r} (one byte as an integer): equality of the decoded values with the element decoder\'s is not decided')
            if prim is None:
                return f'{op} unpacks struct code {ch!r} ({STRUCT_STD[ch][0]}-byte {STRUCT_STD[ch][1]}), which is not a primitive of the wire format'
            out.append(('loop', tag, [('prim', PRIM_KIND[prim])]))
        elif k == 'present':
            inner = _specialise(c, it[1], recv, cn, all_present)
            if isinstance(inner, str):
                return inner
            if all_present:
                out += inner
            else:
                out.append(('present', inner))
        elif k == 'loop':
            inner = _specialise(c, it[2], recv, cn, all_present)
            if isinstance(inner, str):
                return inner
            out.append(('loop', it[1], inner))
        elif k == 'cond':
            a, b = _specialise(c, it[2], recv, cn, all_present), _specialise(c, it[3], recv, cn, all_present)
            if isinstance(a, str) or isinstance(b, str):
                return a if isinstance(a, str) else b
            out.append(('cond', it[1], a, b))
        else:
            out.append(it)
    return out


# --------------------------------------------------------------------------------------
# R2 / R3 / R5 / R8 on the Python side
# --------------------------------------------------------------------------------------


def _first_diff(a: Sequence[tuple], b: Sequence[tuple]) -> str:
    for i in range(max(len(a), len(b))):
        if i >= len(a):
            return f'writer ends, reader continues with {show_canon([b[i]])}'
        if i >= len(b):
            return f'reader ends, writer continues with {show_canon([a[i]])}'
        if a[i] != b[i]:
            x, y = a[i], b[i]
            if x[0] == y[0] == 'loop' and x[1] == y[1]:
                return f'inside LOOP[{x[1]}]: ' + _first_diff(x[2], y[2])
            if x[0] == y[0] == 'present':
                return 'inside IFPRESENT: ' + _first_diff(x[1], y[1])
            if x[0] == y[0] == 'cond' and x[1] == y[1]:
                return f'inside IF[{x[1]}]: ' + (_first_diff(x[2], y[2]) if x[2] != y[2] else _first_diff(x[3], y[3]))
            hint = ''
            if any(isinstance(z, str) and z.startswith('own-order:') for z in x[1:2]):
                hint = (' (the writer walks the value in ITS OWN iteration order - a view of a Mapping value - while component k on the wire is the k-th declared field: '
                        'a struct value listing its keys in another order is written with its components exchanged)')
            return f'item {i}: writer {show_canon([x])} vs reader {show_canon([y])}{hint}'
    return ''


def _python_side(ctx: Ctx, m: pf.Module, classes: Dict[str, ast.ClassDef]) -> Dict[str, Tuple[List[tuple], Canon, Canon]]:
    canon: Dict[str, Tuple[List[tuple], Canon, Canon]] = {}
    base = W.methods(m.cls('HailType'))
    for nm in (TO, FROM):
        ctx.need(nm in base and W._only_raises(base[nm]), f'HailType.{nm} is no longer the raising default')
    for cname, c in classes.items():
        ms = W.methods(c)
        hw, hr = TO in ms, FROM in ms
        cons = f'{F}::{cname}::{TO}/{FROM}'
        if hw != hr:
            have, lack = (TO, FROM) if hw else (FROM, TO)
            ctx.bad('R2', cons, f'class {cname} overrides {have} but not {lack}: values of this type can be '
                    + ('sent to the engine but results cannot be decoded' if hw else 'decoded but not encoded') + ' (the base class raises)', m.path, ms[have].lineno)
            continue
        if not hw:
            ctx.ok('R2', cons, 'neither direction overridden (not encodable)', nontrivial=False)
            continue
        cw = Canon(ctx, m, cname, ms[TO], 'w')
        cr = Canon(ctx, m, cname, ms[FROM], 'r')
        pw, pr = cw.canon(), cr.canon()
        if pw == pr:
            ctx.ok('R2', cons, {'wire': show_canon(pw)})
        else:
            ctx.bad('R2', cons, f'wire programs differ - {_first_diff(pw, pr)}. writer: {show_canon(pw)} | reader: {show_canon(pr)}', m.path, ms[FROM].lineno)
        canon[cname] = (pw, cw, cr)
        cw.canon_cache, cr.canon_cache = pw, pr
        # bulk (fast) paths of the decoder: byte-for-byte the general path, for every element class they admit
        for fp in cr.facts.get('fast_paths', []):
            fcons = f'{F}::{cname}.{FROM}::bulk path'
            if fp['problems']:
                ctx.bad('R2', fcons, f'the bulk branch under `{pf.nsrc(fp["test"])[:100]}` does not read what the general decode loop (and the writer, which has no such branch) '
                        f'lay out - ' + '; '.join(fp['problems']), m.path, fp['test'].lineno)
            else:
                ctx.ok('R2', fcons, {'guard': pf.nsrc(fp['test'])[:100], 'admitted_element_classes': fp['classes'],
                                     'decided': 'bulk branch == general branch specialised to each admitted class with every slot present' if fp['classes']
                                     else ('shortcut == general branch with every slot present' if fp['all_present'] else 'no class admitted: branch dead')})
        # presence test guards the component that is encoded, in the order of the missing bits
        for subj, present, test in cw.facts.get('present_w', []):
            recs = [it for it in W.flatten_prims(present) if it[0] == 'rec']
            for r in recs:
                arg = r[2]['arg']
                if arg is not None and pf.nsrc(pf.expand_locals(cw.fn, arg)) != pf.nsrc(pf.expand_locals(cw.fn, subj)):
                    # a difference is established when both are recognised components of the value (value[<index>] / a loop variable); otherwise the
                    # two spellings may denote the same component
                    shape = lambda e_: isinstance(e_, ast.Name) or (isinstance(e_, ast.Subscript) and isinstance(e_.value, ast.Name) and e_.value.id == cw.value)
                    ctx.need(shape(pf.expand_locals(cw.fn, arg)) and shape(pf.expand_locals(cw.fn, subj)),
                             f'{F}::{cname}.{TO} (line {test.lineno}): `{pf.nsrc(test)}` guards the encoding of `{pf.nsrc(arg)}`: cannot tell whether both denote the same component')
                ctx.check(arg is not None and pf.nsrc(pf.expand_locals(cw.fn, arg)) == pf.nsrc(pf.expand_locals(cw.fn, subj)), 'R2', f'{F}::{cname}.{TO}::presence test subject',
                          f'`{pf.nsrc(test)}` guards the encoding of `{pf.nsrc(arg) if arg is not None else "?"}`: the component tested for missingness is not the one written',
                          m.path, test.lineno)
    return canon


def _delegated_decodes(m: pf.Module, cname: str, fn: pf.FuncDef) -> Optional[List[ast.Call]]:
    """Calls `X._convert_from_encoding(<stream>, ...)` of a decoder (helpers that receive the stream inlined), in source order - found by a
    direct scan, so that the freeze-flag rules do not depend on the wire program being extractable (a fast path with an unrecognised shape)."""
    ps = W.param_names(fn)
    if fn.args.vararg is not None or len(ps) < 2:
        return None
    stream = ps[1]
    f2, _ = W.inline_stream_helpers(m, cname, fn, stream)
    out = [n for n in ast.walk(f2) if isinstance(n, ast.Call) and isinstance(n.func, ast.Attribute) and n.func.attr == FROM and n.args
           and isinstance(n.args[0], ast.Name) and n.args[0].id == stream]
    return sorted(out, key=lambda n: (n.lineno, n.col_offset))


def _flags_of(call: ast.Call) -> List[ast.AST]:
    return list(call.args[1:]) + [k.value for k in call.keywords if k.arg == '_should_freeze']


def _freeze_forwarding(ctx: Ctx, m: pf.Module, classes: Dict[str, ast.ClassDef]):
    """R2 (freeze part): every delegated decode forwards the freeze flag (or True); tset elements / dict keys are decoded with True."""
    decs: Dict[str, List[ast.Call]] = {}
    for cname, c in classes.items():
        ms = W.methods(c)
        if TO not in ms or FROM not in ms:
            continue
        calls = _delegated_decodes(m, cname, ms[FROM])
        if calls is None:
            continue
        decs[cname] = calls
        if cname in ('tlocus',):
            continue  # a locus has no nested containers
        for call in calls:
            flags = _flags_of(call)
            txt = pf.nsrc(flags[0]) if flags else None
            ctx.check(txt in ('_should_freeze', 'True'), 'R2', f'{F}::{cname}.{FROM}::{pf.nsrc(call.func.value)} freeze flag',
                      f'nested decode `{pf.nsrc(call)[:90]}` does not forward the freeze flag (passes {txt}): a list/dict nested in a set element or dict key stays unhashable '
                      f'and building the enclosing set/dict raises TypeError', m.path, call.lineno)
    # hashed positions are decoded frozen
    for cname, recv in (('tset', 'self._array_repr'), ('_freeze_this_type', 'self.t')):
        ctx.need(cname in decs, f'anchor vanished: {cname} encoders')
        recs = [c_ for c_ in decs[cname] if pf.nsrc(c_.func.value) == recv]
        ctx.need(len(recs) == 1, f'{cname}.{FROM}: expected one delegated decode on {recv}')
        flags = _flags_of(recs[0])
        ok = len(flags) == 1 and isinstance(flags[0], ast.Constant) and flags[0].value is True
        ctx.check(ok, 'R2', f'{F}::{cname}.{FROM}::decoded frozen',
                  f'{"set elements" if cname == "tset" else "dict keys"} are decoded with _should_freeze={pf.nsrc(flags[0]) if flags else "default False"}: an array-typed one comes back '
                  f'as an unhashable list and set()/dict insertion raises TypeError', m.path, recs[0].lineno)


def _index_of_bit(ctx: Ctx, e: ast.AST, i: str, j: str) -> bool:
    return pf.nsrc(e) in (f'{i} + {j}', f'{j} + {i}')


def _r3(ctx: Ctx, m: pf.Module, canon: Dict[str, Tuple[List[tuple], Canon, Canon]]):
    n_w = n_r = 0
    for cname, (_, cw, cr) in canon.items():
        for info, msg, sources in cw.facts.get('missing_w', []):
            n_w += 1
            cons = f'{F}::{cname}.{TO}::missing-byte loop'
            via = (' (through helper ' + ', '.join(info['inlined']) + ')') if info.get('inlined') else ''
            ctx.check(msg is None, 'R3', cons, f'the statements that pack the missing bits{via} do not produce the engine layout - {msg}', m.path, info['node'].lineno,
                      detail={'decided': f'symbolic evaluation of the extracted statements for n = 0..{W.MAX_N} slots, all missingness vectors', 'ranges_over': sorted(sources),
                              'helpers_inlined': info.get('inlined', [])})
        sem_done = False
        if cr.facts.get('missing_r'):
            cons = f'{F}::{cname}.{FROM}::missing-bit addressing'
            try:
                smsg, ssrc, nrec = cr.reader_semantics()
                sem_done = True
            except AnalysisError as e_:
                ctx.info(f'{F}::{cname}.{FROM}: symbolic evaluation of the decoder not possible ({e_}); falling back to the structural addressing check')
            if sem_done:
                n_r += 1
                via = (' (through helper ' + ', '.join(cr.ex.inlined) + ')') if cr.ex.inlined else ''
                ctx.check(smsg is None, 'R3', cons, f'the decoder{via} does not consult the missing bits as laid out - {smsg}', m.path, cr.facts['missing_r'][0]['node'].lineno,
                          detail={'decided': f'symbolic evaluation of the extracted decoder for n = 0..{W.MAX_N} slots with symbolic missing bytes', 'ranges_over': sorted(ssrc)})
        for info, (lk, test) in zip(cr.facts.get('missing_r', []) if not sem_done else [], cr.facts.get('lookup_r', [])):
            n_r += 1
            cons = f'{F}::{cname}.{FROM}::missing-bit addressing'
            msg = []
            if info['div'] != 8 or info['rounding'] != 'ceil':
                msg.append(f'reads {info["rounding"]}(n / {info["div"]}) missing bytes (expected ceil(n / 8): the writer emits a final partial byte whenever n % 8 != 0)')
            ctx.need(info['bind'] is not None, f'{cname}.{FROM}: missing bytes are not bound to a name')
            mb = info['bind']
            # counter of the enclosing loop
            counter = None
            for tag, linfo in cr.facts.get('loops', []):
                if linfo['kind'] == 'while':
                    counter = linfo['counter']
                elif isinstance(linfo.get('iter'), ast.Call) and pf.dotted(linfo['iter'].func) == 'enumerate' and isinstance(linfo['target'], ast.Tuple) \
                        and isinstance(linfo['target'].elts[0], ast.Name):
                    counter = linfo['target'].elts[0].id
            ctx.need(counter is not None, f'{cname}.{FROM}: element counter of the decode loop not found')
            byte_e, bit_e = lk.args
            # resolve through the two helper assignments inside the loop
            asg: Dict[str, List[ast.AST]] = {}
            guards: Dict[str, Optional[ast.expr]] = {}
            par = {c_: p_ for p_ in ast.walk(cr.fn) for c_ in ast.iter_child_nodes(p_)}  # cr.fn may be a copy with helpers inlined
            for n in ast.walk(cr.fn):
                if isinstance(n, ast.Assign) and len(n.targets) == 1 and isinstance(n.targets[0], ast.Name):
                    asg.setdefault(n.targets[0].id, []).append(n.value)
                    p = par.get(n)
                    guards[n.targets[0].id] = p.test if isinstance(p, ast.If) and n in p.body else None
            bit_x = bit_e
            if isinstance(bit_e, ast.Name):
                vals = [v for v in asg.get(bit_e.id, [])]
                ctx.need(len(vals) == 1, f'{cname}.{FROM}: `{bit_e.id}` has {len(vals)} definitions')
                bit_x = vals[0]
            okbit = isinstance(bit_x, ast.BinOp) and isinstance(bit_x.op, ast.Mod) and pf.nsrc(bit_x.left) == counter and W.const_int(bit_x.right) is not None
            ctx.need(okbit, f'{cname}.{FROM}: bit index `{pf.nsrc(bit_x)}` is not {counter} % k')
            if W.const_int(bit_x.right) != 8:
                msg.append(f'bit index is `{pf.nsrc(bit_x)}` (expected {counter} % 8)')
            byte_x = byte_e
            refresh_guard = None
            if isinstance(byte_e, ast.Name):
                vals = [v for v in asg.get(byte_e.id, []) if not (isinstance(v, ast.Constant) and v.value is None)]
                ctx.need(len(vals) == 1, f'{cname}.{FROM}: `{byte_e.id}` has {len(vals)} non-trivial definitions')
                byte_x = vals[0]
                refresh_guard = guards.get(byte_e.id)
            okbyte = (isinstance(byte_x, ast.Subscript) and pf.nsrc(byte_x.value) == mb and isinstance(byte_x.slice, ast.BinOp) and isinstance(byte_x.slice.op, ast.FloorDiv)
                      and pf.nsrc(byte_x.slice.left) == counter and W.const_int(byte_x.slice.right) is not None)
            ctx.need(okbyte, f'{cname}.{FROM}: missing byte `{pf.nsrc(byte_x)}` is not {mb}[{counter} // k]')
            if W.const_int(byte_x.slice.right) != 8:
                msg.append(f'missing byte is `{pf.nsrc(byte_x)}` (expected {mb}[{counter} // 8])')
            if refresh_guard is not None:
                okg = (isinstance(refresh_guard, ast.Compare) and len(refresh_guard.ops) == 1 and isinstance(refresh_guard.ops[0], ast.Eq)
                       and W.const_int(refresh_guard.comparators[0]) == 0 and pf.nsrc(refresh_guard.left) in (pf.nsrc(bit_e), pf.nsrc(bit_x)))
                if not okg:
                    msg.append(f'the current missing byte is refreshed under `{pf.nsrc(refresh_guard)}`, not at every bit index 0')
            ctx.check(not msg, 'R3', cons, '; '.join(msg) + ': the writer (and the engine) store element e at bit e % 8 of byte e // 8', m.path, test.lineno)
    ctx.need(n_w >= 3 and n_r >= 3, f'expected missing-bit idioms in array/struct/tuple on both sides, found {n_w} writers / {n_r} readers')
    # lookup_bit
    mm = pf.load(MISC)
    lb = mm.func('lookup_bit')
    b, w = W.param_names(lb)
    body = W.body_wo_doc(lb)
    ctx.need(len(body) == 1 and isinstance(body[0], ast.Return), f'{MISC}::lookup_bit: unrecognised body')
    sm = X.shift_mask(X.from_py(body[0].value), b)
    e = X.from_py(body[0].value)
    ok = e == ('bin', '&', ('bin', '>>', ('name', b), ('name', w)), ('int', 1)) or e == ('bin', '&', ('int', 1), ('bin', '>>', ('name', b), ('name', w)))
    ctx.check(ok, 'R3', f'{MISC}::lookup_bit', f'lookup_bit returns `{pf.nsrc(body[0].value)}`, expected ({b} >> {w}) & 1 (bit {w} counted from the least-significant end)', mm.path, lb.lineno)


def _r8(ctx: Ctx, m: pf.Module, canon: Dict[str, Tuple[List[tuple], Canon, Canon]]):
    ctx.need('_tstr' in canon, 'anchor vanished: _tstr encoders')
    _, cw, cr = canon['_tstr']
    ctx.need('codec_w' in cw.facts, f'_tstr.{TO}: bytes written are not produced by .encode(...)')
    enc, arg = cw.facts['codec_w']
    wcodec = pf.const_str(enc.args[0]) if enc.args else 'utf-8'
    ctx.need(pf.nsrc(enc.func.value) == cw.value, f'_tstr.{TO}: encodes `{pf.nsrc(enc.func.value)}`, not the value')
    # reader: read_bytes(n).decode(codec)
    dec = [n for n in ast.walk(cr.fn) if isinstance(n, ast.Call) and isinstance(n.func, ast.Attribute) and n.func.attr == 'decode']
    ctx.need(len(dec) == 1, f'_tstr.{FROM}: expected one .decode(...)')
    rcodec = pf.const_str(dec[0].args[0]) if dec[0].args else 'utf-8'
    ctx.need(wcodec is not None and rcodec is not None, '_tstr: non-literal codec')
    norm = lambda s: s.lower().replace('_', '-').replace('utf8', 'utf-8')
    ctx.check(norm(wcodec) == norm(rcodec) == 'utf-8', 'R8', f'{F}::_tstr::codec',
              f'strings are written as {wcodec!r} and read as {rcodec!r}; the engine stores strings as UTF-8 bytes: non-ASCII text does not round-trip', m.path, dec[0].lineno,
              detail={'codec': wcodec})
    # the prefix counts encoded bytes: guaranteed by the canonical form (I32(len B) BYTES[B]); record which expression is measured
    pw = canon['_tstr'][0]
    ctx.check(pw == [('lenprefix', '@0'), ('bytes', '@0')], 'R8', f'{F}::_tstr::length prefix counts the bytes written',
              f'wire program of the string writer is `{show_canon(pw)}`: the int32 prefix is not the length of the byte string that follows '
              f'(e.g. len(value) counts characters, which differs from the UTF-8 byte count for non-ASCII text)', m.path, cw.fn.lineno)


def _r5(ctx: Ctx, m: pf.Module, classes: Dict[str, ast.ClassDef], canon: Dict[str, Tuple[List[tuple], Canon, Canon]]):
    ctx.need('tndarray' in canon, 'anchor vanished: tndarray encoders')
    pw, cw, cr = canon['tndarray']
    # shape
    ok = len(pw) >= 1 and pw[0] == ('loop', 'ndim', [('prim', 'i64')])
    ctx.check(ok, 'R5', f'{F}::tndarray::shape header', f'wire program `{show_canon(pw)}` does not start with one int64 per dimension', m.path, cw.fn.lineno)
    # element order
    ctx.need('nditer_order' in cw.facts, f'tndarray.{TO}: elements are not iterated with np.nditer(value, order=…)')
    order, node = cw.facts['nditer_order']
    ctx.check(order == 'F', 'R5', f'{F}::tndarray.{TO}::element order',
              f'elements are written in np.nditer order {order!r}; the engine (ENDArrayColumnMajor) and the Python reader expect column-major: every array with ndim >= 2 arrives transposed', m.path, node.lineno)
    rorder = None
    rnode = None
    for n in ast.walk(cr.fn):
        if isinstance(n, ast.Call) and pf.dotted(n.func) in ('np.ndarray', 'numpy.ndarray') and any(k.arg == 'buffer' for k in n.keywords):
            # only the general (non fast-path) branch builds from the decoded element list
            if any(isinstance(x, ast.Name) and x.id == 'elements' for x in ast.walk(n)) or rnode is None:
                rorder = 'C'
                rnode = n
                for k in n.keywords:
                    if k.arg == 'order':
                        rorder = k.value.value if isinstance(k.value, ast.Constant) else '?'
    ctx.need(rnode is not None, f'tndarray.{FROM}: result is not built with np.ndarray(shape=…, buffer=…)')
    ctx.check(rorder == 'F', 'R5', f'{F}::tndarray.{FROM}::element order',
              f'decoded elements are laid out in order {rorder!r}; the stream is column-major: every array with ndim >= 2 comes back transposed', m.path, rnode.lineno)
    # raw-buffer (bulk) path: (a) is it reachable - decided from the definitions of the tables / predicates the guard consults;
    # (b) if it is, the bytes must be in column-major order like the element-wise path and the engine (ENDArrayColumnMajor)
    has_fast = any(it[0] == 'cond' and it[1].startswith('numeric-fast-path') for c in (cw, cr) for it in _flat(c.canon_cache))
    cons = f'{F}::tndarray::raw-buffer fast path'
    if not has_fast:
        ctx.ok('R5', cons, 'absent')
        return
    problems: List[str] = []
    facts: List[str] = []
    line = cw.fn.lineno
    for c, side in ((cw, 'writer'), (cr, 'reader')):
        g = c.facts.get('numeric_guard')
        if g is None:
            continue
        test = c.facts['numeric_cond']
        if not g.admitted:
            ctx.need(g.dead is not None, f'tndarray {side}: guard `{pf.nsrc(test)}` admits no class but no reason is known')
            facts.append(f'{side}: bulk branch is dead - {g.dead}')
            continue
        line = test.lineno
        adm = sorted(g.admitted)
        if side == 'writer':
            ctx.need('bulk_w' in c.facts, f'tndarray.{TO}: the live bulk branch under `{pf.nsrc(test)}` does not write one raw buffer')
            order, node, arg = c.facts['bulk_w']
            if order == 'F':
                facts.append(f'writer: bulk branch live for {adm}, bytes `{pf.nsrc(arg)[:60]}` are column-major')
            elif order == 'C':
                problems.append(f'the bulk branch of tndarray.{TO} is live (`{pf.nsrc(test)}` admits {adm}) and writes `{pf.nsrc(arg)[:80]}`, which is row-major (numpy default order \'C\'), while the '
                                f'element-wise path (np.nditer order=\'F\') and the engine (ENDArrayColumnMajor) are column-major: np.array([[1, 2], [3, 4]]) is sent as 1,2,3,4 and the engine builds [[1, 3], [2, 4]]')
            else:
                problems.append(f'the bulk branch of tndarray.{TO} is live (`{pf.nsrc(test)}` admits {adm}) and writes `{pf.nsrc(arg)[:80]}`, the array\'s memory buffer as it happens to be laid out: row-major for '
                                f'C-ordered arrays (and a BufferError for non-contiguous ones), while the engine decodes column-major: np.array([[1, 2], [3, 4]]) arrives as [[1, 3], [2, 4]]')
        else:
            rets = [n for n in ast.walk(test_parent_if(c.fn, test)) if isinstance(n, ast.Return) and n.value is not None] if test_parent_if(c.fn, test) is not None else []
            ctx.need(len(rets) >= 1, f'tndarray.{FROM}: the live bulk branch under `{pf.nsrc(test)}` returns nothing recognisable')
            iff = test_parent_if(c.fn, test)
            brets = [n for st in iff.body for n in ast.walk(st) if isinstance(n, ast.Return) and n.value is not None]
            ctx.need(len(brets) == 1, f'tndarray.{FROM}: expected one return in the bulk branch')
            order = bulk_read_order(c.fn, brets[0].value, c.shape_names)
            ctx.need(order is not None, f'tndarray.{FROM}: cannot classify how `{pf.nsrc(brets[0].value)[:80]}` lays the buffer out (numpy idiom outside the order table)')
            if order == 'F':
                facts.append(f'reader: bulk branch live for {adm}, buffer laid out column-major')
            else:
                problems.append(f'the bulk branch of tndarray.{FROM} is live (`{pf.nsrc(test)}` admits {adm}) and rebuilds the array with `{pf.nsrc(brets[0].value)[:80]}`, i.e. row-major, while the engine '
                                f'writes column-major: an engine result [[0, 1, 2], [3, 4, 5]] is decoded as [[0, 3, 1], [4, 2, 5]]')
    if problems:
        ctx.bad('R5', cons, ' | '.join(problems), m.path, line)
    else:
        ctx.ok('R5', cons, {'facts': facts})
        for f_ in facts:
            if 'dead' in f_:
                ctx.info(f'{F}::tndarray: {f_}; if revived with the buffer it uses today it would send C-ordered arrays row-major')


def test_parent_if(fn: pf.FuncDef, test: ast.AST) -> Optional[ast.If]:
    for n in ast.walk(fn):
        if isinstance(n, ast.If) and n.test is test:
            return n
    return None


# --------------------------------------------------------------------------------------
# R4 engine agreement
# --------------------------------------------------------------------------------------
#
# layout signatures (both sides):  'i32' 'i64' 'f32' 'f64' 'bool' 'bin'
#   ('struct', [sig...]) | ('struct', 'FIELDS')     one missing bit per field, then the present fields in order
#   ('array', has_missing_bytes, elem_sig)            int32 length, [ceil(n/8) missing bytes], present elements
#   ('ndarray', elem_sig)                             int64 per dimension, all elements (column-major)
#   ('param', role)                                   the layout of a type parameter (elementType, keyType, valueType, pointType, t)

PY_ROLE = {'element_type': 'elementType', 'key_type': 'keyType', 'value_type': 'valueType', 'point_type': 'pointType', 't': 't'}
# frozen table of EType wire layouts (trusted base, read from EType*.scala): name -> kind
ETYPE_PRIM = {'EInt32': 'i32', 'EInt64': 'i64', 'EFloat32': 'f32', 'EFloat64': 'f64', 'EBoolean': 'bool', 'EBinary': 'bin'}
ETYPE_ARRAYLIKE = {'EArray', 'EUnsortedSet', 'EDictAsUnsortedArrayOfPairs'}


def _subst(sig: Any, env: Dict[str, Any]) -> Any:
    if isinstance(sig, tuple) and sig and sig[0] == 'param':
        return env.get(sig[1], sig)
    if isinstance(sig, tuple):
        return tuple(_subst(x, env) for x in sig)
    if isinstance(sig, list):
        return [_subst(x, env) for x in sig]
    return sig


class PySigs:
    def __init__(self, ctx: Ctx, m: pf.Module, classes: Dict[str, ast.ClassDef], canon: Dict[str, Tuple[List[tuple], Canon, Canon]]):
        self.ctx, self.m, self.classes, self.canon = ctx, m, classes, canon
        self.cache: Dict[str, Any] = {}

    def attr_param(self, cname: str, attr: str) -> str:
        """`self.<attr>` (a property returning self._x, or the attribute itself) -> constructor parameter stored there."""
        c = self.classes[cname]
        ms = W.methods(c)
        stored = attr
        if attr in ms and 'property' in pf.decorator_names(ms[attr]):
            b = W.body_wo_doc(ms[attr])
            self.ctx.need(len(b) == 1 and isinstance(b[0], ast.Return) and isinstance(b[0].value, ast.Attribute) and pf.nsrc(b[0].value.value) == 'self',
                          f'{cname}.{attr}: property is not `return self._x`')
            stored = b[0].value.attr
        self.ctx.need('__init__' in ms, f'{cname} has no __init__')
        vals = [st.value for st in ast.walk(ms['__init__']) if isinstance(st, ast.Assign) and len(st.targets) == 1 and pf.nsrc(st.targets[0]) == f'self.{stored}']
        self.ctx.need(len(vals) == 1 and isinstance(vals[0], ast.Name) and vals[0].id in PY_ROLE, f'{cname}.__init__: self.{stored} is not assigned from a type parameter')
        return PY_ROLE[vals[0].id]

    def attr_expr(self, cname: str, attr: str) -> ast.expr:
        c = self.classes[cname]
        ms = W.methods(c)
        vals = []
        if '__init__' in ms:
            vals = [st.value for st in ast.walk(ms['__init__']) if isinstance(st, ast.Assign) and len(st.targets) == 1 and pf.nsrc(st.targets[0]) == f'self.{attr}']
        if not vals:
            vals = [st.value for st in c.body if isinstance(st, ast.Assign) and len(st.targets) == 1 and pf.nsrc(st.targets[0]) == attr]
        self.ctx.need(len(vals) == 1, f'{cname}: `{attr}` is not assigned exactly once (in __init__ or the class body)')
        return vals[0]

    def typeexpr(self, e: ast.expr) -> Any:
        if isinstance(e, ast.Call) and isinstance(e.func, ast.Name) and e.func.id in self.classes:
            cn = e.func.id
            if cn == 'tstruct':
                self.ctx.need(not e.args and all(k.arg for k in e.keywords), 'tstruct(...) with positional / ** arguments in a representation type')
                return ('struct', [self.typeexpr(k.value) for k in e.keywords])
            base = self.sig(cn)
            ms = W.methods(self.classes[cn])
            ps = W.param_names(ms['__init__'])[1:] if '__init__' in ms else []
            self.ctx.need(len(e.args) <= len(ps) and not e.keywords, f'{cn}(...) constructor call with keywords in a representation type')
            env = {PY_ROLE[p]: self.typeexpr(a) for p, a in zip(ps, e.args) if p in PY_ROLE}
            return _subst(base, env)
        d = pf.dotted(e)
        if d is not None:
            last = d.split('.')[-1]
            if isinstance(e, ast.Name) and e.id in PY_ROLE:
                return ('param', PY_ROLE[e.id])
            try:
                g = self.m.global_assign(last)
            except AnalysisError:
                g = None
            if isinstance(g, ast.Call) and isinstance(g.func, ast.Name) and g.func.id in self.classes and not g.args:
                return self.sig(g.func.id)
        raise AnalysisError(f'{F}: cannot evaluate the representation type expression `{pf.nsrc(e)}`')

    def rec(self, cname: str, target: str) -> Any:
        if target == 'self.t':
            return ('param', 't')
        if target.startswith('self.') and target.count('.') == 1:
            attr = target.split('.')[1]
            try:
                return ('param', self.attr_param(cname, attr))
            except AnalysisError:
                return self.typeexpr(self.attr_expr(cname, attr))
        if target == f'{cname}.struct_repr' or (target.count('.') == 1 and target.split('.')[0] == cname):
            return self.typeexpr(self.attr_expr(cname, target.split('.')[1]))
        if target.startswith('self.') and target.endswith('.element_type') and target.count('.') == 2:
            e = self.attr_expr(cname, target.split('.')[1])
            self.ctx.need(isinstance(e, ast.Call) and pf.dotted(e.func) == 'tarray' and len(e.args) == 1, f'{cname}: `{target}` is not the element type of a tarray(...)')
            self.ctx.need(self.attr_param('tarray', 'element_type') == 'elementType', 'tarray.element_type is not the constructor argument')
            return self.typeexpr(e.args[0])
        raise AnalysisError(f'{F}::{cname}: cannot resolve the delegated converter receiver `{target}`')

    def sig(self, cname: str) -> Any:
        if cname in self.cache:
            return self.cache[cname]
        self.ctx.need(cname in self.canon, f'{cname} has no encoder')
        p = self.canon[cname][0]
        s: Any = None
        if len(p) == 1 and p[0][0] == 'prim':
            s = p[0][1]
        elif p == [('lenprefix', '@0'), ('bytes', '@0')]:
            s = 'bin'
        elif len(p) == 1 and p[0][0] == 'rec':
            s = self.rec(cname, p[0][1])
        elif len(p) == 3 and p[0] == ('lenprefix', '@0') and p[1] == ('missing', '@0') and p[2][0] == 'loop' and p[2][1] == '@0' \
                and len(p[2][2]) == 1 and p[2][2][0][0] == 'present' and len(p[2][2][0][1]) == 1 and p[2][2][0][1][0][0] == 'rec':
            s = ('array', True, self.rec(cname, p[2][2][0][1][0][1]))
        elif len(p) == 2 and p[0] == ('lenprefix', '@0') and p[1][0] == 'loop' and p[1][1] == '@0' and len(p[1][2]) == 1 and p[1][2][0][0] == 'rec':
            s = ('array', False, self.rec(cname, p[1][2][0][1]))
        elif p == [('missing', 'fields'), ('loop', 'fields', [('present', [('rec', 'fieldtype')])])]:
            s = ('struct', 'FIELDS')
        elif len(p) == 2 and p[0] == ('loop', 'ndim', [('prim', 'i64')]):
            x = p[1]
            if x[0] == 'cond' and x[1].startswith('numeric-fast-path'):
                self.ctx.need(len(x[3]) == 1, 'ndarray general branch has several items')
                x = x[3][0]
            if x[0] == 'loop' and x[1] == 'size' and len(x[2]) == 1 and x[2][0][0] == 'rec':
                s = ('ndarray', self.rec(cname, x[2][0][1]))
        if s is None:
            raise AnalysisError(f'{F}::{cname}: wire program `{show_canon(p)}` has no layout signature')
        self.cache[cname] = s
        return s


def _scala_type_name(ctx: Ctx, c: ast.ClassDef) -> Optional[str]:
    ms = W.methods(c)
    if '_parsable_string' not in ms:
        return None
    rets = [n for n in ast.walk(ms['_parsable_string']) if isinstance(n, ast.Return) and n.value is not None]
    ctx.need(len(rets) == 1, f'{c.name}._parsable_string: expected one return')
    e = rets[0].value
    lead = None
    if isinstance(e, ast.Constant) and isinstance(e.value, str):
        lead = e.value
    elif isinstance(e, ast.JoinedStr) and e.values and isinstance(e.values[0], ast.Constant):
        lead = e.values[0].value
    elif isinstance(e, ast.BinOp) and isinstance(e.op, ast.Add):
        cur = e
        while isinstance(cur, ast.BinOp):
            cur = cur.left
        lead = cur.value if isinstance(cur, ast.Constant) else None
    elif isinstance(e, ast.Call) and isinstance(e.func, ast.Attribute) and e.func.attr == 'format' and isinstance(e.func.value, ast.Constant):
        lead = e.func.value.value
    ctx.need(isinstance(lead, str), f'{c.name}._parsable_string: unrecognised return `{pf.nsrc(e)[:60]}`')
    ident = ''
    for ch in lead:
        if ch.isalnum():
            ident += ch
        else:
            break
    ctx.need(ident != '', f'{c.name}._parsable_string: no leading type keyword')
    return 'T' + ident


def _ancestors(ctx: Ctx, tname: str) -> List[str]:
    out = [tname]
    cur = tname
    for _ in range(8):
        p = S.load(f'{VIRT}{cur}.scala').parent_of(cur)
        if p is None or p in ('Type', 'BaseType'):
            return out
        out.append(p)
        cur = p
    raise AnalysisError(f'{VIRT}: inheritance chain of {tname} too deep')


class EngineSigs:
    def __init__(self, ctx: Ctx):
        self.ctx = ctx
        E = S.load(ETYPE)
        d = E.def_('object:EType', 'fromPythonTypeEncoding')
        self.line = d.line
        ctx.need(len(d.params) == 1, f'{ETYPE}::fromPythonTypeEncoding takes {len(d.params)} parameters')
        self.scrut = d.params[0][0]
        b = S.strip(d.body)
        ctx.need(b[0] == 'match' and X.from_scala(b[1]) == ('name', self.scrut), f'{ETYPE}::fromPythonTypeEncoding is not `{self.scrut} match {{…}}`')
        self.arms: List[Tuple[str, Optional[str], tuple]] = []  # (type name, binder, body)
        for pat, body in b[2]:
            toks = [x[1] for x in pat]
            binder = None
            if len(toks) == 3 and toks[1] == ':':
                binder, tn = toks[0], toks[2]
            elif len(toks) >= 1 and toks[0][:1] == 'T' and (len(toks) == 1 or toks[1] == '('):
                tn = toks[0]
            else:
                raise AnalysisError(f'{ETYPE}::fromPythonTypeEncoding: unrecognised case pattern `{" ".join(toks)}`')
            if body[0] == 'block':
                st = body[1]
                ctx.need(len(st) == 1 and st[0][0] == 'expr', f'{ETYPE}::fromPythonTypeEncoding: arm {tn} is not a single expression')
                body = st[0][1]
            self.arms.append((tn, binder, X.from_scala(body)))
        # TDict.elementType
        td = X.from_scala(S.load(f'{VIRT}TDict.scala').val('TDict', 'elementType'))
        if td[0] == 'sel' and td[2] == 'asInstanceOf':
            td = td[1]
        ctx.need(td[0] == 'call' and td[1] == ('name', 'TStruct'), f'{VIRT}TDict.scala::elementType is not TStruct(...)')
        self.dict_fields: List[str] = []
        for _, a in td[2]:
            ctx.need(a[0] == 'bin' and a[1] == '->' and a[2][0] == 'str' and a[3][0] == 'name', f'{VIRT}TDict.scala::elementType: unrecognised field `{X.show(a)}`')
            self.dict_fields.append(a[3][1])

    def arm_for(self, tname: str) -> Optional[Tuple[int, str, Optional[str], tuple]]:
        anc = _ancestors(self.ctx, tname)
        for i, (tn, binder, body) in enumerate(self.arms):
            if tn in anc:
                return i, tn, binder, body
        return None

    def conv(self, e: tuple, binder: Optional[str], arm: str) -> Tuple[Any, bool, List[str]]:
        """(layout signature, required flag, notes) of an EType constructor expression."""
        ctx = self.ctx
        where = f'{ETYPE}::fromPythonTypeEncoding arm {arm}'
        # fromPythonTypeEncoding(t.X)[.setRequired(b)]
        if e[0] == 'call' and e[1][0] == 'sel' and e[1][2] == 'setRequired':
            inner, _, notes = self.conv(e[1][1], binder, arm)
            ctx.need(len(e[2]) == 1 and e[2][0][1][0] == 'bool', f'{where}: setRequired with a non-literal argument')
            return inner, e[2][0][1][1], notes
        ctx.need(e[0] == 'call' and e[1][0] == 'name', f'{where}: unrecognised expression `{X.show(e)}`')
        fn = e[1][1]
        args = e[2]

        def req_of(a: List[Tuple[Optional[str], tuple]], pos: int) -> bool:
            for kw, v in a:
                if kw == 'required':
                    ctx.need(v[0] == 'bool', f'{where}: non-literal required flag')
                    return v[1]
            if len(a) > pos and a[pos][0] is None:
                ctx.need(a[pos][1][0] == 'bool', f'{where}: non-literal required flag in `{X.show(e)}`')
                return a[pos][1][1]
            return False  # default of every EType constructor

        if fn in ('fromPythonTypeEncoding', 'EType.fromPythonTypeEncoding'):
            ctx.need(len(args) == 1 and args[0][1][0] == 'name' and binder is not None and args[0][1][1].startswith(binder + '.'), f'{where}: recursive call on `{X.show(args[0][1])}`')
            role = args[0][1][1][len(binder) + 1:]
            if role == 'elementType' and arm == 'TDict':
                return ('struct', [('param', f) for f in self.dict_fields]), False, []
            ctx.need(role in ('elementType', 'pointType', 'keyType', 'valueType'), f'{where}: unknown type component `{role}`')
            return ('param', role), False, []
        if fn in ETYPE_PRIM:
            return ETYPE_PRIM[fn], req_of(args, 0), []
        if fn in ETYPE_ARRAYLIKE:
            ctx.need(len(args) >= 1, f'{where}: {fn} without element type')
            es, ereq, notes = self.conv(args[0][1], binder, arm)
            return ('array', not ereq, es), req_of(args, 1), notes
        if fn == 'ENDArrayColumnMajor':
            ctx.need(len(args) >= 2 and binder is not None and args[1][1] == ('name', f'{binder}.nDims'), f'{where}: ENDArrayColumnMajor dimension count is not {binder}.nDims')
            es, ereq, notes = self.conv(args[0][1], binder, arm)
            return ('ndarray', es), req_of(args, 2), notes
        if fn == 'EBaseStruct':
            ctx.need(len(args) >= 1, f'{where}: EBaseStruct without fields')
            fl = args[0][1]
            notes: List[str] = []
            if fl[0] == 'call' and fl[1] == ('name', 'ArraySeq') or fl[0] == 'call' and fl[1] == ('name', 'FastSeq') or fl[0] == 'call' and fl[1] == ('name', 'IndexedSeq'):
                sigs = []
                for idx, (_, fe) in enumerate(fl[2]):
                    ctx.need(fe[0] == 'call' and fe[1] == ('name', 'EField') and len(fe[2]) == 3, f'{where}: field {idx} is not EField(name, type, index)')
                    ctx.need(fe[2][2][1] == ('int', idx), f'{where}: field {idx} carries index {X.show(fe[2][2][1])}')
                    fs, freq, n2 = self.conv(fe[2][1][1], binder, arm)
                    if freq:
                        notes.append(f'field {idx} is required (no missing bit)')
                    sigs.append(fs)
                return ('struct', sigs), req_of(args, 1), notes
            if fl[0] == 'call' and fl[1] == ('name', 'ArraySeq.tabulate') and fl[3] is not None and binder is not None:
                ctx.need(len(fl[2]) == 1 and fl[2][0][1] == ('name', f'{binder}.size'), f'{where}: tabulate bound is not {binder}.size')
                lam = fl[3]
                ctx.need(lam[0] == 'lambda' and len(lam[1]) == 1, f'{where}: tabulate body is not a one-parameter lambda')
                i = lam[1][0]
                stmts = lam[2][1] if lam[2][0] == 'block' else [('expr', lam[2])]
                last = stmts[-1]
                ctx.need(last[0] == 'expr', f'{where}: tabulate body does not end in an expression')
                fe = last[1]
                env: Dict[str, tuple] = {}
                for st in stmts[:-1]:
                    if st[0] == 'val':
                        env[st[1]] = st[2]
                ok = fe[0] == 'call' and fe[1] == ('name', 'EField') and len(fe[2]) == 3
                ctx.need(ok, f'{where}: tabulate body does not build EField(...)')
                ty = fe[2][1][1]
                want = ('call', ('name', 'fromPythonTypeEncoding'), [(None, ('sel', ('call', ('name', f'{binder}.fields'), [(None, ('name', i))], None), 'typ'))], None)
                ctx.need(ty == want, f'{where}: field type is `{X.show(ty)}`, expected fromPythonTypeEncoding({binder}.fields({i}).typ)')
                return ('struct', 'FIELDS'), req_of(args, 1), notes
            raise AnalysisError(f'{where}: unrecognised EBaseStruct field list `{X.show(fl)[:80]}`')
        raise AnalysisError(f'{where}: EType constructor {fn} is not in the frozen layout table')


def _show_sig(s: Any) -> str:
    if isinstance(s, str):
        return s
    if s[0] == 'param':
        return f'<{s[1]}>'
    if s[0] == 'struct':
        return 'struct{' + ('*' if s[1] == 'FIELDS' else ', '.join(_show_sig(x) for x in s[1])) + '}'
    if s[0] == 'array':
        return f'array[{"missing-bytes, " if s[1] else "no missing bytes, "}{_show_sig(s[2])}]'
    if s[0] == 'ndarray':
        return f'ndarray[{_show_sig(s[1])}]'
    return repr(s)


def _r4(ctx: Ctx, m: pf.Module, classes: Dict[str, ast.ClassDef], canon: Dict[str, Tuple[List[tuple], Canon, Canon]], r2_failed: set):
    ps = PySigs(ctx, m, classes, canon)
    es = EngineSigs(ctx)
    sc_path = repo_path(ETYPE)
    used_arms: set = set()
    n = 0
    for cname, c in classes.items():
        if cname not in canon or canon[cname][0] == [('raise',)]:
            continue
        if cname == '_freeze_this_type':
            # transparent wrapper: must simply delegate to the wrapped type
            ctx.check(canon[cname][0] == [('rec', 'self.t')], 'R4', f'{F}::{cname}::transparent', f'wrapper layout is `{show_canon(canon[cname][0])}`, not the wrapped type\'s', m.path, c.lineno)
            continue
        tname = _scala_type_name(ctx, c)
        ctx.need(tname is not None, f'{cname} has an encoder but no _parsable_string')
        cons = f'{F}::{cname} <-> {ETYPE}::fromPythonTypeEncoding[{tname}]'
        arm = es.arm_for(tname)
        if arm is None:
            ctx.bad('R4', cons, f'Python encodes values of {cname} ({tname}) but fromPythonTypeEncoding has no case for {tname} or a supertype: the engine throws MatchError on such a literal', sc_path, es.line)
            continue
        idx, armname, binder, body = arm
        used_arms.add(idx)
        try:
            py = ps.sig(cname)
        except AnalysisError:
            if cname in r2_failed:
                ctx.ok('R4', cons, 'not comparable: writer and reader disagree (reported under R2)', nontrivial=False)
                continue
            raise
        eng, req, notes = es.conv(body, binder, armname)
        n += 1
        msg = []
        if req:
            msg.append(f'the arm yields a *required* EType: a field/element of this type gets no missing bit in the engine, but Python writes one for every field/element')
        if notes:
            msg.append('; '.join(notes) + ' - Python writes a missing bit for every field')
        if py != eng:
            msg.append(f'layouts differ: Python {cname} is {_show_sig(py)}, engine arm `case {armname}` is {_show_sig(eng)}')
        ctx.check(not msg, 'R4', cons, '; '.join(msg), sc_path, es.line, detail={'layout': _show_sig(py), 'arm': armname})
    ctx.need(n >= 14, f'expected >= 14 Python classes compared with engine arms, compared {n}')
    # arms never selected by a Python class: only engine-internal types may remain
    enc_names = {_scala_type_name(ctx, c) for cn, c in classes.items() if cn in canon and canon[cn][0] != [('raise',)] and cn != '_freeze_this_type'}
    for i, (tn, binder, body) in enumerate(es.arms):
        if i in used_arms:
            continue
        ctx.check(tn not in enc_names, 'R4', f'{ETYPE}::fromPythonTypeEncoding[{tn}]::reachable',
                  f'arm `case {tn}` is shadowed by an earlier arm: Python values of that type are decoded with the layout of the earlier, more general arm', sc_path, es.line,
                  detail='engine-only type (no Python class with an encoder)')


# --------------------------------------------------------------------------------------
# R6 struct-represented values
# --------------------------------------------------------------------------------------


def _norm_name(s: str) -> str:
    return s.replace('_', '').lower()


def _engine_field_names(es: EngineSigs, armname: str) -> Optional[List[str]]:
    for tn, binder, body in es.arms:
        if tn == armname and body[0] == 'call' and body[1] == ('name', 'EBaseStruct') and body[2] and body[2][0][1][0] == 'call':
            out = []
            for _, fe in body[2][0][1][2]:
                if fe[0] == 'call' and fe[1] == ('name', 'EField') and fe[2] and fe[2][0][1][0] == 'str':
                    out.append(fe[2][0][1][1].strip('"'))
                else:
                    return None
            return out
    return None


def _r6(ctx: Ctx, m: pf.Module, classes: Dict[str, ast.ClassDef], canon: Dict[str, Tuple[List[tuple], Canon, Canon]], ps: PySigs, es: EngineSigs):
    for cname, armname in (('tlocus', 'TLocus'), ('tinterval', 'TInterval')):
        ctx.need(cname in canon, f'anchor vanished: {cname} encoders')
        pw, cw, cr = canon[cname]
        ctx.need(len(pw) == 1 and pw[0][0] == 'rec', f'{cname}: encoder does not delegate to a struct representation')
        target = pw[0][1]
        attr = target.split('.')[1]
        rep = ps.attr_expr(cname, attr)
        ctx.need(isinstance(rep, ast.Call) and pf.dotted(rep.func) in ('tstruct', 'hl.tstruct') and not rep.args, f'{cname}.{attr} is not tstruct(name=type, …)')
        fields = [k.arg for k in rep.keywords]
        # writer dict
        wrec = cw.facts['recs'][0]
        d = _resolve(cw.fn, wrec[2]['arg'])
        ctx.need(isinstance(d, ast.Dict) and all(isinstance(k, ast.Constant) and isinstance(k.value, str) for k in d.keys), f'{cname}.{TO}: the value handed to the struct encoder is not a dict literal')
        wkeys = {k.value: v for k, v in zip(d.keys, d.values)}
        cons = f'{F}::{cname}::struct representation fields'
        ctx.check(set(wkeys) == set(fields), 'R6', cons,
                  f'writer fills {sorted(wkeys)} but the representation struct has fields {fields}: tstruct._convert_to_encoding indexes value[field] for every field (KeyError) / ignores extras',
                  m.path, d.lineno, detail={'fields': fields})
        # reader
        rrec = cr.facts['recs'][0]
        bound = rrec[2]['bind']
        ctx.need(bound is not None, f'{cname}.{FROM}: decoded struct is not bound to a name')
        rets = [n for n in pf.walk_shallow(cr.fn) if isinstance(n, ast.Return) and n.value is not None]
        ctx.need(len(rets) == 1 and isinstance(rets[0].value, ast.Call) and W.value_class_of_call(rets[0].value), f'{cname}.{FROM}: does not return a value-class constructor call')
        ctor = rets[0].value
        vc = W.value_class(W.value_class_of_call(ctor))
        rattr: Dict[str, str] = {}
        for a in list(ctor.args) + [k.value for k in ctor.keywords]:
            if isinstance(a, ast.Attribute) and isinstance(a.value, ast.Name) and a.value.id == bound:
                rattr[a.attr] = vc.param_of_arg(ctor, a)
        ctx.check(set(rattr) == set(fields), 'R6', f'{F}::{cname}::fields read back',
                  f'reader takes {sorted(rattr)} from the decoded struct, the representation has {fields}: ' +
                  (f'{sorted(set(rattr) - set(fields))} does not exist (AttributeError)' if set(rattr) - set(fields) else f'{sorted(set(fields) - set(rattr))} is dropped'),
                  m.path, ctor.lineno)
        for prm_, ok_, what_ in W.type_params_passed(classes, cname, cr.fn, ctor, vc):
            ctx.need(ok_ is not None, f'{cname}.{FROM}: the {vc.name} is built with {prm_} = {what_}: not recognised as the type\'s own {prm_} nor as something else')
            ctx.check(ok_, 'R6', f'{F}::{cname}.{FROM}::{vc.name}({prm_}=) comes from the type',
                      f'{cname}.{FROM} builds the {vc.name} with {prm_} = {what_} instead of self.{prm_}: the bytes do not carry the {prm_}, so a value of {cname}<X> decodes with another {prm_}',
                      m.path, ctor.lineno, detail={'param': prm_})
        eng_names = _engine_field_names(es, armname)
        ctx.need(eng_names is not None and len(eng_names) == len(fields), f'{ETYPE}: arm {armname} has no literal field list of length {len(fields)}')
        for i, f_ in enumerate(fields):
            if f_ not in wkeys or f_ not in rattr:
                ctx.ok('R6', f'{F}::{cname}::role of field {f_!r}', 'not comparable (reported above)', nontrivial=False)
                continue
            src = wkeys[f_]
            ctx.need(isinstance(src, ast.Attribute) and isinstance(src.value, ast.Name) and src.value.id == cw.value, f'{cname}.{TO}: field {f_!r} is filled from `{pf.nsrc(src)}`')
            a_w, a_r = vc.attr_for_prop(src.attr), vc.attr_for_param(rattr[f_])
            ctx.need(a_w is not None and a_r is not None, f'{vc.name}: cannot resolve property {src.attr} / parameter {rattr[f_]}')
            msg = []
            if a_w != a_r:
                msg.append(f'field {f_!r} is written from {vc.name}.{src.attr} but read back into constructor parameter `{rattr[f_]}`')
            if _norm_name(eng_names[i]) != _norm_name(src.attr):
                msg.append(f'position {i} of the representation carries {vc.name}.{src.attr} but the engine reads position {i} as `{eng_names[i]}`')
            ctx.check(not msg, 'R6', f'{F}::{cname}::role of field {f_!r}', '; '.join(msg) + f': the {vc.name} arrives with its components exchanged', m.path, src.lineno,
                      detail={'attr': src.attr, 'param': rattr[f_], 'engine_field': eng_names[i]})


# --------------------------------------------------------------------------------------
# R7 entry points
# --------------------------------------------------------------------------------------


def _tokens_of_case(rel: str, label: str) -> str:
    """Text (tokens joined by single spaces removed) of the arm `case "<label>" => …` up to the next `case` at the same depth."""
    sf = S.load(rel)
    t = sf.raw
    hits = [i for i in range(len(t) - 2) if t[i][0] == 'kw' and t[i][1] == 'case' and t[i + 1][0] == 'str' and t[i + 1][1] == f'"{label}"' and t[i + 2][1] == '=>']
    if len(hits) != 1:
        raise AnalysisError(f'{rel}: expected exactly one `case "{label}" =>`, found {len(hits)}')
    j = hits[0] + 3
    depth = 0
    out = []
    while j < len(t):
        k, x, _ = t[j]
        if k == 'p' and x in '([{':
            depth += 1
        elif k == 'p' and x in ')]}':
            if depth == 0:
                break
            depth -= 1
        elif k == 'kw' and x == 'case' and depth == 0:
            break
        if k != 'nl':
            out.append(x)
        j += 1
    return ''.join(out)


B64_STANDARD = {'base64.b64encode', 'base64.standard_b64encode', 'b64encode', 'standard_b64encode'}
B64_OTHER = {'urlsafe_b64encode', 'b32encode', 'b32hexencode', 'b16encode', 'a85encode', 'b85encode', 'z85encode', 'encodebytes', 'encodestring', 'hexlify', 'b2a_hex', 'b2a_base64'}
ASCII_SUPERSETS = {'utf-8', 'utf8', 'ascii', 'us-ascii', 'latin-1', 'latin1', 'iso-8859-1'}


def _scala_vals(stmts: Sequence[tuple]) -> Dict[str, tuple]:
    out: Dict[str, tuple] = {}
    for st in stmts:
        if st and st[0] == 'val' and isinstance(st[1], str):
            out[st[1]] = X.from_scala(st[2])
    return out


def _r7(ctx: Ctx, m: pf.Module):
    # entry points are read in normal form with every single-definition local substituted (mode 'all': no byte stream is threaded through these
    # statements; `ByteWriter(buf)` / `_to_encoding(value)` held in a local are the call itself)
    em = N.normalise_module(m, lambda c, f: 'all' if (c == 'HailType' and f in ('_to_encoding', '_from_encoding')) else None, exclude=lambda n: n.startswith('_convert_'))
    base = W.methods(em.cls('HailType'))
    # _to_encoding / _from_encoding
    ctx.need('_to_encoding' in base and '_from_encoding' in base, 'anchor vanished: HailType._to_encoding/_from_encoding')
    te = base['_to_encoding']
    calls = {pf.nsrc(c) for c in pf.calls_in(te)}
    v = W.param_names(te)[1]
    bufs = [st.targets[0].id for st in te.body if isinstance(st, ast.Assign) and isinstance(st.targets[0], ast.Name) and pf.nsrc(st.value) == 'bytearray()']
    ok = len(bufs) == 1 and f'self._convert_to_encoding(ByteWriter({bufs[0]}), {v})' in calls and any(isinstance(s, ast.Return) and pf.nsrc(s.value) in (f'bytes({bufs[0]})', bufs[0]) for s in te.body)
    ctx.need(ok, f'{F}::HailType._to_encoding: not recognised as `buf = bytearray(); self._convert_to_encoding(ByteWriter(buf), {v}); return bytes(buf)`')
    ctx.ok('R7', f'{F}::HailType._to_encoding', 'returns the bytes _convert_to_encoding wrote into a fresh buffer')
    fe = base['_from_encoding']
    b = W.body_wo_doc(fe)
    p = W.param_names(fe)[1]
    ok = len(b) == 1 and isinstance(b[0], ast.Return) and b[0].value is not None and pf.nsrc(b[0].value) in (f'self._convert_from_encoding(ByteReader(memoryview({p})))', f'self._convert_from_encoding(ByteReader({p}))',
                                                                                                      f'self._convert_from_encoding(ByteReader(memoryview({p}), 0))', f'self._convert_from_encoding(ByteReader({p}, 0))')
    ctx.need(ok, f'{F}::HailType._from_encoding: not recognised as `return self._convert_from_encoding(ByteReader(memoryview({p})))`')
    ctx.ok('R7', f'{F}::HailType._from_encoding', 'decodes its whole argument from offset 0')
    # EncodedLiteral: the text it renders carries standard base64 of typ._to_encoding(value)
    im = N.normalise_module(pf.load(IRPY), lambda c, f: 'all' if (c == 'EncodedLiteral' and f in ('encoded_value', 'head_str')) else None)
    ev = im.func('EncodedLiteral.encoded_value')
    me = W.param_names(ev)[0]
    cands: List[ast.expr] = []
    for n in pf.walk_shallow(ev):
        if isinstance(n, ast.Assign) and len(n.targets) == 1 and pf.nsrc(n.targets[0]) == f'{me}._encoded_value':
            cands.append(n.value)
        elif isinstance(n, ast.Return) and n.value is not None and pf.nsrc(n.value) != f'{me}._encoded_value':
            cands.append(pf.resolve_expr(ev, n.value))
    cons = f'{IRPY}::EncodedLiteral.encoded_value'
    ctx.need(len(cands) >= 1, f'{cons}: no computation of the encoded text found')
    verdict: List[Tuple[Optional[bool], str]] = []
    for e in cands:
        inner = e
        if isinstance(inner, ast.Call) and isinstance(inner.func, ast.Attribute) and inner.func.attr == 'decode' and len(inner.args) <= 1 and not inner.keywords:
            codec = pf.const_str(inner.args[0]) if inner.args else 'utf-8'
            if codec is None or codec.lower().replace('_', '-') not in ASCII_SUPERSETS:
                verdict.append((None, f'decoded with `{pf.nsrc(inner.args[0]) if inner.args else ""}`'))
                continue
            inner = inner.func.value
        elif isinstance(inner, ast.Call) and pf.dotted(inner.func) == 'str' and len(inner.args) == 2 and pf.const_str(inner.args[1]) is not None:
            inner = inner.args[0]
        else:
            verdict.append((None, f'`{pf.nsrc(e)[:70]}` is not <base64 bytes>.decode(...)'))
            continue
        d = pf.dotted(inner.func) if isinstance(inner, ast.Call) else None
        if d is None or len(inner.args) != 1 or inner.keywords:
            verdict.append((None, f'`{pf.nsrc(inner)[:70]}` is not a one-argument encoder call'))
            continue
        if pf.nsrc(inner.args[0]) != f'{me}._typ._to_encoding({me}._value)':
            verdict.append((None, f'the bytes encoded are `{pf.nsrc(inner.args[0])[:60]}`, not {me}._typ._to_encoding({me}._value)'))
            continue
        if d in B64_STANDARD:
            verdict.append((True, d))
        elif d.split('.')[-1] in B64_OTHER:
            verdict.append((False, f'`{d}` is not the standard base64 alphabet / framing'))
        else:
            verdict.append((None, f'unknown encoder `{d}`'))
    bads = [t for k, t in verdict if k is False]
    if bads:
        ctx.bad('R7', cons, f'the literal is rendered with {bads[0]}; the engine decodes with java.util.Base64.getDecoder (standard alphabet, no line breaks): the bytes it gets are not '
                            f'self._typ._to_encoding(self._value)', im.path, ev.lineno)
    else:
        unk = [t for k, t in verdict if k is None]
        ctx.need(not unk, f'{cons}: {unk[0] if unk else ""}')
        ctx.ok('R7', cons, {'encoders': sorted({t for _, t in verdict})})
    hs = im.func('EncodedLiteral.head_str')
    rets = [n for n in pf.walk_shallow(hs) if isinstance(n, ast.Return) and n.value is not None]
    ctx.need(len(rets) == 1, f'{IRPY}::EncodedLiteral.head_str: expected one return')
    from engines import c32strdec as SDX
    from engines import strparts
    try:
        parts = strparts.parts(SDX.as_fstring(rets[0].value))
    except AnalysisError as e_:
        raise AnalysisError(f'{IRPY}::EncodedLiteral.head_str: {e_}')
    skeleton = [t if k == 'lit' else None for k, t in parts]
    holes = [t for k, t in parts if k == 'expr']
    hme = W.param_names(hs)[0]
    ctx.need(len(holes) == 2, f'{IRPY}::EncodedLiteral.head_str: renders {len(holes)} values, expected the type and the encoded text')
    ctx.need(holes[0] == f'{hme}._typ._parsable_string()' and holes[1] in (f'{hme}.encoded_value',),
             f'{IRPY}::EncodedLiteral.head_str: renders `{holes[0]}` and `{holes[1]}`, not recognised as the parsable type and the encoded_value property')
    ctx.check(skeleton == [None, ' "', None, '"'], 'R7', f'{IRPY}::EncodedLiteral.head_str',
              f'rendered as `{"".join(t if k == "lit" else "{" + t + "}" for k, t in parts)}`; the parser expects <type> "<base64>"', im.path, hs.lineno)
    # the parser arm: type first, standard base64, the Python-specific encoding of that type, an unframed stream
    arm = _tokens_of_case(PARSER, 'EncodedLiteral')
    pcons = f'{PARSER}::case "EncodedLiteral"'
    problems: List[str] = []
    unknown: List[str] = []
    i_t, i_s = arm.find('type_expr(it)'), arm.find('string_literal(it)')
    if i_t < 0 or i_s < 0:
        unknown.append('the reads of the type / the string literal are not found')
    elif i_s < i_t:
        problems.append('the parser reads the base64 string before the type (the text carries the type first)')
    import re as _re
    decs = set(_re.findall(r'Base64\.(get\w*)', arm))
    if not decs:
        unknown.append('no java.util.Base64 decoder found')
    elif decs != {'getDecoder'}:
        problems.append(f'the string is decoded with Base64.{sorted(decs - {"getDecoder"})[0]} (Python sends the standard alphabet without line breaks)')
    encs = set(_re.findall(r'EType\.(\w+)\(', arm))
    if not encs:
        unknown.append('no EType.<...>(typ) found')
    elif encs != {'fromPythonTypeEncoding'}:
        problems.append(f'the bytes are decoded with EType.{sorted(encs - {"fromPythonTypeEncoding"})[0]}, not with the Python-specific encoding EType.fromPythonTypeEncoding')
    specs = set(_re.findall(r'BufferSpec\.(\w+)', arm))
    if not specs:
        unknown.append('no BufferSpec.<...> found')
    elif specs != {'unblockedUncompressed'}:
        problems.append(f'the bytes are read through BufferSpec.{sorted(specs - {"unblockedUncompressed"})[0]} (Python sends raw bytes: no block framing, no compression)')
    if problems:
        ctx.bad('R7', pcons, '; '.join(problems) + ': the literal is not decoded with the Python-specific encoding of its own type over an unframed stream', repo_path(PARSER), 0)
    else:
        ctx.need(not unknown, f'{pcons}: {"; ".join(unknown)}')
        ctx.ok('R7', pcons, {'decoder': 'Base64.getDecoder', 'encoding': 'EType.fromPythonTypeEncoding', 'buffer_spec': 'unblockedUncompressed'})
    bs = X.from_scala(S.load(BUFSPEC).val('object:BufferSpec', 'unblockedUncompressed'))
    bcons = f'{BUFSPEC}::BufferSpec.unblockedUncompressed'
    if bs == ('new', 'StreamBufferSpec', []) or (bs[0] == 'call' and bs[1] == ('name', 'StreamBufferSpec') and not bs[2]):
        ctx.ok('R7', bcons, 'a plain StreamBufferSpec')
    else:
        # another buffer-spec constructor is a recognised, different framing; anything else is not understood
        other = bs[1] if bs[0] == 'new' and isinstance(bs[1], str) else (bs[1][1] if bs[0] == 'call' and bs[1][0] == 'name' else None)
        ctx.need(isinstance(other, str) and other.endswith('BufferSpec') and other != 'StreamBufferSpec', f'{bcons}: `{X.show(bs)}` is not recognised as a buffer spec constructor')
        ctx.bad('R7', bcons, f'unblockedUncompressed is `{X.show(bs)}`, not a plain StreamBufferSpec (Python sends raw bytes without block framing)', repo_path(BUFSPEC), 0)
    # results
    bm = pf.load(BACKEND)
    ex = bm.func('Backend.execute')
    decs_ = [c for c in pf.calls_in(ex) if isinstance(c.func, ast.Attribute) and c.func.attr in ('_from_encoding', '_from_json', '_convert_from_json_na', '_convert_from_encoding')]
    xcons = f'{BACKEND}::Backend.execute'
    ctx.need(len(decs_) >= 1, f'{xcons}: no decoding of the result found')
    codec = [k.value for c in pf.calls_in(ex) if (pf.dotted(c.func) or '').split('.')[-1] == 'ExecutePayload' for k in c.keywords if k.arg == 'stream_codec']
    ctx.need(len(codec) == 1, f'{xcons}: expected one ExecutePayload(stream_codec=...)')
    cexpr = pf.resolve_expr(ex, codec[0])
    if isinstance(cexpr, ast.Name):
        try:
            cexpr = bm.global_assign(cexpr.id)   # a module-level constant
        except AnalysisError:
            pass
    ctext = pf.const_str(cexpr)
    ctx.need(ctext is not None, f'{xcons}: stream_codec `{pf.nsrc(codec[0])[:60]}` is not a string literal')
    import json as _json
    try:
        cj = _json.loads(ctext)
    except ValueError:
        cj = None
    ctx.need(isinstance(cj, dict) and isinstance(cj.get('name'), str), f'{xcons}: stream_codec {ctext!r} is not a JSON object with a name')
    msg = []
    if cj != {'name': 'StreamBufferSpec'}:
        msg.append(f'results are requested with stream_codec {ctext!r} (a framed / compressed stream), but decoded as the raw bytes of an unframed StreamBufferSpec stream')
    wrong = [c for c in decs_ if c.func.attr != '_from_encoding']
    if wrong:
        msg.append(f'results are decoded with `{pf.nsrc(wrong[0].func)}`, not with _from_encoding')
    ctx.check(not msg, 'R7', xcons, '; '.join(msg), bm.path, ex.lineno)
    d = S.load(BACKSC).def_('object:Backend', 'encodeToOutputStream')
    body = X.from_scala(d.body)
    vals = _scala_vals(d.stmts())
    tcs = [n for n in S.walk(body) if n and n[0] == 'call' and n[1] == ('name', 'TypedCodecSpec')]
    scons = f'{BACKSC}::Backend.encodeToOutputStream'
    ctx.need(len(tcs) == 1 and len(tcs[0][2]) >= 1, f'{scons}: expected one TypedCodecSpec(...)')
    a0 = tcs[0][2][0][1]
    for _ in range(3):
        if a0[0] == 'name' and a0[1] in vals:
            a0 = vals[a0[1]]
    ctx.need(a0[0] == 'call' and a0[1][0] == 'name' and a0[1][1].startswith('EType.'), f'{scons}: the encoded type `{X.show(a0)}` is not an EType.<...>(...) call')
    ctx.check(a0[1][1] == 'EType.fromPythonTypeEncoding', 'R7', scons,
              f'results are encoded with `{X.show(tcs[0])}`, not with EType.fromPythonTypeEncoding of the result type', repo_path(BACKSC), d.line)


_PURITY_CONTROL = """
class HailType(object):
    pass
class tprobe(HailType):
    _seen = {}
    def _convert_from_encoding(self, byte_reader, _should_freeze=False):
        k = byte_reader.read_int32()
        v = tprobe._seen.get(k)
        if v is None:
            v = (k, self.param)
            tprobe._seen[k] = v
        return v
"""


def _r9(ctx: Ctx, m: pf.Module, classes: Dict[str, ast.ClassDef]):
    is_codec = lambda n: n in (TO, FROM, '_to_encoding', '_from_encoding')
    findings, n_methods = W.codec_state(m, classes, is_codec)
    ctx.need(n_methods >= 30, f'expected >= 30 binary converter methods, found {n_methods}')
    flagged = set()
    undecided = []
    for f in findings:
        if f.kind == 'violation':
            ctx.bad('R9', f.construct, f.message, m.path, f.line, f.detail)
            flagged.add(f.construct.split('::')[1])
        elif f.kind == 'ok':
            ctx.ok('R9', f.construct, f.message)
        else:
            undecided.append(f.message)
    for cname, c in list(classes.items()) + [('HailType', m.cls('HailType'))]:
        for nm in W.methods(c):
            if is_codec(nm) and f'{cname}.{nm}' not in flagged:
                ctx.ok('R9', f'{F}::{cname}.{nm}::pure', 'no state that outlives the call flows into the result')
    # the literal entry point: the text EncodedLiteral sends must be the encoding of the value it wraps NOW - a memo of encoded texts has to be keyed by
    # every input of the text (the type and the value's content; the identity of a mutable value is not its content)
    im = pf.load(IRPY)
    try:
        lit = {'EncodedLiteral': im.cls('EncodedLiteral')}
    except AnalysisError:
        lit = {}
    ctx.need(lit, f'anchor vanished: {IRPY}::EncodedLiteral')
    is_entry = lambda n: n in ('encoded_value', 'head_str', 'copy', '_eq')
    lf, n_entry = W.codec_state(im, lit, is_entry)
    ctx.need(n_entry >= 2, f'{IRPY}::EncodedLiteral: encoded_value / head_str not found')
    for f in lf:
        if f.kind == 'violation':
            ctx.bad('R9', f.construct, f.message + ' (a literal over a python object that was mutated in place since it was first rendered is sent with its OLD contents)'
                    if 'id(' in f.message else f.message, im.path, f.line, f.detail)
        elif f.kind == 'ok':
            ctx.ok('R9', f.construct, f.message)
        else:
            undecided.append(f.message)
    cm = pf.Module('<control>', '<control>', _PURITY_CONTROL, ast.parse(_PURITY_CONTROL))
    cf, _ = W.codec_state(cm, W.hail_type_classes(cm), is_codec)
    ctx.need(any(f.kind == 'violation' and 'self.param' in f.message for f in cf), 'internal: purity analysis does not flag its positive control')
    ctx.ok('R9', 'positive control: class-level memo keyed without a type parameter', 'flagged', nontrivial=False)
    ctx.need(not undecided, undecided[0] if undecided else '')


# --------------------------------------------------------------------------------------
# R10 freeze duty of container decoders
# --------------------------------------------------------------------------------------
#
# tset / tdict decode their elements / keys with _should_freeze=True (R2 checks that) because those values are hashed.  A decoder that
# builds a mutable container (list, set, dict) must therefore hand back a frozen one on EVERY path on which the flag may be true - an
# early return (fast path, empty-input shortcut) placed before the freeze decision skips it.  Decided by an abstract execution of the
# decoder: the state is (what is known about the flag: T / F / ?, kind of every local: H frozen-by-construction | U mutable container
# | ? unknown); tests on the flag split the state; helpers (same class, module level, stream class) are summarised the same way.

FROZEN_CTORS = {'frozenlist', 'frozenset', 'frozendict', 'tuple', 'Struct', 'hl.Struct', 'hl.utils.Struct', 'str', 'int', 'float', 'bool', 'bytes', 'complex'}
MUTABLE_CTORS = {'list': 'list', 'set': 'set', 'dict': 'dict', 'bytearray': 'bytearray', 'sorted': 'list', 'collections.OrderedDict': 'dict', 'OrderedDict': 'dict',
                 'collections.defaultdict': 'dict', 'defaultdict': 'dict', 'collections.deque': 'deque', 'deque': 'deque'}
MUTABLE_METHODS = {'tolist': 'list', 'split': 'list', 'rsplit': 'list', 'splitlines': 'list'}
HASHABLE_METHODS = {'decode', 'tobytes', 'unpack', 'unpack_from', 'hex', 'join', 'format', 'strip', 'lower', 'upper', 'item'}
H_, Q_ = ('H', ''), ('?', '')


class _FreezeWalk:
    def __init__(self, m: pf.Module, cname: Optional[str], fn: pf.FuncDef, flag: Optional[str], stream: Optional[str], depth: int = 0):
        self.m, self.cname, self.fn, self.flag, self.stream, self.depth = m, cname, fn, flag, stream, depth
        self.returns: List[Tuple[str, frozenset, ast.Return]] = []
        self.decisions: List[ast.AST] = []
        self.loop_exits: List[List[tuple]] = []
        self.where = f'{m.rel}::{(cname + ".") if cname else ""}{fn.name}'

    def fail(self, node: Optional[ast.AST], msg: str):
        raise AnalysisError(f'{self.where} (line {getattr(node, "lineno", self.fn.lineno)}): freeze analysis: {msg}')

    # ---- tests on the flag ---------------------------------------------------------
    def flag_atom(self, t: ast.AST) -> Optional[bool]:
        """polarity when `t` is true exactly when the flag is true (True) / false (False); None when t is not such an atom"""
        if self.flag is None:
            return None
        if isinstance(t, ast.Name) and t.id == self.flag:
            return True
        if isinstance(t, ast.UnaryOp) and isinstance(t.op, ast.Not):
            a = self.flag_atom(t.operand)
            return None if a is None else (not a)
        if isinstance(t, ast.Call) and pf.dotted(t.func) == 'bool' and len(t.args) == 1 and not t.keywords:
            return self.flag_atom(t.args[0])
        if isinstance(t, ast.Compare) and len(t.ops) == 1 and isinstance(t.left, ast.Name) and t.left.id == self.flag and isinstance(t.comparators[0], ast.Constant) \
                and isinstance(t.comparators[0].value, bool):
            c = t.comparators[0].value
            if isinstance(t.ops[0], (ast.Is, ast.Eq)):
                return c
            if isinstance(t.ops[0], (ast.IsNot, ast.NotEq)):
                return not c
        return None

    def classify(self, t: ast.AST) -> Tuple[str, Optional[bool]]:
        """('none', None): flag not consulted | ('exact', pol) | ('and', pol): true => flag == pol | ('or', pol): false => flag != pol"""
        if self.flag is None or not W.mentions(t, self.flag):
            return 'none', None
        a = self.flag_atom(t)
        if a is not None:
            return 'exact', a
        if isinstance(t, ast.BoolOp):
            pols = [self.flag_atom(v) for v in t.values if W.mentions(v, self.flag)]
            if len(pols) == 1 and pols[0] is not None:
                return ('and' if isinstance(t.op, ast.And) else 'or'), (pols[0] if isinstance(t.op, ast.And) else pols[0])
        self.fail(t, f'the freeze flag is consulted in an unrecognised test `{pf.nsrc(t)[:80]}`')
        return 'none', None

    @staticmethod
    def _fz(pol: bool) -> str:
        return 'T' if pol else 'F'

    def split(self, t: ast.AST, fz: str) -> Tuple[Optional[str], Optional[str]]:
        """(flag knowledge in the then-branch, in the else-branch); None = branch unreachable in this state"""
        kind, pol = self.classify(t)
        if kind == 'none':
            return fz, fz
        self.decisions.append(t)
        if kind == 'exact':
            th, el = self._fz(pol), self._fz(not pol)
            return (th if fz in ('?', th) else None), (el if fz in ('?', el) else None)
        if kind == 'and':
            th = self._fz(pol)
            return (th if fz in ('?', th) else None), fz
        el = self._fz(not pol)      # 'or': the test is false only when the flag differs from pol
        return fz, (el if fz in ('?', el) else None)

    # ---- kinds -----------------------------------------------------------------------
    def kind(self, e: Optional[ast.AST], env: Dict[str, frozenset], fz: str) -> frozenset:
        if e is None or isinstance(e, (ast.Constant, ast.JoinedStr, ast.Tuple, ast.Compare)):
            return frozenset([H_])
        if isinstance(e, ast.Name):
            return env.get(e.id, frozenset([Q_]))
        if isinstance(e, (ast.List, ast.ListComp)):
            return frozenset([('U', f'list `{pf.nsrc(e)[:60]}`')])
        if isinstance(e, (ast.Set, ast.SetComp)):
            return frozenset([('U', f'set `{pf.nsrc(e)[:60]}`')])
        if isinstance(e, (ast.Dict, ast.DictComp)):
            return frozenset([('U', f'dict `{pf.nsrc(e)[:60]}`')])
        if isinstance(e, ast.NamedExpr):
            return self.kind(e.value, env, fz)
        if isinstance(e, ast.IfExp):
            th, el = self.split(e.test, fz)
            out: frozenset = frozenset()
            if th is not None:
                out |= self.kind(e.body, env, th)
            if el is not None:
                out |= self.kind(e.orelse, env, el)
            return out
        if isinstance(e, ast.BoolOp):
            out = frozenset()
            for v in e.values:
                out |= self.kind(v, env, fz)
            return out
        if isinstance(e, ast.BinOp):
            ks = self.kind(e.left, env, fz) | self.kind(e.right, env, fz)
            us = frozenset(k for k in ks if k[0] == 'U')
            return us or frozenset([Q_])
        if isinstance(e, ast.Call):
            d = pf.dotted(e.func)
            if d in FROZEN_CTORS or W.value_class_of_call(e):
                return frozenset([H_])
            if d in MUTABLE_CTORS:
                return frozenset([('U', f'{MUTABLE_CTORS[d]} `{pf.nsrc(e)[:60]}`')])
            if d in ('struct.unpack', 'struct.unpack_from', 'len', 'sum', 'min', 'max', 'abs', 'round', 'repr', 'hash', 'id'):
                return frozenset([H_])
            f = e.func
            if isinstance(f, ast.Attribute):
                if f.attr == 'copy' and not e.args:
                    return self.kind(f.value, env, fz)
                if f.attr == '_convert_from_encoding':
                    return frozenset([Q_])   # delegated decode: the nested type's own duty (R2 checks that the flag is forwarded)
                if isinstance(f.value, ast.Name) and f.value.id == self.stream and f.attr in W.READ_KINDS:
                    return frozenset([H_])
                if isinstance(f.value, ast.Name) and f.value.id == self.stream and f.attr == 'read_bytes':
                    return frozenset([H_])
                if f.attr in HASHABLE_METHODS:
                    return frozenset([H_])
                if f.attr in MUTABLE_METHODS:
                    return frozenset([('U', f'{MUTABLE_METHODS[f.attr]} `{pf.nsrc(e)[:60]}`')])
            s = self.summary(e, fz, env)
            if s is not None:
                return s
        return frozenset([Q_])

    def summary(self, call: ast.Call, fz: str, env: Dict[str, frozenset]) -> Optional[frozenset]:
        """kinds a same-module helper (method of the class / of the stream class, module-level function) may return, given what is known about the flag"""
        if self.depth >= 2:
            return None
        f = call.func
        target: Optional[pf.FuncDef] = None
        owner: Optional[str] = None
        skip = 0
        if isinstance(f, ast.Attribute) and isinstance(f.value, ast.Name):
            ps = W.param_names(self.fn)
            if self.cname and ps and f.value.id == ps[0]:
                hit = _mro_method(self.m, self.cname, f.attr)
                if hit is not None:
                    owner, target = hit
                    skip = 0 if 'staticmethod' in pf.decorator_names(target) else 1
            elif f.value.id == self.stream and self.stream is not None:
                c = W.stream_class(self.m, 'r')
                if c is not None and f.attr in W.methods(c):
                    owner, target, skip = c.name, W.methods(c)[f.attr], 1
                    mod = pf.load(W.STREAM_FILE)
                    return _FreezeWalk(mod, owner, target, None, None, self.depth + 1).result(fz)
            else:
                hit = _mro_method(self.m, f.value.id, f.attr)
                if hit is not None:
                    owner, target = hit
                    skip = 0 if 'staticmethod' in pf.decorator_names(target) else 1
                    if skip:
                        return None   # Cls.method(obj, ...) on an instance method: not a shape worth modelling
        elif isinstance(f, ast.Name):
            for st in self.m.tree.body:
                if isinstance(st, ast.FunctionDef) and st.name == f.id:
                    target = st
        if target is None:
            return None
        if any(d not in ('staticmethod', 'typecheck', 'typecheck_method') for d in pf.decorator_names(target)) or target.args.vararg or target.args.kwarg:
            return None
        if any(isinstance(n, (ast.Yield, ast.YieldFrom)) for n in pf.walk_shallow(target)):
            return None
        params = W.param_names(target)[skip:]
        cflag = None
        init: Dict[str, frozenset] = {}
        if any(isinstance(a, ast.Starred) for a in call.args) or any(k.arg is None for k in call.keywords):
            return None
        for prm, a in list(zip(params, call.args)) + [(k.arg, k.value) for k in call.keywords if k.arg in params]:
            if self.flag is not None and isinstance(a, ast.Name) and a.id == self.flag:
                cflag = prm
            else:
                init[prm] = self.kind(a, env, fz)
        sub = _FreezeWalk(self.m, owner, target, cflag, None, self.depth + 1)
        return sub.result(fz if cflag is not None else '?', init)

    def result(self, fz: str, init: Optional[Dict[str, frozenset]] = None) -> frozenset:
        """join of the kinds of every return reachable when the function is entered with flag knowledge fz and argument kinds `init`
        (falling off the end returns None = H)"""
        self.run(fz, init)
        out: frozenset = frozenset()
        for _, ks, _ in self.returns:
            out |= ks
        return out or frozenset([H_])

    # ---- statements --------------------------------------------------------------------
    @staticmethod
    def merge(states: List[tuple]) -> List[tuple]:
        by: Dict[str, Dict[str, frozenset]] = {}
        for fz, env in states:
            if fz not in by:
                by[fz] = dict(env)
            else:
                cur = by[fz]
                for k in set(cur) | set(env):
                    cur[k] = cur.get(k, frozenset([Q_])) | env.get(k, frozenset([Q_]))
        return [(fz, env) for fz, env in by.items()]

    def run(self, fz: str = '?', init: Optional[Dict[str, frozenset]] = None) -> None:
        if self.flag is not None:
            for n in pf.walk_shallow(self.fn):
                if isinstance(n, ast.Name) and n.id == self.flag and isinstance(n.ctx, (ast.Store, ast.Del)):
                    self.fail(n, f'the freeze flag `{self.flag}` is rebound')
        self.returns = []
        self.walk(W.body_wo_doc(self.fn), [(fz, dict(init or {}))])

    def bind(self, t: ast.AST, ks: frozenset, env: Dict[str, frozenset]) -> None:
        if isinstance(t, ast.Name):
            env[t.id] = ks
        elif isinstance(t, (ast.Tuple, ast.List)):
            for x in t.elts:
                self.bind(x.value if isinstance(x, ast.Starred) else x, frozenset([Q_]), env)

    def walk(self, stmts: Sequence[ast.stmt], states: List[tuple]) -> List[tuple]:
        for st in stmts:
            if not states:
                break
            states = self.step(st, states)
        return states

    def step(self, st: ast.stmt, states: List[tuple]) -> List[tuple]:
        if isinstance(st, (ast.Return, ast.Assign, ast.AnnAssign)) and st.value is not None and self.flag is not None and W.mentions(st.value, self.flag):
            # an expression that consults the flag (conditional expression, helper that receives it): decide it per valuation of the flag
            states = [s2 for fz, env in states for s2 in ([('T', env), ('F', dict(env))] if fz == '?' else [(fz, env)])]
        if isinstance(st, ast.Return):
            for fz, env in states:
                self.returns.append((fz, self.kind(st.value, env, fz), st))
            return []
        if isinstance(st, ast.Raise):
            return []
        if isinstance(st, (ast.Break, ast.Continue)):
            if not self.loop_exits:
                self.fail(st, 'break/continue outside a loop')
            self.loop_exits[-1] += states
            return []
        if isinstance(st, ast.Assign):
            out = []
            for fz, env in states:
                env = dict(env)
                ks = self.kind(st.value, env, fz)
                for t in st.targets:
                    self.bind(t, ks, env)
                out.append((fz, env))
            return out
        if isinstance(st, ast.AnnAssign):
            if st.value is None:
                return states
            out = []
            for fz, env in states:
                env = dict(env)
                self.bind(st.target, self.kind(st.value, env, fz), env)
                out.append((fz, env))
            return out
        if isinstance(st, ast.If):
            out = []
            for fz, env in states:
                th, el = self.split(st.test, fz)
                if th is not None:
                    out += self.walk(st.body, [(th, dict(env))])
                if el is not None:
                    out += self.walk(st.orelse, [(el, dict(env))])
            return self.merge(out)
        if isinstance(st, (ast.For, ast.AsyncFor, ast.While)):
            cur = states
            exits: List[tuple] = []
            for _ in range(4):
                self.loop_exits.append([])
                entry = []
                for fz, env in cur:
                    env = dict(env)
                    if not isinstance(st, ast.While):
                        self.bind(st.target, frozenset([Q_]), env)
                    entry.append((fz, env))
                body_out = self.walk(st.body, entry)
                exits = self.loop_exits.pop()
                nxt = self.merge(cur + body_out)
                if sorted((fz, sorted((k, sorted(v)) for k, v in env.items())) for fz, env in nxt) == sorted((fz, sorted((k, sorted(v)) for k, v in env.items())) for fz, env in cur):
                    break
                cur = nxt
            after = self.merge(cur + exits)
            return self.merge(self.walk(st.orelse, after) + (exits if st.orelse else [])) if st.orelse else after
        if isinstance(st, (ast.With, ast.AsyncWith)):
            out = []
            for fz, env in states:
                env = dict(env)
                for it in st.items:
                    if it.optional_vars is not None:
                        self.bind(it.optional_vars, frozenset([Q_]), env)
                out.append((fz, env))
            return self.walk(st.body, out)
        if isinstance(st, ast.Try):
            body_out = self.walk(st.body, states)
            mid = self.merge(states + body_out)
            outs = self.walk(st.orelse, body_out) if st.orelse else body_out
            for h in st.handlers:
                hs = []
                for fz, env in mid:
                    env = dict(env)
                    if h.name:
                        env[h.name] = frozenset([Q_])
                    hs.append((fz, env))
                outs = outs + self.walk(h.body, hs)
            outs = self.merge(outs)
            return self.walk(st.finalbody, outs) if st.finalbody else outs
        if isinstance(st, (ast.Expr, ast.Pass, ast.Assert, ast.Delete, ast.Global, ast.Nonlocal, ast.Import, ast.ImportFrom, ast.FunctionDef, ast.AsyncFunctionDef, ast.ClassDef, ast.AugAssign)):
            # `x += [...]` / x.append(...) keep the kind of x; nested definitions are not part of this function's control flow
            return states
        self.fail(st, f'unsupported statement {type(st).__name__}')
        return states


def _mro_method(m: pf.Module, cn: str, meth: str, seen: tuple = ()) -> Optional[Tuple[str, pf.FuncDef]]:
    top = {c.name: c for c in m.tree.body if isinstance(c, ast.ClassDef)}
    c = top.get(cn)
    if c is None or cn in seen:
        return None
    ms = W.methods(c)
    if meth in ms:
        return cn, ms[meth]
    for b in c.bases:
        d = pf.dotted(b)
        if d in top:
            r = _mro_method(m, d, meth, seen + (cn,))
            if r is not None:
                return r
    return None


def _r10(ctx: Ctx, m: pf.Module, classes: Dict[str, ast.ClassDef]):
    base = W.methods(m.cls('HailType'))
    ctx.need(FROM in base and len(W.param_names(base[FROM])) == 3, f'anchor vanished: HailType.{FROM}(self, byte_reader, _should_freeze)')
    flag_name = W.param_names(base[FROM])[2]
    n = 0
    for cname, c in classes.items():
        ms = W.methods(c)
        if FROM not in ms or W._only_raises(ms[FROM]):
            continue
        fn = ms[FROM]
        ps = W.param_names(fn)
        if fn.args.vararg is not None or len(ps) < 2:
            continue
        flag = ps[2] if len(ps) > 2 else None
        fw = _FreezeWalk(m, cname, fn, flag, ps[1])
        fw.run('?')
        produces = sorted({k[1] for _, ks, _ in fw.returns for k in ks if k[0] == 'U'})
        if not fw.decisions and not produces:
            continue   # scalars, value classes, tuples / Structs, pure delegation: nothing to freeze at this level
        n += 1
        cons = f'{F}::{cname}.{FROM}::freeze duty'
        if flag is None:
            ctx.bad('R10', cons, f'{cname}.{FROM} returns a mutable {produces[0] if produces else "container"} and has no `{flag_name}` parameter: tset / tdict cannot ask for a hashable value', m.path, fn.lineno)
            continue
        bad: List[str] = []
        und: List[str] = []
        good = 0
        line = fn.lineno
        for fz, ks, rnode in fw.returns:
            if fz == 'F':
                continue
            us = sorted(k[1] for k in ks if k[0] == 'U')
            when = f'{flag} = True' if fz == 'T' else f'{flag} unconstrained (no test of the flag lies on the way)'
            if us:
                line = rnode.lineno
                bad.append(f'`{pf.nsrc(rnode)[:90]}` (line {rnode.lineno}) is reached with {when} and returns a mutable {us[0]}')
            elif any(k[0] == '?' for k in ks):
                und.append(f'`{pf.nsrc(rnode)[:90]}` (line {rnode.lineno}), reached with {when}')
            else:
                good += 1
        if bad:
            ctx.bad('R10', cons, '; '.join(bad) + f': tset and tdict decode their elements / keys with {flag}=True because they hash them, so a {cname} value in such a position '
                    f'(e.g. set<{cname[1:] if cname.startswith("t") else cname}<...>> or a dict keyed by one) comes back unhashable and set(...) / d[key] = ... raises TypeError: unhashable type', m.path, line,
                    {'returns': [pf.nsrc(r)[:80] for _, _, r in fw.returns]})
            continue
        ctx.need(not und, f'{F}::{cname}.{FROM}: cannot decide whether the value returned by {und[0] if und else ""} is frozen (expression outside the table of constructors)')
        ctx.need(good >= 1, f'{F}::{cname}.{FROM}: no return is reachable with {flag} = True')
        ctx.ok('R10', cons, {'frozen_returns': good, 'mutable_kinds_when_not_asked': produces})
    ctx.need(n >= 3, f'expected the list / set / dict decoders (tarray, tset, tdict) to carry a freeze duty, found {n}')


def run(ctx: Ctx) -> None:
    ctx.level = 'other'
    ctx.explanation = ('Wire programs of _convert_to_encoding/_convert_from_encoding of every HailType subclass are extracted from the AST and compared; the engine layout per type is '
                       'extracted from EType.fromPythonTypeEncoding (Scala) through a frozen EType layout table; primitives, missing-bit addressing, ndarray order, representation '
                       'structs and the entry points are compared likewise. No repository code is run.')
    ctx.rule('R1', 'byte_reader read_X/write_X: same struct format, promised width/signedness, "="/"<" order, offset advances by the width', 15)
    ctx.rule('R2', 'wire program of the writer == wire program of the reader per class; both overridden together; presence tests guard the encoded component; freeze flags forwarded', 33)
    ctx.rule('R3', 'missing bits: element e <-> bit e%8 of byte e//8, LSB first, ceil(n/8) bytes (writer idiom, reader addressing, lookup_bit)', 7)
    ctx.rule('R4', 'layout of each Python type == frozen layout of the EType chosen by fromPythonTypeEncoding; every encodable Python type has an arm', 16)
    ctx.rule('R5', 'ndarray: int64 shape header, column-major element order on both sides, raw-buffer fast path dead or absent', 4)
    ctx.rule('R6', 'locus/interval: names written == representation fields == attributes read; attribute -> field -> constructor parameter and engine field name agree; type parameters of the value that take part in its equality come from self', 11)
    ctx.rule('R7', 'entry points use _to_encoding/_from_encoding, base64, fromPythonTypeEncoding and an unframed stream on both sides', 8)
    ctx.rule('R8', 'strings are utf-8 on both sides and the int32 prefix counts the encoded bytes', 2)
    ctx.rule('R9', 'purity: no binary converter reads back state that outlives the call unless it is a memo keyed by every input of the remembered value '
                   '(decoded bytes and type parameters such as self.reference_genome)', 30)
    ctx.rule('R10', 'freeze duty: a decoder that builds a list / set / dict returns a frozen (hashable) value on every path on which _should_freeze may be true '
                    '(tset / tdict decode elements and keys with the flag set because they hash them)', 3)
    ctx.assume('values are well-typed (e.g. the rank of an ndarray value equals the ndim of its type; struct values have every field; a tuple / struct value has exactly as many '
               'components as its type)')
    ctx.assume('a struct value is any Mapping with the declared keys (tstruct._typecheck_one_level tests key membership only): its own iteration order is not the declared field order')
    ctx.assume('frozen EType layouts: EArray/EUnsortedSet/EDictAsUnsortedArrayOfPairs = int32 n, ceil(n/8) missing bytes iff the element type is not required, present elements; '
               'EBaseStruct = one missing bit per non-required field then present fields; EBinary = int32 n + n bytes; ENDArrayColumnMajor = int64 per dimension + all elements')
    ctx.assume('the host is little-endian (struct "=" is native byte order with standard sizes)')
    m_raw = pf.load(F)
    raw_classes = W.hail_type_classes(m_raw)
    ctx.need(len(raw_classes) >= 20, f'expected >= 20 HailType subclasses in {F}, found {len(raw_classes)}')
    ctx.unit('files', 12)
    ctx.unit('classes', len(raw_classes))
    _r9(ctx, m_raw, raw_classes)   # first: an established history dependence is reported even if a later, shape-dependent rule declines
    # every other rule reads types.py in normal form (engines/c32norm.py, mode 'cheap': no call is moved, so the order of stream operations is untouched):
    # tuple assignments split, locals that hold a load chain (self._array_repr.element_type, self.element_type, ...) substituted, conditional-expression
    # returns and guard clauses (return / raise / continue) as if/else.  Helpers are inlined by the wire-program extractor where they receive the stream.
    m = N.normalise_module(m_raw, lambda c, f: 'cheap', inline=False, accumulate=False)
    classes = W.hail_type_classes(m)
    _r10(ctx, m, classes)  # likewise: a skipped freeze duty is not about bytes and is decided without the wire programs
    _freeze_forwarding(ctx, m, classes)
    _r1(ctx)
    canon = _python_side(ctx, m, classes)
    r2_failed = {i['construct'].split('::')[1] for i in ctx.instances if i['rule'] == 'R2' and not i['holds']}
    ctx.unit('wire_programs', 2 * len(canon))
    _r3(ctx, m, canon)
    _r8(ctx, m, canon)
    _r5(ctx, m, classes, canon)
    _r4(ctx, m, classes, canon, r2_failed)
    ps = PySigs(ctx, m, classes, canon)
    es = EngineSigs(ctx)
    _r6(ctx, m, classes, canon, ps, es)
    _r7(ctx, m)
