"""C34 Genotype call packing agrees with the engine.

Layout tables and index formulas are extracted from the Python syntax tree (expr/types.py `_tcall`, genetics/call.py) and from the
Scala text (variant/Call.scala, variant/Genotype.scala; narrow fail-closed extractors in engines/scalalite_enc.py) and compared:
  R1  bit layout {phased: bit 0, ploidy: 2 bits at shift 1, allele representation: shift 3} - Python writer, Python reader,
      Scala Call.apply / Call2.fromUnphasedDiploidGtIndex, Scala isPhased / ploidy / alleleRepr all agree and fields do not overlap
  R2  signed/unsigned bridge: the Python writer maps [2^31, 2^32) to negative int32 (same bits), the reader undoes it before shifting
  R3  diploid transform: phased (j,k) is stored as index(j, j+k) and decoded as (j, k-j) on both sides; unphased pairs are sorted
      (Python: Call.__init__, Scala: diploidGtIndexWithSwap); allele order [j,k] is kept
  R4  triangular index k(k+1)/2 + j: the Python and Scala formulas (forward and sqrt inverse) evaluate identically on
      every 0 <= j <= k <= 96 and at the boundary of the representable range, and are mutually inverse there
  R5  every `small_allele_pair[i]` / `smallAllelePair(i)` literal satisfies i = k(k+1)/2 + j, j <= k; tables agree on their
      common prefix; the table is consulted exactly for i < len(table)
  R6  allele-pair packing j | k << 16 is undone by the accessors (mask 0xFFFF, shift 16) on each side
  R7  the decoder as a decision list of terms: PathTerms rewrites every return path (nested / module-level / class-level helpers substituted)
      into a term over the signed word; per (ploidy, phased) case the word is the engine's field layout with 29 symbolic allele bits, and the
      term of the decoded call, evaluated over the exact bit-vector domain exprir.BV (sign extension included), must EQUAL the term the
      engine's extracted accessors (ploidy / isPhased / alleleRepr / allelePairUnchecked, AllelePair.j/k) yield - equality of terms is
      equality for all 2^29 allele-field values, bit 31 set included; the table/sqrt pair inverse is the uninterpreted symbol PAIR on both sides
  R8  the encoder as a decision list: per (ploidy, phased) case and symbolic alleles A0, A1 the term handed to write_int32 must be a signed
      32-bit value whose 32 bits EQUAL the term Call0 / Call1 / Call2 -> Call.apply / fromUnphasedDiploidGtIndex build (extracted from
      Call.scala); the triangular index is compared in polynomial normal form (Python // and JVM / agree on the non-negative operands in scope)
  R2 additionally tracks, per path of the decoder, how many low bits of each expression over the signed word agree with the engine's
      unsigned word (engines/exprir.SignDomain): a shift / comparison / index / decoded field that sees a still-signed value is reported
  R7 / R8 additionally: a test the bit-field / polynomial domain leaves open (`allele > 0xFFFF`) is decided as a SET - the interval(s) of one ranged
      quantity (an allele symbol over the engine's range for the case, a bit field whose free bits are its low bits) on which it holds; a path that
      raises, or an `assert` (of the converter or of a helper it calls) that fails, for values of that set which the engine represents is reported
  R9  purity: no state that outlives a conversion (module global, class attribute, mutable default, attribute of the type) flows into its result, unless
      it is a memo whose key determines every input of the remembered value; inputs are tracked per BIT of the word (decoder: `word >> 3` does not
      know the phased bit) and per access path of the call (encoder), through helpers, closures and control dependence (engines/c34deps.py)
  R10 domain: hail.genetics.Call.__init__ - which every Python call and every decoded word goes through - accepts every call the engine represents:
      per (ploidy, phased) the constructor is executed over an interval per allele (engine range: haploid 0..2^29-1, diploid indices with triangular
      representation <= 2^29-1); a raise / failing assert reached with a non-empty box that contains an engine call is reported (engines/c34dom.py)
Concrete words are used only to print a witness for a difference of terms that is already established; no verdict depends on them.
When a converter does not have the tabulated statement shape (early returns, inline formulas) the per-field Python instances of R1-R6 are
not produced and its behaviour is decided by R7 / R8 / R2-sign alone (announced as INFO and in the evidence).
Does not decide: floating-point exactness of allele_pair_sqrt beyond the evaluated points.
"""
from __future__ import annotations

import ast
from typing import Any, Dict, List, Optional, Tuple

from engines import c34deps as DP
from engines import c34dom as DOM
from engines import exprir as X
from engines import pyfacts as pf
from engines import scalalite_enc as S
from engines import wiresig as W
from engines.common import AnalysisError, Ctx

META = dict(
    category='other',
    text='Bit-field tables (shift, mask) and the gt-index formulas are extracted from both implementations and compared; formulas are '
         'compared by exhaustive evaluation of the extracted expression trees over 0<=j<=k<=96 plus the boundary of the 29-bit range, which '
         'is not the full quantifier (all representable calls), hence level "other".',
    note='Scala is read through engines/scalalite_enc.py: a tokeniser plus a parser for a small expression/statement subset, anchored on '
         'object/def/val names and failing closed (no Scala parser exists offline). Trusted: CPython ast, that tokeniser/parser, the evaluator in '
         'engines/exprir.py (JVM Int = 32-bit two\'s complement, Scala precedence by first operator character). Not decided: exactness of '
         'math.sqrt-based inversion outside the evaluated points.',
    technique='static analysis: cross-language extraction of bit layouts and index formulas + exhaustive evaluation of extracted expression trees on a finite domain; '
              'abstract comparison of the two converters with the engine over a bit-field domain (exact bit vectors with symbolic allele bits and sign fill, arithmetic '
              'terms in polynomial normal form, uninterpreted pair-inverse symbol), finite in (ploidy, phased) and covering every allele-field value; per-path sign / '
              'agreeing-bits abstract domain; interval (box) domain for the acceptance set of Call.__init__ and for range tests in the converters; per-bit / per-access-path '
              'may-dependence analysis for memo keys',
    design_ref='DESIGN.md §3 C34',
)

F = W.TYPES
CALLPY = W.VALUE_CLASS_FILES['Call']
CALLSC = 'hail/hail/src/is/hail/variant/Call.scala'
GENOSC = 'hail/hail/src/is/hail/variant/Genotype.scala'

MAX_REPR = (1 << 29) - 1  # engine: `(ar >>> 29) != 0` is fatal


# --------------------------------------------------------------------------------------
# small helpers over Python function bodies
# --------------------------------------------------------------------------------------


def _nested(fn: pf.FuncDef) -> Dict[str, pf.FuncDef]:
    return {s.name: s for s in fn.body if isinstance(s, ast.FunctionDef)}


def _ret_expr(ctx: Ctx, fn: pf.FuncDef, where: str) -> ast.expr:
    """Body = asserts / docstring / comments followed by exactly one `return e`."""
    b = [s for s in W.body_wo_doc(fn) if not isinstance(s, ast.Assert)]
    ctx.need(len(b) == 1 and isinstance(b[0], ast.Return) and b[0].value is not None, f'{where}: body is not (asserts;) return <expr>')
    return b[0].value


def _guards(par: Dict[ast.AST, ast.AST], node: ast.AST, stop: ast.AST) -> List[Tuple[ast.expr, bool]]:
    """Enclosing if-tests of node inside `stop`: [(test, taken_branch_is_body)] innermost last."""
    out: List[Tuple[ast.expr, bool]] = []
    cur = node
    while cur is not stop and cur in par:
        p = par[cur]
        if isinstance(p, ast.If):
            if any(cur is s for s in p.body):
                out.append((p.test, True))
            elif any(cur is s for s in p.orelse):
                out.append((p.test, False))
        elif isinstance(p, (ast.For, ast.While, ast.Try, ast.With)):
            raise AnalysisError(f'{F}: packing statement at line {getattr(node, "lineno", 0)} sits inside a loop/try (unrecognised idiom)')
        cur = p
    return list(reversed(out))


# --------------------------------------------------------------------------------------
# Python writer
# --------------------------------------------------------------------------------------


class PyWriter:
    def __init__(self, ctx: Ctx, m: pf.Module):
        self.fn = m.func('_tcall._convert_to_encoding')
        fn = self.fn
        prog = W.Extractor(m, '_tcall', fn, 'w').program()
        ctx.need(len(prog) == 1 and prog[0][0] == 'prim' and prog[0][1] == 'i32' and isinstance(prog[0][2]['arg'], ast.Name),
                 f'_tcall._convert_to_encoding: wire program is `{W.show_program(prog)}`, expected a single write_int32(<name>)')
        self.acc = prog[0][2]['arg'].id
        self.value = W.param_names(fn)[2]
        par = m.parents()
        self.fields: Dict[str, Tuple[int, tuple, ast.AST]] = {}
        self.wrap: Optional[ast.IfExp] = None
        self.wrap_node: Optional[ast.AST] = None
        init_seen = False
        self.nested = _nested(fn)
        for st in pf.walk_shallow(fn):
            if isinstance(st, ast.Assign) and any(isinstance(t, ast.Name) and t.id == self.acc for t in st.targets):
                if isinstance(st.value, ast.Constant) and st.value.value == 0 and not init_seen:
                    init_seen = True
                    continue
                ctx.need(self.wrap is None and isinstance(st.value, ast.IfExp) and not _guards(par, st, fn),
                         f'_tcall._convert_to_encoding: unrecognised assignment `{pf.nsrc(st)}` to the packed word')
                self.wrap = st.value
                self.wrap_node = st
            elif isinstance(st, ast.AugAssign) and isinstance(st.target, ast.Name) and st.target.id == self.acc:
                ctx.need(isinstance(st.op, ast.BitOr), f'_tcall._convert_to_encoding: packed word updated with `{pf.nsrc(st)}` (not |=)')
                ctx.need(self.wrap is None, '_tcall._convert_to_encoding: bits are ORed in after the signed wrap')
                g = _guards(par, st, fn)
                src, sh = X.placed(X.from_py(pf.expand_locals(fn, st.value)))
                gtxt = [(pf.nsrc(t), pos) for t, pos in g]
                v = self.value
                if not g and src == ('name', f'{v}.ploidy'):
                    key = 'ploidy'
                elif len(g) == 1 and gtxt[0] == (f'{v}.phased', True) and src == ('int', 1):
                    key = 'phased'
                elif g and all(isinstance(t, ast.Compare) for t, _ in g):
                    # chain of `value.ploidy == n` tests: the positive one names the ploidy
                    pos = [t for t, taken in g if taken]
                    ctx.need(len(pos) == 1 and isinstance(pos[0], ast.Compare) and len(pos[0].ops) == 1 and isinstance(pos[0].ops[0], ast.Eq)
                             and pf.nsrc(pos[0].left) == f'{v}.ploidy' and W.const_int(pos[0].comparators[0]) is not None,
                             f'_tcall._convert_to_encoding: guard of `{pf.nsrc(st)}` is not `{v}.ploidy == n`')
                    key = f'repr{W.const_int(pos[0].comparators[0])}'
                else:
                    raise AnalysisError(f'_tcall._convert_to_encoding: cannot classify `{pf.nsrc(st)}` under guards {gtxt}')
                ctx.need(key not in self.fields, f'_tcall._convert_to_encoding: field {key} is packed twice')
                self.fields[key] = (sh, src, st)
        ctx.need(init_seen, f'_tcall._convert_to_encoding: `{self.acc} = 0` not found')
        for k in ('phased', 'ploidy', 'repr1', 'repr2'):
            ctx.need(k in self.fields, f'_tcall._convert_to_encoding: no statement packs the {k} field')


class PyReader:
    def __init__(self, ctx: Ctx, m: pf.Module):
        self.fn = m.func('_tcall._convert_from_encoding')
        fn = self.fn
        prog = W.Extractor(m, '_tcall', fn, 'r').program()
        ctx.need(len(prog) == 1 and prog[0][0] == 'prim' and prog[0][1] == 'i32' and prog[0][2]['bind'],
                 f'_tcall._convert_from_encoding: wire program is `{W.show_program(prog)}`, expected a single <name> = read_int32()')
        self.word = prog[0][2]['bind']
        self.nested = _nested(fn)
        asg = pf.assignments(fn)
        # assignments to the word: the read, then (optionally) the unsigned bridge
        defs = asg.get(self.word, [])
        self.unwrap: Optional[ast.IfExp] = None
        others = [d for d in defs if d is not prog[0][2]['node']]
        ctx.need(len(others) <= 1, f'_tcall._convert_from_encoding: `{self.word}` is reassigned {len(others)} times')
        if others:
            ctx.need(isinstance(others[0], ast.IfExp), f'_tcall._convert_from_encoding: `{self.word}` reassigned to `{pf.nsrc(others[0])}` (unrecognised)')
            self.unwrap = others[0]
        # result constructor
        rets = [n for n in pf.walk_shallow(fn) if isinstance(n, ast.Return) and n.value is not None]
        ctx.need(len(rets) == 1 and isinstance(rets[0].value, ast.Call) and W.value_class_of_call(rets[0].value) == 'Call',
                 '_tcall._convert_from_encoding: does not end in `return genetics.Call(...)`')
        self.ctor = rets[0].value
        vc = W.value_class('Call')
        roles: Dict[str, ast.expr] = {}
        for a in list(self.ctor.args) + [k.value for k in self.ctor.keywords]:
            roles[vc.param_of_arg(self.ctor, a)] = a
        ctx.need(set(roles) == {'alleles', 'phased'}, f'_tcall._convert_from_encoding: Call(...) built with parameters {sorted(roles)}')
        self.roles = roles
        ctx.need(isinstance(roles['phased'], ast.Name) and isinstance(roles['alleles'], ast.Name), 'Call(...) arguments are not plain names')
        self.phased_var = roles['phased'].id
        pdef = pf.single_def(fn, self.phased_var)
        ctx.need(isinstance(pdef, ast.expr), f'`{self.phased_var}` has no unique definition')
        self.phased_expr = pdef
        # ploidy dispatch: if V == 0: A = [] elif V == 1: ... elif V == 2: ...
        avar = roles['alleles'].id
        self.alleles: Dict[int, Tuple[ast.expr, List[ast.stmt]]] = {}
        self.ploidy_var: Optional[str] = None
        chain = [s for s in fn.body if isinstance(s, ast.If) and any(isinstance(x, ast.Assign) and pf.nsrc(x.targets[0]) == avar for x in ast.walk(s))]
        ctx.need(len(chain) == 1, f'_tcall._convert_from_encoding: expected one if-chain assigning `{avar}`')
        cur: Optional[ast.stmt] = chain[0]
        while isinstance(cur, ast.If):
            t = cur.test
            ctx.need(isinstance(t, ast.Compare) and len(t.ops) == 1 and isinstance(t.ops[0], ast.Eq) and isinstance(t.left, ast.Name)
                     and W.const_int(t.comparators[0]) is not None, f'ploidy dispatch test `{pf.nsrc(t)}` is not `<name> == n`')
            ctx.need(self.ploidy_var in (None, t.left.id), 'ploidy dispatch tests different variables')
            self.ploidy_var = t.left.id
            asn = [x for x in cur.body if isinstance(x, ast.Assign) and pf.nsrc(x.targets[0]) == avar]
            ctx.need(len(asn) == 1, f'ploidy == {pf.nsrc(t.comparators[0])} branch does not assign `{avar}` exactly once')
            self.alleles[W.const_int(t.comparators[0])] = (asn[0].value, [x for x in cur.body if x is not asn[0]])
            if len(cur.orelse) == 1 and isinstance(cur.orelse[0], ast.If):
                cur = cur.orelse[0]
            else:
                ctx.need(all(isinstance(x, ast.Raise) for x in cur.orelse), 'ploidy dispatch: final else is not a raise')
                cur = None
        ctx.need(self.ploidy_var is not None, 'ploidy dispatch not found')
        pl = pf.single_def(fn, self.ploidy_var)
        ctx.need(isinstance(pl, ast.expr), f'`{self.ploidy_var}` has no unique definition')
        self.ploidy_expr = pl

    def helper(self, ctx: Ctx, m: pf.Module, name: str) -> pf.FuncDef:
        if name in self.nested:
            return self.nested[name]
        return m.func(name)


# --------------------------------------------------------------------------------------
# Scala side
# --------------------------------------------------------------------------------------


def _sc_ret(ctx: Ctx, d: S.ScalaDef, where: str) -> tuple:
    """Result expression of a def whose body is guards (if (...) fatal / throw / require / assert) followed by one expression."""
    st = d.stmts()
    ctx.need(st and st[-1][0] == 'expr', f'{where}: body does not end in an expression')
    return X.from_scala(st[-1][1])


def _sc_effect_only(st: tuple) -> bool:
    """statement that can only abort: `if (c) fatal(...)`, `if (c) { throw ... }`, require(...), assert(...)"""
    if st[0] == 'throw':
        return True
    if st[0] != 'expr':
        return False
    e = S.strip(st[1])
    if e[0] == 'call' and S.dotted(e[1]) in ('fatal', 'require', 'assert'):
        return True
    if e[0] == 'if' and e[3] is None:
        t = S.strip(e[2])
        if t[0] == 'call' and S.dotted(t[1]) in ('fatal',):
            return True
        if t[0] == 'block' and all(s[0] == 'throw' for s in t[1]):
            return True
        if t[0] == 'throw':
            return True
    return False


class ScalaCall:
    def __init__(self, ctx: Ctx):
        C = S.load(CALLSC)
        G = S.load(GENOSC)
        self.C, self.G = C, G
        # --- Call.apply(ar, phased, ploidy, errorID): var c = 0; c |= ... ; c
        d = C.def_('Call', 'apply')
        names = [p[0] for p in d.params]
        ctx.need(names[:3] == ['ar', 'phased', 'ploidy'], f'{CALLSC}::Call.apply parameters are {names}')
        self.apply_line = d.line
        acc = None
        self.w: Dict[str, Tuple[int, tuple]] = {}
        self.max_repr_shift: Optional[int] = None
        stmts = d.stmts()
        ctx.need(stmts and stmts[-1][0] == 'expr', f'{CALLSC}::Call.apply does not end in an expression')

        def classify(src: tuple, sh: int, guard: Optional[tuple]):
            nm = X.names(src)
            if src == ('name', 'phased.toInt') or src == ('sel', ('name', 'phased'), 'toInt'):
                key = 'phased'
            elif src == ('name', 'ploidy'):
                key = 'ploidy'
            elif src == ('name', 'ar'):
                key = 'repr'
            elif src[0] == 'int' and guard is not None:
                return  # saturating branch for ploidy > 2, unreachable after the range check
            else:
                raise AnalysisError(f'{CALLSC}::Call.apply: cannot classify `c |= {X.show(src)} << {sh}` ({nm})')
            ctx.need(key not in self.w, f'{CALLSC}::Call.apply packs {key} twice')
            self.w[key] = (sh, src)

        for st in stmts[:-1]:
            if st[0] == 'val' and X.from_scala(st[2]) == ('int', 0) and acc is None:
                acc = st[1]
            elif st[0] == 'aug' and st[1] == acc and st[2] == '|':
                src, sh = X.placed(X.from_scala(st[3]))
                classify(src, sh, None)
            elif _sc_effect_only(st):
                e = S.strip(st[1]) if st[0] == 'expr' else None
                # remember the representable range:  if ((ar >>> 29) != 0) fatal
                if e is not None and e[0] == 'if':
                    c = X.from_scala(e[1])
                    if c[0] == 'bin' and c[1] == '!=' and c[3] == ('int', 0) and c[2][0] == 'bin' and c[2][1] == '>>>' and c[2][2] == ('name', 'ar'):
                        self.max_repr_shift = c[2][3][1]
            elif st[0] == 'expr' and S.strip(st[1])[0] == 'if':
                e = S.strip(st[1])
                cond = X.from_scala(e[1])
                for br, taken in ((e[2], True), (e[3], False)):
                    if br is None:
                        continue
                    b = S.strip(br)
                    sub = b[1] if b[0] == 'block' else None
                    ctx.need(sub is not None and len(sub) == 1 and sub[0][0] == 'aug' and sub[0][1] == acc and sub[0][2] == '|',
                             f'{CALLSC}::Call.apply: unrecognised conditional branch')
                    src, sh = X.placed(X.from_scala(sub[0][3]))
                    # `if (ploidy > 2) c |= (3 << 1) else c |= (ploidy << 1)`: keep the branch that packs the parameter
                    classify(src, sh, cond if src[0] == 'int' else None)
            else:
                raise AnalysisError(f'{CALLSC}::Call.apply: unrecognised statement {st[0]}')
        ctx.need(acc is not None and X.from_scala(stmts[-1][1]) == ('name', acc), f'{CALLSC}::Call.apply does not return the packed word')
        for k in ('phased', 'ploidy', 'repr'):
            ctx.need(k in self.w, f'{CALLSC}::Call.apply does not pack {k}')
        ctx.need(self.max_repr_shift is not None, f'{CALLSC}::Call.apply: range check `(ar >>> n) != 0` not found')
        # --- readers
        self.r: Dict[str, Tuple[int, Optional[int]]] = {}
        d = C.def_('Call', 'isPhased')
        bf = X.bool_field(_sc_ret(ctx, d, 'Call.isPhased'), d.params[0][0])
        ctx.need(bf is not None, f'{CALLSC}::Call.isPhased is not a single-bit test')
        self.r['phased'] = bf
        d = C.def_('Call', 'ploidy')
        sm = X.shift_mask(_sc_ret(ctx, d, 'Call.ploidy'), d.params[0][0])
        ctx.need(sm is not None and sm[1] is not None, f'{CALLSC}::Call.ploidy is not (c >>> s) & m')
        self.r['ploidy'] = sm
        d = C.def_('Call', 'alleleRepr')
        e = _sc_ret(ctx, d, 'Call.alleleRepr')
        sm = X.shift_mask(e, d.params[0][0])
        ctx.need(sm is not None and sm[1] is None, f'{CALLSC}::Call.alleleRepr is not c >>> s')
        self.r['repr'] = sm
        self.repr_logical = e[0] == 'bin' and e[1] == '>>>'
        # --- Call2.fromUnphasedDiploidGtIndex(gt): ploidy << 1 | gt << 3
        d = C.def_('Call2', 'fromUnphasedDiploidGtIndex')
        env: Dict[str, tuple] = {}
        for st in d.stmts()[:-1]:
            if st[0] == 'val':
                env[st[1]] = X.from_scala(st[2])
            else:
                ctx.need(_sc_effect_only(st), f'{CALLSC}::Call2.fromUnphasedDiploidGtIndex: unrecognised statement')
        e = _sc_ret(ctx, d, 'Call2.fromUnphasedDiploidGtIndex')
        parts: List[tuple] = []

        def split_or(x: tuple):
            if x[0] == 'bin' and x[1] == '|':
                split_or(x[2])
                split_or(x[3])
            else:
                parts.append(x)

        split_or(e)
        self.w2: Dict[str, Tuple[int, Any]] = {}
        gt = d.params[0][0]
        for p in parts:
            src, sh = X.placed(p)
            if src == ('name', gt):
                self.w2['repr'] = (sh, src)
            elif src[0] == 'name' and src[1] in env and env[src[1]][0] == 'int':
                self.w2['ploidy'] = (sh, env[src[1]][1])
            elif src[0] == 'int':
                self.w2['ploidy'] = (sh, src[1])
            else:
                raise AnalysisError(f'{CALLSC}::Call2.fromUnphasedDiploidGtIndex: cannot classify `{X.show(p)}`')
        ctx.need(set(self.w2) == {'repr', 'ploidy'}, f'{CALLSC}::Call2.fromUnphasedDiploidGtIndex packs {sorted(self.w2)}')
        # --- Call2.apply / allelePairUnchecked
        d = C.def_('Call2', 'apply')
        self.call2 = d
        st = d.stmts()
        for s_ in st[:-1]:
            ctx.need(_sc_effect_only(s_), f'{CALLSC}::Call2.apply: unrecognised statement before the result')
        e = S.strip(st[-1][1])
        ctx.need(e[0] == 'if' and X.from_scala(e[1]) == ('name', 'phased') and e[3] is not None, f'{CALLSC}::Call2.apply is not `if (phased) … else …`')
        self.c2_ph = X.from_scala(e[2])
        self.c2_un = X.from_scala(e[3])
        d = C.def_('Call', 'allelePairUnchecked')
        self.apu = d
        # --- Call0 / Call1: which (ar, phased, ploidy) they hand to Call.apply
        self.ctor_args: Dict[int, Tuple[List[str], List[tuple]]] = {}
        for n_, obj in ((0, 'Call0'), (1, 'Call1')):
            d = C.def_(obj, 'apply')
            st = d.stmts()
            for s_ in st[:-1]:
                ctx.need(_sc_effect_only(s_), f'{CALLSC}::{obj}.apply: unrecognised statement before the result')
            ctx.need(st and st[-1][0] == 'expr', f'{CALLSC}::{obj}.apply does not end in an expression')
            a = X.from_scala(st[-1][1])
            ctx.need(a[0] == 'call' and a[1] == ('name', 'Call') and len(a[2]) == 3, f'{CALLSC}::{obj}.apply is not Call(ar, phased, ploidy = n)')
            order = {None: None}
            args = {}
            for i, (kw, v) in enumerate(a[2]):
                args[kw if kw is not None else names[i]] = v
            ctx.need(set(args) == {'ar', 'phased', 'ploidy'}, f'{CALLSC}::{obj}.apply passes {sorted(args)} to Call.apply')
            self.ctor_args[n_] = ([p[0] for p in d.params], [args['ar'], args['phased'], args['ploidy']])
        # --- Genotype.diploidGtIndex / diploidGtIndexWithSwap as trees
        gd = G.def_('Genotype', 'diploidGtIndex', n_params=2)
        for s_ in gd.stmts()[:-1]:
            ctx.need(_sc_effect_only(s_), f'{GENOSC}::Genotype.diploidGtIndex: unrecognised statement')
        self.gt_index = ([p[0] for p in gd.params], _sc_ret(ctx, gd, 'Genotype.diploidGtIndex'))
        gs = G.def_('Genotype', 'diploidGtIndexWithSwap')
        self.gt_index_swap = ([p[0] for p in gs.params], X.from_scala(gs.body))
        self.acc_trees = {}
        for k_, nm_ in (('phased', 'isPhased'), ('ploidy', 'ploidy'), ('repr', 'alleleRepr')):
            d = C.def_('Call', nm_)
            self.acc_trees[k_] = (d.params[0][0], _sc_ret(ctx, d, f'Call.{nm_}'))

    # ---- the engine's helper definitions as (parameters, IR body), for abstract evaluation over the bit-field domain ----
    def scala_funcs(self, ctx: Ctx) -> Dict[str, Tuple[List[str], tuple]]:
        G = self.G
        out: Dict[str, Tuple[List[str], tuple]] = {}
        for k_, nm_ in (('phased', 'isPhased'), ('ploidy', 'ploidy'), ('repr', 'alleleRepr')):
            prm, tree = self.acc_trees[k_]
            out[nm_] = ([prm], tree)
            out['Call.' + nm_] = ([prm], tree)
        out['Genotype.diploidGtIndex'] = out['diploidGtIndex'] = self.gt_index
        out['Genotype.diploidGtIndexWithSwap'] = out['diploidGtIndexWithSwap'] = self.gt_index_swap
        sa = G.def_('AllelePair', 'apply', n_params=2)
        for st in sa.stmts()[:-1]:
            ctx.need(_sc_effect_only(st), f'{GENOSC}::AllelePair.apply: unrecognised statement')
        out['AllelePair'] = ([p_[0] for p_ in sa.params], _sc_ret(ctx, sa, 'AllelePair.apply'))
        for nm_ in ('j', 'k'):
            d = G.def_('AllelePair', nm_, n_params=1)
            out['AllelePair.' + nm_] = ([d.params[0][0]], _sc_ret(ctx, d, 'AllelePair.' + nm_))
        out['allelePairUnchecked'] = out['Call.allelePairUnchecked'] = ([self.apu.params[0][0]], X.from_scala(self.apu.body))
        return out

    def field_layout(self, ctx: Ctx) -> Dict[str, Tuple[int, int]]:
        """field -> (shift, width) of the 32-bit word, from Call.apply's placements, the accessors' masks and the range check on `ar`"""
        lay = {'phased': (self.w['phased'][0], 1), 'ploidy': (self.w['ploidy'][0], (self.r['ploidy'][1] or 0).bit_length()), 'repr': (self.w['repr'][0], self.max_repr_shift)}
        used = sorted((sh, sh + wd, k) for k, (sh, wd) in lay.items())
        ctx.need(used[0][0] == 0 and all(used[i][1] == used[i + 1][0] for i in range(len(used) - 1)) and used[-1][1] == 32,
                 f'{CALLSC}: the fields placed by Call.apply {lay} do not tile the 32-bit word')
        return lay


def _call_args(e: tuple, fn_names: Tuple[str, ...]) -> Optional[List[tuple]]:
    if e[0] == 'call' and e[1][0] == 'name' and e[1][1] in fn_names:
        return [a for _, a in e[2]]
    return None


# --------------------------------------------------------------------------------------
# R7 / R8: the two converters as decision lists of terms over the bit-fields of the word (abstract comparison, all words)
# --------------------------------------------------------------------------------------
#
# The 32-bit word is the concatenation of the fields the engine places (layout read from Call.apply / the accessors).  Per case
# (ploidy in 0..2, phased in F/T) the ploidy and phased fields are constants and the allele field is 29 symbolic bits R[28..0].
# PathTerms rewrites each Python converter into per-path terms; TermEval evaluates those terms - and the engine's extracted Scala
# terms - over exprir.BV (exact bit vectors with a sign fill) and Poly (arithmetic in normal form).  Equal abstract values mean equal
# results for EVERY value of the symbolic bits.  A comparison that one symbolic bit decides (the sign bit of the word) splits the case
# on that bit.  The pair <-> representation functions are not evaluated: the table lookup / sqrt inverse is the uninterpreted symbol
# PAIR on both sides (their bodies are compared once by R4/R5), the triangular index is compared in polynomial normal form.
# Concrete words appear only in the witness printed for a violation that the abstract comparison has established.

CALL_CTORS = ('genetics.Call', 'Call', 'hl.Call', 'hl.genetics.Call', 'hail.genetics.Call')
PY_PAIR_FUNCS = {'allele_pair_sqrt': ('PAIR', 32)}
PY_PAIR_TABLES = {'small_allele_pair': ('PAIR', 32)}
SC_PAIR_FUNCS = {'Genotype.allelePair': ('PAIR', 32)}


# ---- dense integer ranges of the symbolic inputs of one case ---------------------------------------------------------------------------
# A comparison between ONE ranged quantity and a constant that the bit-field / polynomial domain leaves undecided (`allele > 0xFFFF`) is
# decided as a SET: the interval(s) of the quantity on which the test holds.  Ranged quantities: an allele symbol A_i (+ constant) whose
# range is the engine's domain for the case, and a bit vector whose free bits are exactly its low k bits (every value of the interval is
# attained by some assignment of the free bits).  Constraints on different allele symbols are independent (a box).

Intervals = List[Tuple[int, int]]


def _iv_and(a: Intervals, b: Intervals) -> Intervals:
    out = []
    for x in a:
        for y in b:
            lo, hi = max(x[0], y[0]), min(x[1], y[1])
            if lo <= hi:
                out.append((lo, hi))
    return sorted(out)


def _iv_not(a: Intervals, full: Tuple[int, int]) -> Intervals:
    out, cur = [], full[0]
    for lo, hi in sorted(a):
        if lo > cur:
            out.append((cur, min(lo - 1, full[1])))
        cur = max(cur, hi + 1)
    if cur <= full[1]:
        out.append((cur, full[1]))
    return [x for x in out if x[0] <= x[1]]


def _quantity(tp: X.TermEval, v: Any, sym_ranges: Dict[str, Tuple[int, int]]) -> Optional[Tuple[Any, int, int, Tuple[int, int]]]:
    """(quantity key, scale, base, dense range of the quantity q) with value == base + scale * q, or None"""
    if isinstance(v, X.BV):
        if v.fill != 0:
            return None
        free = [i for i, b in enumerate(v.bits) if b not in (0, 1)]
        if not free or free != list(range(free[0], free[0] + len(free))):
            return None
        lits = [v.bits[i] for i in free]
        if len({(b[1], b[2]) for b in lits}) != len(lits) or len({repr(b[1]) for b in lits}) != 1 or not isinstance(lits[0][1], str):
            return None      # (bits of an opaque arithmetic term are not known to take every combination)
        if sorted(b[2] for b in lits) != list(range(len(lits))) and sorted(b[2] for b in lits) != list(range(min(b[2] for b in lits), min(b[2] for b in lits) + len(lits))):
            return None
        base = sum(1 << i for i, b in enumerate(v.bits) if b == 1)
        return ('bv', v.key(), repr(lits[0][1])), 1 << free[0], base, (0, (1 << len(free)) - 1)
    if isinstance(v, X.Poly):
        sym, off = None, 0
        for mono, c in v.terms.items():
            if mono == ():
                off = c
            elif len(mono) == 1 and mono[0][1] == 1 and c == 1 and mono[0][0][0] == 'sym' and sym is None and mono[0][0][1] in sym_ranges:
                sym = mono[0][0][1]
            else:
                return None
        if sym is None:
            return None
        return ('sym', sym), 1, off, sym_ranges[sym]
    return None


def _truthset(tp: X.TermEval, c: tuple, sym_ranges: Dict[str, Tuple[int, int]]) -> Optional[Tuple[Any, Intervals, Tuple[int, int]]]:
    """(quantity, the intervals of its value on which the test c holds, its whole range) when c is a boolean combination of comparisons of one
    ranged quantity with constants; None otherwise"""
    k = c[0]
    if k == 'paren':
        return _truthset(tp, c[1], sym_ranges)
    if k == 'un' and c[1] == '!':
        r = _truthset(tp, c[2], sym_ranges)
        return None if r is None else (r[0], _iv_not(r[1], r[2]), r[2])
    if k == 'bin' and c[1] in ('&&', '||'):
        a, b = _truthset(tp, c[2], sym_ranges), _truthset(tp, c[3], sym_ranges)
        if a is None or b is None or a[0] != b[0]:
            return None
        if c[1] == '&&':
            return a[0], _iv_and(a[1], b[1]), a[2]
        return a[0], _iv_not(_iv_and(_iv_not(a[1], a[2]), _iv_not(b[1], a[2])), a[2]), a[2]
    if k == 'bin' and c[1] in ('<', '<=', '>', '>=', '==', '!='):
        try:
            l, r = tp.ev(c[2]), tp.ev(c[3])
        except (X.Undecided, X.PathRaises, AnalysisError):
            return None
        op = c[1]
        if isinstance(l, int) and not isinstance(l, bool):
            l, r, op = r, l, {'<': '>', '>': '<', '<=': '>=', '>=': '<=', '==': '==', '!=': '!='}[op]
        if not (isinstance(r, int) and not isinstance(r, bool)):
            return None
        q = _quantity(tp, l, sym_ranges)
        if q is None:
            return None
        key, scale, base, full = q
        # base + scale * q  op  r      (scale > 0):   q op' t
        d = r - base
        fl, ce = d // scale, -((-d) // scale)
        lo, hi = full
        ivs = {'<': [(lo, ce - 1)], '<=': [(lo, fl)], '>': [(fl + 1, hi)], '>=': [(ce, hi)],
               '==': [(fl, fl)] if d % scale == 0 else [], '!=': [(lo, fl - 1), (fl + 1, hi)] if d % scale == 0 else [(lo, hi)]}[op]
        return key, _iv_and(ivs, [full]), full
    return None


class Abstract:
    def __init__(self, ctx: Ctx, m: pf.Module, sc: ScalaCall):
        self.ctx, self.m, self.sc = ctx, m, sc
        self.dec = m.func('_tcall._convert_from_encoding')
        self.enc = m.func('_tcall._convert_to_encoding')
        self.layout = sc.field_layout(ctx)
        self.sfuncs = sc.scala_funcs(ctx)
        vc = W.value_class('Call')
        ctx.need(vc.params[:2] == ['alleles', 'phased'], f'{CALLPY}::Call.__init__ parameters are {vc.params}')
        self._paths: Dict[str, List[X.TermPath]] = {}

    # ---- Python side: per-path terms ----------------------------------------------------
    def resolver(self, fn: pf.FuncDef):
        m = self.m
        selfname = W.param_names(fn)[0]
        cls, base = m.cls('_tcall'), m.cls('HailType')

        def resolve(name: str):
            parts = name.split('.')
            if name in PY_PAIR_FUNCS:
                return None  # abstraction point: compared with the engine's helper by R4, not unfolded
            if len(parts) == 2 and parts[0] in (selfname, '_tcall', 'HailType'):
                for c in ((cls, base) if parts[0] != 'HailType' else (base,)):
                    f = W.methods(c).get(parts[1])
                    if f is not None and not parts[1].startswith('_convert_'):
                        if 'classmethod' in pf.decorator_names(f) or 'property' in pf.decorator_names(f):
                            return None
                        return (f, 0 if 'staticmethod' in pf.decorator_names(f) or parts[0] != selfname else 1)
                return None
            if len(parts) == 1 and any(isinstance(f, ast.FunctionDef) and f.name == name for f in m.tree.body):
                return (m.func(name), 0)
            return None
        return resolve

    def paths(self, which: str) -> Tuple[List[X.TermPath], X.PathTerms]:
        fn = self.dec if which == 'dec' else self.enc
        pt = X.PathTerms(f'{F}::_tcall.{fn.name}', W.param_names(fn)[1], resolver=self.resolver(fn), helper_asserts=True)
        return pt.run(fn, {}), pt

    # ---- the word --------------------------------------------------------------------------
    def word(self, ploidy: int, phased: bool, rep: X.BV) -> X.BV:
        """unsigned 32-bit word with the given field contents"""
        out = X.BV.const(0)
        for k, v in (('phased', X.BV.const(int(phased))), ('ploidy', X.BV.const(ploidy)), ('repr', rep)):
            sh, wd = self.layout[k]
            out = out.bor(X.BV(tuple(v.bit(i) for i in range(wd)), 0).shl(sh))
        return out

    def engine_apply(self, te: X.TermEval, ar: Any, phased: Any, ploidy: Any) -> X.BV:
        """Call.apply(ar, phased, ploidy) over the domain (field placements from the extracted table; the range checks are the scope)"""
        if not isinstance(phased, bool) or not isinstance(ploidy, int):
            raise AnalysisError(f'{CALLSC}: Call.apply reached with a non-constant ploidy / phased in the abstract evaluation')
        rep = te.to_bv(ar)
        wd = self.layout['repr'][1]
        if any(rep.bit(i) != 0 for i in range(wd, wd + 8)) or rep.fill != 0:
            raise AnalysisError(f'{CALLSC}: allele representation term `{te.show(ar)}` is not known to fit {wd} bits')
        return self.word(ploidy, phased, rep).wrap(32)

    # ---- splitting on single bits ----------------------------------------------------------------
    def split(self, run, assume: Dict[tuple, int], depth: int = 0) -> List[Tuple[Dict[tuple, int], Any]]:
        try:
            return [(dict(assume), run(assume))]
        except X.Undecided as u:
            if u.lit is None or depth >= 4:
                # single bits do not decide the test: decide it as a set of values of one ranged quantity (see _truthset)
                try:
                    return [(dict(assume), run(assume, True))]
                except X.Undecided as u2:
                    raise AnalysisError(f'{F}::_tcall: the abstract evaluation cannot decide {u2.what}')
            key = (u.lit[1], u.lit[2])
            out = []
            for v in (0, 1):
                a2 = dict(assume)
                a2[key] = v
                out += self.split(run, a2, depth + 1)
            return out

    # ---- feasible paths of a converter in one case ---------------------------------------------------------
    def feasible(self, tp: X.TermEval, paths: List[X.TermPath], sym_ranges: Dict[str, Tuple[int, int]], by_range: bool) -> List[Tuple[X.TermPath, Dict[Any, Tuple[Intervals, Tuple[int, int]]]]]:
        """paths whose conditions hold in this case: [(path, restriction)] - restriction: ranged quantity -> the intervals of its value for which the
        path is taken (empty dict: for every value).  by_range=False: every condition must be decided by the term domain (Undecided propagates and
        the caller splits on the bit); by_range=True: a condition the term domain leaves open is decided as a value set of one ranged quantity."""
        out = []
        for p in paths:
            restr: Dict[Any, Tuple[Intervals, Tuple[int, int]]] = {}
            ok = True
            for c, pol, _ in p.conds:
                try:
                    if tp.truth(tp.ev(c), c) != pol:
                        ok = False
                        break
                except X.Undecided:
                    if not by_range:
                        raise
                    ts = _truthset(tp, c, sym_ranges)
                    if ts is None:
                        raise
                    key, ivs, full = ts
                    if not pol:
                        ivs = _iv_not(ivs, full)
                    if key[0] == 'bv' and any(k2[0] == 'bv' and k2 != key and k2[2] == key[2] for k2 in restr):
                        raise      # two different functions of the same bits: not independent
                    cur = restr.get(key, ([full], full))[0]
                    ivs = _iv_and(cur, ivs)
                    if not ivs:
                        ok = False
                        break
                    if ivs != [full]:
                        restr[key] = (ivs, full)
            if ok:
                out.append((p, restr))
        return out

    def failing_assert(self, tp: X.TermEval, p: X.TermPath, restr: Dict[Any, Tuple[Intervals, Tuple[int, int]]], sym_ranges: Dict[str, Tuple[int, int]]) -> Optional[Tuple[tuple, Dict[Any, Tuple[Intervals, Tuple[int, int]]]]]:
        """an `assert` of the path (or of a helper it calls) that fails for values in scope: (assertion term, restriction under which it fails)"""
        for a in p.asserts:
            try:
                if not tp.truth(tp.ev(a), a):
                    return a, restr
                continue
            except X.PathRaises:
                continue
            except (X.Undecided, AnalysisError):
                pass
            try:
                ts = _truthset(tp, a, sym_ranges)
            except (X.Undecided, AnalysisError):
                ts = None
            if ts is None:
                continue      # not decided: neither reported nor relied upon
            key, ivs, full = ts
            bad = _iv_and(restr.get(key, ([full], full))[0], _iv_not(ivs, full))
            if bad and not (key[0] == 'bv' and any(k2[0] == 'bv' and k2 != key and k2[2] == key[2] for k2 in restr)):
                r2 = dict(restr)
                r2[key] = (bad, full)
                return a, r2
        return None

    @staticmethod
    def restr_text(restr: Dict[Any, Tuple[Intervals, Tuple[int, int]]], show=lambda k: k[1] if k[0] == 'sym' else f'the tested bits of {k[2].strip(chr(39))}') -> str:
        return '; '.join(f'{show(k)} in ' + ' or '.join(f'[{lo}, {hi}]' for lo, hi in ivs) for k, (ivs, _) in restr.items())

    # ---- decode ------------------------------------------------------------------------------------
    def decode_case(self, ploidy: int, phased: bool, assume: Dict[tuple, int], by_range: bool = False) -> dict:
        wd = self.layout['repr'][1]
        R = X.BV.sym('R', wd, assume)
        U = self.word(ploidy, phased, R)
        w = X.BV(tuple(U.bit(i) for i in range(32)), U.bit(31))   # read_int32: the same 32 bits, sign-extended
        # engine: what its accessors read from U
        te = X.TermEval('scala', {'$c': U.wrap(32)}, funcs=self.sfuncs, uninterp=SC_PAIR_FUNCS, assume=assume)
        call = lambda f, a: ('call', ('name', f), [(None, a)], None)
        e_pl = te.ev(call('ploidy', ('name', '$c')))
        e_ph = te.ev(call('isPhased', ('name', '$c')))
        if not isinstance(e_pl, int) or not isinstance(e_ph, bool):
            raise AnalysisError(f'{CALLSC}: accessors do not read constant ploidy / phased from a word with constant ploidy / phased fields')
        if e_pl == 0:
            e_al: Optional[List[Any]] = []
        elif e_pl == 1:
            e_al = [te.ev(call('alleleRepr', ('name', '$c')))]
        elif e_pl == 2:
            te.env['$P'] = te.ev(call('allelePairUnchecked', ('name', '$c')))
            e_al = [te.ev(call('AllelePair.j', ('name', '$P'))), te.ev(call('AllelePair.k', ('name', '$P')))]
        else:
            e_al = None
        eng = ('Call', te.key(e_al), te.key(e_ph)) if e_al is not None else ('raise',)
        # python: the path taken and its result term
        paths, pt = self._paths.get('dec') or self._paths.setdefault('dec', self.paths('dec'))
        tp = X.TermEval('py', {'$w': w}, uninterp=PY_PAIR_FUNCS, tables=PY_PAIR_TABLES, assume=assume, ctor=CALL_CTORS)
        taken = self.feasible(tp, paths, {}, by_range)
        if not taken or (len(taken) != 1 and not all(r for _, r in taken)):
            raise AnalysisError(f'{F}::_tcall._convert_from_encoding: {len(taken)} paths are feasible for ploidy {ploidy}, phased {phased}')
        last: Optional[dict] = None
        for p, restr in taken:
            py_val: Any = None
            line = p.end[2] if len(p.end) > 2 else self.dec.lineno
            if p.end[0] == 'return' and p.end[1] is not None:
                try:
                    py_val = tp.ev(p.end[1])
                    py = ('Call', tp.key(py_val.alleles), tp.key(py_val.phased)) if isinstance(py_val, X.CallValue) else ('value', tp.key(py_val))
                except X.PathRaises as ex:
                    py = ('raise', str(ex))
            elif p.end[0] == 'raise':
                py = ('raise', p.end[1])
            else:
                py = ('value', ('none',))
            fa = self.failing_assert(tp, p, restr, {}) if py[0] != 'raise' else None
            if fa is not None:
                py, restr = ('raise', f'AssertionError: assert {X.show(fa[0]).replace("$w", "word")[:70]}'), fa[1]
            same = py == eng or (py[0] == 'raise' and eng[0] == 'raise')
            if restr and not same and py[0] != 'raise':
                raise AnalysisError(f'{F}::_tcall._convert_from_encoding: for ploidy {ploidy}, phased {phased} a path is taken only for some allele-field values '
                                    f'({self.restr_text(restr)}) and its result term differs from the engine\'s (undecided on that subset)')
            last = dict(same=same, py=py, eng=eng, py_val=py_val, e_al=e_al, e_ph=e_ph, U=U, tp=tp, te=te, line=line, restr=restr,
                        conds=[(X.show(c).replace('$w', 'word')[:60], pol) for c, pol, _ in p.conds])
            if not same:
                return last
        return last  # type: ignore[return-value]

    # ---- encode ----------------------------------------------------------------------------------------
    def encode_case(self, ploidy: int, phased: bool, assume: Dict[tuple, int], by_range: bool = False) -> dict:
        A = [X.Poly.atom(('sym', f'A{i}')) for i in range(ploidy)]
        nonneg = {a_.key() for a_ in A}        # allele indices are non-negative
        if ploidy == 2 and not phased:
            nonneg.add((A[1] - A[0]).key())   # Call.__init__ sorts the alleles of an unphased diploid call (R3)
        # engine: CallN(alleles, phased) = Call0 / Call1 / Call2
        sc = self.sc
        hooks_holder: Dict[str, Any] = {}
        te = X.TermEval('scala', {}, funcs=self.sfuncs, assume=assume, nonneg=nonneg)
        te.hooks = {'Call': lambda a: self.engine_apply(te, a[0], a[1], a[2]),
                    'fromUnphasedDiploidGtIndex': lambda a: self.word(sc.w2['ploidy'][1], False, te.to_bv(a[0])).wrap(32),
                    'Call2.fromUnphasedDiploidGtIndex': lambda a: self.word(sc.w2['ploidy'][1], False, te.to_bv(a[0])).wrap(32)}
        if ploidy in (0, 1):
            ps_, (ar, ph, pl) = sc.ctor_args[ploidy]
            te.env.update({'phased': phased})
            if ploidy == 1:
                te.env[ps_[0]] = A[0]
            eng = self.engine_apply(te, te.ev(ar), te.ev(ph), te.ev(pl))
        else:
            p0, p1 = sc.call2.params[0][0], sc.call2.params[1][0]
            te.env.update({p0: A[0], p1: A[1], 'phased': phased})
            eng = te.to_bv(te.ev(sc.c2_ph if phased else sc.c2_un)).wrap(32)
        # python
        paths, pt = self._paths.get('enc') or self._paths.setdefault('enc', self.paths('enc'))
        value = W.param_names(self.enc)[2]
        tp = X.TermEval('py', {f'{value}.ploidy': ploidy, f'{value}.phased': phased, f'{value}.alleles': list(A)}, assume=assume, nonneg=nonneg, ctor=CALL_CTORS)
        M, K = _engine_domain(sc)
        sym_ranges = {f'A{i}': ((0, M) if ploidy == 1 else (0, K)) for i in range(ploidy)}
        taken = self.feasible(tp, paths, sym_ranges, by_range)
        if not taken or (len(taken) != 1 and not all(r for _, r in taken)):
            raise AnalysisError(f'{F}::_tcall._convert_to_encoding: {len(taken)} paths are feasible for ploidy {ploidy}, phased {phased}')
        res: dict = {}
        for p, restr in taken:
            res = dict(eng=eng, tp=tp, te=te, line=self.enc.lineno, written=None, problem=None, restr=restr)
            if p.end[0] == 'raise':
                res['problem'] = f'raises {p.end[1]}'
                res['line'] = p.end[2] if len(p.end) > 2 else self.enc.lineno
            else:
                fa = self.failing_assert(tp, p, restr, sym_ranges)
                if fa is not None:
                    res['problem'] = f'raises AssertionError (assert {X.show(fa[0])[:70]})'
                    res['restr'] = restr = fa[1]
                elif len(p.writes) != 1 or p.writes[0][0] != 'write_int32':
                    res['problem'] = f'performs the stream operations {[w_[0] for w_ in p.writes]} (expected one write_int32)'
                else:
                    res['line'] = p.writes[0][2]
                    try:
                        v = tp.to_bv(tp.ev(p.writes[0][1]))
                        res['written'] = v
                        if any(v.bit(i) != v.bit(31) for i in range(31, max(len(v.bits), 32) + 1)):
                            res['problem'] = 'int32-range'
                        elif any(v.bit(i) != eng.bit(i) for i in range(32)):
                            res['problem'] = 'bits'
                    except X.PathRaises as ex:
                        res['problem'] = f'raises {ex}'
            if res['problem'] and restr:
                if not res['problem'].startswith('raises'):
                    raise AnalysisError(f'{F}::_tcall._convert_to_encoding: for ploidy {ploidy}, phased {phased} a path is taken only for some allele values '
                                        f'({self.restr_text(restr)}) and what it writes differs from the engine\'s word (undecided on that subset)')
                # the rejected set must contain a call the engine represents: its smallest corner has the smallest representation
                lows = [restr.get(('sym', f'A{i}'), ([(0, 0)], None))[0][0][0] for i in range(ploidy)]
                for key_, (ivs_, _) in restr.items():
                    if key_[0] == 'bv' and key_[2].strip("'") in sym_ranges:
                        # a bit field of allele A_i: the allele values in scope must reach the rejected field values
                        nm = key_[2].strip("'")
                        if ploidy == 2:
                            raise AnalysisError(f'{F}::_tcall._convert_to_encoding: a test on bits of {nm} is decided only for some diploid calls (undecided)')
                        lows[int(nm[1:])] = ivs_[0][0]
                if ploidy == 2:
                    j, k = lows
                    rep = (j + k) * (j + k + 1) // 2 + j if phased else max(j, k) * (max(j, k) + 1) // 2 + min(j, k)
                    if rep > M:
                        res['problem'] = None
                        continue
                res['witness'] = lows
            if res['problem']:
                return res
        return res

    # ---- witnesses (printing only) ------------------------------------------------------------------
    @staticmethod
    def witness(a: X.BV, b: X.BV, assume: Dict[tuple, int]) -> Dict[tuple, int]:
        """an assignment of the symbolic bits on which the two (already different) vectors differ"""
        forced = dict(assume)
        for i in range(max(len(a.bits), len(b.bits)) + 1):
            x, y = a.bit(i), b.bit(i)
            if x == y:
                continue
            for s_, other in ((x, y), (y, x)):
                if s_ not in (0, 1) and other in (0, 1):
                    want = 1 - other
                    forced[(s_[1], s_[2])] = (1 - want) if s_[3] else want
                    return forced
            return forced
        return forced


def _show_call(alleles: Any, phased: Any) -> str:
    return f'Call({alleles}, phased={phased})'


def _case_split_text(assume: Dict[tuple, int]) -> str:
    return (' [' + ', '.join(f'{s_}[{i}] = {v}' for (s_, i), v in sorted(assume.items(), key=repr)) + ']') if assume else ''


def _r7_decode(ctx: Ctx, m: pf.Module, ab: Abstract, sc: ScalaCall):
    """for every (ploidy, phased) and every value of the allele field: the decoder's result term == the term the engine's accessors read"""
    n_leaves = 0
    for ploidy in (0, 1, 2):
        for phased in (False, True):
            cons = f'{F}::_tcall._convert_from_encoding::decodes engine words (ploidy {ploidy}, {"phased" if phased else "unphased"})'
            leaves = ab.split(lambda a, br=False: ab.decode_case(ploidy, phased, a, br), {})
            n_leaves += len(leaves)
            bad = next(((a, r) for a, r in leaves if not r['same']), None)
            msg = ''
            line = ab.dec.lineno
            if bad:
                assume, r = bad
                tp, te = r['tp'], r['te']
                line = r['line']
                py_txt = (f'raises ({r["py"][1]})' if r['py'][0] == 'raise' else
                          (_show_call(tp.show(r['py_val'].alleles), tp.show(r['py_val'].phased)) if isinstance(r['py_val'], X.CallValue) else tp.show(r['py_val'])))
                eng_txt = _show_call(te.show(r['e_al']), r['e_ph']) if r['e_al'] is not None else 'an exception'
                # witness word: the symbolic bits chosen so that the two terms differ (evaluation of the two terms only)
                wit = ''
                if isinstance(r['py_val'], X.CallValue) and r['e_al'] is not None and isinstance(r['py_val'].alleles, list) and len(r['py_val'].alleles) == len(r['e_al']):
                    for x, y in zip(r['py_val'].alleles, r['e_al']):
                        bx, by = tp.to_bv(x), te.to_bv(y)
                        if bx.key() != by.key():
                            forced = ab.witness(bx, by, assume)
                            asg = lambda s_, i: forced.get((s_, i), 0)
                            if all(isinstance(sy[1], str) for sy in bx.symbols() + by.symbols()):
                                word = r['U'].substitute(asg)
                                wit = (f' Witness: word {word:#010x} (read_int32() = {word - (1 << 32) if word >= (1 << 31) else word}): Python\'s term is {bx.substitute(asg)}, '
                                       f'the engine\'s is {by.substitute(asg)}.')
                            break
                path = ' and '.join(('' if pol else 'not ') + c for c, pol in r['conds']) or 'always'
                sub = (f' - for the words whose tested bit field is in ' + ' or '.join(f'[{lo}, {hi}]' for ivs_, _ in r['restr'].values() for lo, hi in ivs_) + ' -') if r.get('restr') else ''
                msg = (f'for words with ploidy field {ploidy}, phased bit {int(phased)} and allele field R{_case_split_text(assume)}: on the path [{path}]{sub} Python\'s decoder yields {py_txt}, '
                       f'the engine\'s accessors (Call.ploidy / isPhased / alleleRepr / allelePair) read {eng_txt} - different terms, i.e. different calls for some R '
                       f'(…x[i] denotes sign extension with bit i).{wit}')
            ctx.check(bad is None, 'R7', cons, msg, m.path, line, detail={'sub_cases': len(leaves), 'decided': 'equality of terms over the bit-field domain, all 2^29 allele-field values'})
    ctx.unit('decode_sub_cases', n_leaves)


def _r8_encode(ctx: Ctx, m: pf.Module, ab: Abstract, sc: ScalaCall):
    """decision list of the encoder: per (ploidy, phased) the written word's fields == the fields Call0/Call1/Call2 -> Call.apply pack, for all alleles"""
    n_leaves = 0
    lay = ab.layout
    for ploidy in (0, 1, 2):
        for phased in (False, True):
            cons = f'{F}::_tcall._convert_to_encoding::packs like the engine (ploidy {ploidy}, {"phased" if phased else "unphased"})'
            leaves = ab.split(lambda a, br=False: ab.encode_case(ploidy, phased, a, br), {})
            n_leaves += len(leaves)
            bad = next(((a, r) for a, r in leaves if r['problem']), None)
            msg = ''
            line = ab.enc.lineno
            if bad:
                assume, r = bad
                line = r['line']
                tp, te = r['tp'], r['te']
                alle = '[' + ', '.join(f'A{i}' for i in range(ploidy)) + ']'
                head = f'Call({alle}, phased={phased}){_case_split_text(assume)}: the engine (Call{ploidy} -> Call.apply) packs the word {X.show_bv(r["eng"])}'
                if r['problem'] == 'int32-range':
                    v = r['written']
                    forced = dict(assume)
                    asg = lambda s_, i: forced.get((s_, i), 0)
                    wit = f' (e.g. {v.substitute(asg)} for all other symbolic bits 0)' if all(isinstance(sy[1], str) for sy in v.symbols()) else ''
                    msg = f'{head}; Python hands write_int32 the value {X.show_bv(v)}{wit}, which is not a signed 32-bit integer (bits above 31 are not the sign extension of bit 31): struct.error'
                elif r['problem'] == 'bits':
                    v = r['written']
                    diff = []
                    for k, (sh, wd) in lay.items():
                        if any(v.bit(i) != r['eng'].bit(i) for i in range(sh, sh + wd)):
                            pv, ev_ = X.BV(tuple(v.bit(i) for i in range(sh, sh + wd)), 0), X.BV(tuple(r['eng'].bit(i) for i in range(sh, sh + wd)), 0)
                            diff.append(f'{k} field {X.show_bv(pv)} instead of {X.show_bv(ev_)}')
                    msg = (f'{head}; Python writes {X.show_bv(v)} - ' + ', '.join(diff) + ': the engine (and Python\'s own decoder) read a different call from the word Python sends')
                else:
                    sub = (f' for the calls with {ab.restr_text(r["restr"])} (e.g. alleles {r.get("witness")}), which the engine represents' if r.get('restr') else '')
                    msg = f'{head}; Python {r["problem"]}{sub}'
            ctx.check(bad is None, 'R8', cons, msg, m.path, line, detail={'sub_cases': len(leaves), 'decided': 'equality of the 32 bits over the bit-field domain, symbolic alleles'})
    ctx.unit('encode_sub_cases', n_leaves)


def _r2_sign(ctx: Ctx, m: pf.Module, ab: 'Abstract') -> Optional[str]:
    """Dataflow over every path of the decoder: the word read by read_int32 is signed; each use of it (or of a value derived from it) where
    high bits matter must see the unsigned value.  Decided in the agreeing-low-bits domain of engines/exprir.SignDomain.
    Returns a message if the function cannot be path-executed (the caller declines after all other rules have reported)."""
    fn = ab.dec
    stream = W.param_names(fn)[1]
    cons = f'{F}::_tcall._convert_from_encoding::sign-safe use of the 32-bit word'
    selfname = W.param_names(fn)[0]
    cls = m.cls('_tcall')
    base = m.cls('HailType')

    def resolver(name: str):
        parts = name.split('.')
        if len(parts) == 2 and parts[0] in (selfname, '_tcall', 'HailType'):
            for c in ((cls, base) if parts[0] != 'HailType' else (base,)):
                f = W.methods(c).get(parts[1])
                if f is not None and not parts[1].startswith('_convert_'):
                    static = 'staticmethod' in pf.decorator_names(f)
                    if 'classmethod' in pf.decorator_names(f) or 'property' in pf.decorator_names(f):
                        return None
                    return (f, 0 if static or parts[0] != selfname else 1)
            return None
        if len(parts) == 1 and m.has_func(name) and isinstance(m.func(name), ast.FunctionDef) and any(f is m.func(name) for f in m.tree.body):
            return (m.func(name), 0)
        return None

    try:
        se = X.PathTerms(f'{F}::_tcall._convert_from_encoding', stream, resolver=resolver)
        paths = se.run(fn, {})
    except AnalysisError as e:
        return f'sign analysis of the decoder not possible: {e}'
    if not se.reads or any(k != 'read_int32' for k, _ in se.reads):
        return f'sign analysis: the decoder reads {sorted({k for k, _ in se.reads})}, expected read_int32 only'
    problems = []
    undecided: Optional[str] = None
    n_ret = 0
    for p in paths:
        sd = X.SignDomain()
        facts = sd.path_facts(p.conds)
        for c, pol, _ in p.conds:
            sd.cond(c, facts)
        if p.end[0] == 'return' and p.end[1] is not None:
            n_ret += 1
            sd.use(p.end[1], sd.bits(p.end[1], facts), 'the decoded call', facts)
        if sd.opaque and undecided is None:
            t, b, what = sd.opaque[0]
            undecided = (f'sign analysis of the decoder: `{X.show(t).replace("$w", "word")[:80]}` (only the low {b} bits agree with the unsigned word) is {what}')
        seen = set()
        for t, b, what in sd.findings:
            key = X.show(t)
            if key in seen:
                continue
            seen.add(key)
            # witness: a negative word satisfying the path on which the signed and the unsigned evaluation of the sub-expression differ
            wit = ''
            for w in (-(1 << 31) + 2, -(1 << 31) + 10, -6, -5, -14, -13, -(1 << 31) + 4, -(1 << 31) + 5, -4, -3):
                try:
                    if not all(bool(X.ev(c, {'$w': w}, 'py')) == pol for c, pol, _ in p.conds):
                        continue
                    a_, b_ = X.ev(t, {'$w': w}, 'py'), X.ev(t, {'$w': w + (1 << 32)}, 'py')
                except (AnalysisError, X.Undefined, TypeError):
                    continue
                if a_ != b_:
                    wit = f' e.g. word {w + (1 << 32):#010x} (read_int32() = {w}): `{X.show(t).replace("$w", "word")}` = {a_}, the engine (unsigned, >>>) has {b_}'
                    break
            cond_txt = ' and '.join(('' if pol else 'not ') + X.show(c).replace('$w', 'word')[:60] for c, pol, _ in p.conds) or 'always'
            problems.append(f'on the path [{cond_txt}] `{X.show(t).replace("$w", "word")[:80]}` is computed from the still-signed word (only its low {b} bits agree with the '
                            f'engine\'s unsigned value) and is used as {what}: Python >> is arithmetic, the engine uses >>>.{wit}')
    if problems or undecided is None:
        ctx.check(not problems, 'R2', cons, ' | '.join(problems[:3]), m.path, fn.lineno, detail={'paths': len(paths), 'returning': n_ret})
    return undecided


# --------------------------------------------------------------------------------------
# rules
# --------------------------------------------------------------------------------------


def _r1(ctx: Ctx, m: pf.Module, pw: Optional[PyWriter], pr: Optional[PyReader], sc: ScalaCall):
    legacy = pw is not None and pr is not None
    if legacy:
        ref = {'phased': (pw.fields['phased'][0], 1), 'ploidy': (pw.fields['ploidy'][0], None), 'repr': (pw.fields['repr1'][0], None)}
        ref_name = 'the Python writer'
    else:
        # the statement shape of the Python converters is not the tabulated one: their agreement with the engine is decided by R7/R8;
        # the Scala writers and accessors are still compared among themselves
        ref = {k: (sc.w[k][0], None) for k in ('phased', 'ploidy', 'repr')}
        ref_name = 'Call.apply'
    fpath = m.path

    def cmp(field: str, source: str, shift: int, mask: Optional[int], file: str, line: int, want_mask: Optional[int] = None):
        cons = f'{F}::_tcall::{field} field::{source}'
        want = ref[field][0]
        msg = []
        if shift != want:
            msg.append(f'{source} places/reads the {field} field at shift {shift}, {ref_name} packs it at shift {want}')
        if want_mask is not None and mask is not None and mask != want_mask:
            msg.append(f'{source} masks the {field} field with {mask:#x}, expected {want_mask:#x}')
        ctx.check(not msg, 'R1', cons, '; '.join(msg) + f': a call encoded by one side is decoded to a different {field} by the other', file, line,
                  detail={'shift': shift, 'mask': mask})

    if legacy:
        _r1_python(ctx, m, pw, pr, cmp)
    _r1_scala(ctx, sc, cmp)


def _r1_python(ctx: Ctx, m: pf.Module, pw: PyWriter, pr: PyReader, cmp):
    fpath = m.path
    # Python writer: both repr placements at the same shift
    cmp('repr', 'python writer (diploid)', pw.fields['repr2'][0], None, fpath, pw.fields['repr2'][2].lineno)
    # Python reader
    word = pr.word
    bf = X.bool_field(X.from_py(pr.phased_expr), word)
    ctx.need(bf is not None, f'_tcall._convert_from_encoding: phased is `{pf.nsrc(pr.phased_expr)}`, not a single-bit test of `{word}`')
    cmp('phased', 'python reader', bf[0], bf[1], fpath, pr.phased_expr.lineno, 1)
    sm = X.shift_mask(X.from_py(pr.ploidy_expr), word)
    ctx.need(sm is not None and sm[1] is not None, f'_tcall._convert_from_encoding: ploidy is `{pf.nsrc(pr.ploidy_expr)}`, not ({word} >> s) & m')
    cmp('ploidy', 'python reader', sm[0], sm[1], fpath, pr.ploidy_expr.lineno, 3)
    ar = pr.helper(ctx, m, 'allele_repr')
    arp = W.param_names(ar)[0]
    sm2 = X.shift_mask(X.from_py(_ret_expr(ctx, ar, 'allele_repr')), arp)
    ctx.need(sm2 is not None and sm2[1] is None, 'allele_repr is not `c >> s`')
    cmp('repr', 'python reader', sm2[0], None, fpath, ar.lineno)
    # widths / overlap on the writer table
    ph, plo, rp = pw.fields['phased'][0], pw.fields['ploidy'][0], pw.fields['repr1'][0]
    ctx.check(ph == 0 and plo == ph + 1 and rp == plo + 2 and sm[1] == 3, 'R1', f'{F}::_tcall::fields do not overlap',
              f'layout phased@{ph} (1 bit), ploidy@{plo} (mask {sm[1]:#x}), repr@{rp}: fields overlap or leave the 2-bit ploidy field short', fpath, pw.fn.lineno,
              detail={'phased': ph, 'ploidy': plo, 'repr': rp})
    # the reader sources its ploidy-1 allele and the pair from the repr field of the word
    a1, pre1 = pr.alleles.get(1, (None, []))
    ctx.need(a1 is not None and 0 in pr.alleles and 2 in pr.alleles, '_tcall._convert_from_encoding: ploidy dispatch lacks one of 0/1/2')
    # what each ploidy decodes to, with single-definition locals substituted; a form that is not the tabulated one is not a violation of anything:
    # the shape-dependent rules are then not armed and the decoder is decided by R7 alone
    dec = {n: pf.nsrc(pf.expand_locals(pr.fn, pr.alleles[n][0])) for n in (0, 1)}
    ctx.need(dec[0] == '[]', f'_tcall._convert_from_encoding: ploidy 0 decodes to `{dec[0]}` (not the tabulated form [])')
    ctx.ok('R1', f'{F}::_tcall._convert_from_encoding::ploidy 0', {'decodes_to': dec[0]})
    ctx.need(dec[1] == f'[allele_repr({word})]', f'_tcall._convert_from_encoding: haploid allele decoded as `{dec[1]}` (not the tabulated form [allele_repr({word})])')
    ctx.ok('R1', f'{F}::_tcall._convert_from_encoding::ploidy 1', {'decodes_to': dec[1]})
    src1 = pw.fields['repr1'][1]
    ctx.need(src1 == ('index', ('name', f'{pw.value}.alleles'), ('int', 0)), f'_tcall._convert_to_encoding: haploid representation is `{X.show(src1)}` (not the tabulated form {pw.value}.alleles[0])')
    ctx.ok('R1', f'{F}::_tcall._convert_to_encoding::ploidy 1 source', {'source': X.show(src1)})


def _r1_scala(ctx: Ctx, sc: ScalaCall, cmp):
    # Scala writers / readers
    from engines.common import repo_path
    scp = repo_path(CALLSC)
    for k in ('phased', 'ploidy', 'repr'):
        cmp(k, 'scala Call.apply', sc.w[k][0], None, scp, sc.apply_line)
        cmp(k, 'scala Call.' + {'phased': 'isPhased', 'ploidy': 'ploidy', 'repr': 'alleleRepr'}[k], sc.r[k][0], sc.r[k][1], scp, sc.apply_line,
            {'phased': 1, 'ploidy': 3, 'repr': None}[k])
    cmp('ploidy', 'scala Call2.fromUnphasedDiploidGtIndex', sc.w2['ploidy'][0], None, scp, sc.call2.line)
    cmp('repr', 'scala Call2.fromUnphasedDiploidGtIndex', sc.w2['repr'][0], None, scp, sc.call2.line)
    ctx.check(sc.w2['ploidy'][1] == 2, 'R1', f'{CALLSC}::Call2.fromUnphasedDiploidGtIndex::ploidy constant',
              f'unphased diploid calls are packed with ploidy {sc.w2["ploidy"][1]}, not 2', scp, sc.call2.line)
    ctx.check(sc.repr_logical, 'R1', f'{CALLSC}::Call.alleleRepr::logical shift',
              'alleleRepr uses an arithmetic shift: representations >= 2^28 (sign bit set) decode to negative allele indices, while Python decodes them unsigned', scp, sc.apply_line)


def _r2(ctx: Ctx, m: pf.Module, pw: PyWriter, pr: PyReader, sc: ScalaCall):
    # writer:  acc = acc if lo <= acc < B else acc - M
    cons = f'{F}::_tcall._convert_to_encoding::signed wrap'
    if pw.wrap is None:
        ctx.bad('R2', cons, 'the packed word is written without mapping [2^31, 2^32) to negative int32: struct.pack("=i") raises for every call whose '
                            'representation is >= 2^28 (engine maximum is 2^29 - 1)', m.path, pw.fn.lineno)
    else:
        w = pw.wrap
        acc = pw.acc
        t = w.test
        ok_shape = (isinstance(w.body, ast.Name) and w.body.id == acc and isinstance(w.orelse, ast.BinOp) and isinstance(w.orelse.op, ast.Sub)
                    and pf.nsrc(w.orelse.left) == acc and W.const_int(w.orelse.right) is not None
                    and isinstance(t, ast.Compare) and len(t.ops) == 2 and isinstance(t.ops[0], (ast.LtE, ast.Lt)) and isinstance(t.ops[1], (ast.Lt, ast.LtE))
                    and pf.nsrc(t.comparators[0]) == acc and W.const_int(t.left) is not None and W.const_int(t.comparators[1]) is not None)
        ctx.need(ok_shape, f'_tcall._convert_to_encoding: signed wrap `{pf.nsrc(w)}` is not `x if lo <= x < B else x - M`')
        lo = W.const_int(t.left) + (1 if isinstance(t.ops[0], ast.Lt) else 0)
        hi = W.const_int(t.comparators[1]) - (0 if isinstance(t.ops[1], ast.LtE) else 1)  # inclusive upper bound of the unwrapped range
        mod = W.const_int(w.orelse.right)
        # representable words: repr <= MAX_REPR, ploidy in 0..2, phased in 0..1 ; evaluate the wrap at every boundary word
        shift_r, shift_p = pw.fields['repr1'][0], pw.fields['ploidy'][0]
        bad = None
        cand = set()
        for rep in (0, 1, (1 << 28) - 1, 1 << 28, (1 << 28) + 1, MAX_REPR - 1, MAX_REPR):
            for pl in (0, 1, 2):
                for ph in (0, 1):
                    cand.add((rep << shift_r) | (pl << shift_p) | ph)
        for v in (hi - 1, hi, hi + 1, lo - 1, lo):
            if 0 <= v < (1 << 32) and ((v >> shift_p) & 3) <= 2:
                cand.add(v)
        for v in sorted(cand):
            out = v if lo <= v <= hi else v - mod
            if not (-(1 << 31) <= out < (1 << 31)) or (out - v) % (1 << 32) != 0:
                bad = (v, out)
                break
        ctx.check(bad is None, 'R2', cons, (f'packed word {bad[0]:#x} is written as {bad[1]} which is not the same 32 bits as a signed int32 '
                                            f'(wrap `{pf.nsrc(w)}`): struct.pack raises or the engine reads a different call') if bad else '', m.path, pw.wrap_node.lineno,
                  detail={'unwrapped_range': [lo, hi], 'modulus': mod, 'words_checked': len(cand)})
    cons = f'{F}::_tcall._convert_from_encoding::unsigned bridge'
    if pr.unwrap is None:
        ctx.bad('R2', cons, f'`{pr.word}` is shifted without first mapping negative int32 to [2^31, 2^32): Python >> is arithmetic, so representations >= 2^28 decode '
                            f'to negative allele indices (the engine uses >>>)', m.path, pr.fn.lineno)
    else:
        u = pr.unwrap
        wv = pr.word
        ok_shape = (isinstance(u.body, ast.Name) and u.body.id == wv and isinstance(u.test, ast.Compare) and len(u.test.ops) == 1
                    and isinstance(u.test.ops[0], (ast.GtE, ast.Gt)) and pf.nsrc(u.test.left) == wv and W.const_int(u.test.comparators[0]) is not None
                    and isinstance(u.orelse, ast.BinOp) and isinstance(u.orelse.op, ast.Add) and pf.nsrc(u.orelse.left) == wv and W.const_int(u.orelse.right) is not None)
        ctx.need(ok_shape, f'_tcall._convert_from_encoding: unsigned bridge `{pf.nsrc(u)}` is not `x if x >= 0 else x + M`')
        thr = W.const_int(u.test.comparators[0]) + (1 if isinstance(u.test.ops[0], ast.Gt) else 0)
        mod = W.const_int(u.orelse.right)
        bad = None
        for v in (-(1 << 31), -(1 << 31) + 5, -8, -4, -1, 0, 1, 4, (1 << 31) - 4, (1 << 31) - 1):
            out = v if v >= thr else v + mod
            if out != (v & 0xFFFFFFFF):
                bad = (v, out)
                break
        # (that the bridge reaches every sign-sensitive use of the word is decided per path by the sign dataflow instance of R2)
        ctx.check(bad is None, 'R2', cons,
                  (f'int32 {bad[0]} is bridged to {bad[1]} instead of its unsigned value {bad[0] & 0xFFFFFFFF} (`{pf.nsrc(u)}`)' if bad else ''),
                  m.path, u.lineno, detail={'threshold': thr, 'modulus': mod})


def _eval_pair(args: List[tuple], env: Dict[str, Any], lang: str) -> Tuple[Any, ...]:
    return tuple(X.ev(a, env, lang) for a in args)


def _r3(ctx: Ctx, m: pf.Module, pw: PyWriter, pr: PyReader, sc: ScalaCall):
    from engines.common import repo_path
    scp = repo_path(CALLSC)
    # ---- Python writer: allele_pair_rep(c)
    src2 = pw.fields['repr2'][1]
    args = _call_args(src2, tuple(pw.nested))
    ctx.need(args is not None and len(args) == 1 and args[0] == ('name', pw.value), f'diploid representation `{X.show(src2)}` is not <helper>({pw.value})')
    rep = pw.nested[src2[1][1]]
    cparam = W.param_names(rep)[0]
    body = W.body_wo_doc(rep)
    ctx.need(len(body) == 3 and isinstance(body[0], ast.Assign) and isinstance(body[1], ast.If) and isinstance(body[2], ast.Return)
             and len(body[1].body) == 1 and isinstance(body[1].body[0], ast.Return) and not body[1].orelse and pf.nsrc(body[1].test) == f'{cparam}.phased',
             f'{rep.name}: not `[j, k] = c.alleles; if c.phased: return A; return B`')
    tgt = body[0].targets[0]
    ctx.need(isinstance(tgt, (ast.List, ast.Tuple)) and len(tgt.elts) == 2 and all(isinstance(x, ast.Name) for x in tgt.elts) and pf.nsrc(body[0].value) == f'{cparam}.alleles',
             f'{rep.name}: alleles are not destructured as [j, k] = {cparam}.alleles')
    n0, n1 = tgt.elts[0].id, tgt.elts[1].id
    gi = [n for n in pw.nested if n != rep.name]
    ph_args = _call_args(X.from_py(body[1].body[0].value), tuple(pw.nested))
    un_args = _call_args(X.from_py(body[2].value), tuple(pw.nested))
    ctx.need(ph_args is not None and un_args is not None and len(ph_args) == 2 and len(un_args) == 2, f'{rep.name}: results are not calls to the gt-index helper')
    idx_name = X.from_py(body[2].value)[1][1]
    ctx.need(X.from_py(body[1].body[0].value)[1][1] == idx_name, f'{rep.name}: phased and unphased branches use different index helpers')
    # ---- Scala Call2.apply
    sc_ph = sc.c2_ph
    a = _call_args(sc_ph, ('Call',))
    ctx.need(a is not None and len(a) >= 1, f'{CALLSC}::Call2.apply phased branch is not Call(...)')
    sc_ph_args = _call_args(a[0], ('Genotype.diploidGtIndex',))
    ctx.need(sc_ph_args is not None and len(sc_ph_args) == 2, f'{CALLSC}::Call2.apply phased branch does not use Genotype.diploidGtIndex')
    a = _call_args(sc.c2_un, ('fromUnphasedDiploidGtIndex', 'Call2.fromUnphasedDiploidGtIndex'))
    ctx.need(a is not None and len(a) == 1, f'{CALLSC}::Call2.apply unphased branch is not fromUnphasedDiploidGtIndex(...)')
    sc_un_args = _call_args(a[0], ('Genotype.diploidGtIndexWithSwap', 'Genotype.diploidGtIndex'))
    ctx.need(sc_un_args is not None and len(sc_un_args) == 2, f'{CALLSC}::Call2.apply unphased branch does not use Genotype.diploidGtIndex[WithSwap]')
    sc_swap = a[0][1][1].endswith('WithSwap')
    p0, p1 = sc.call2.params[0][0], sc.call2.params[1][0]
    dom = [(x, y) for x in range(0, 7) for y in range(0, 7)]
    # phased: for all (a0, a1)
    bad = None
    for a0, a1 in dom:
        py = _eval_pair(ph_args, {n0: a0, n1: a1}, 'py')
        scv = _eval_pair(sc_ph_args, {p0: a0, p1: a1}, 'scala')
        if py != scv or py != (a0, a0 + a1):
            bad = (a0, a1, py, scv)
            break
    ctx.check(bad is None, 'R3', f'{F}::_tcall._convert_to_encoding::phased diploid index arguments',
              (f'phased call {bad[0]}|{bad[1]}: Python indexes ({bad[2][0]}, {bad[2][1]}) but the engine indexes ({bad[3][0]}, {bad[3][1]}); '
               f'expected (j, j+k) = ({bad[0]}, {bad[0] + bad[1]})') if bad else '', m.path, body[1].lineno, detail={'pairs_checked': len(dom)})
    # unphased: Python requires sorted input (Call.__init__), the engine sorts itself
    bad = None
    for a0, a1 in dom:
        if a0 > a1:
            continue
        py = _eval_pair(un_args, {n0: a0, n1: a1}, 'py')
        scv = _eval_pair(sc_un_args, {p0: a0, p1: a1}, 'scala')
        if py != scv or py != (a0, a1):
            bad = (a0, a1, py, scv)
            break
    ctx.check(bad is None, 'R3', f'{F}::_tcall._convert_to_encoding::unphased diploid index arguments',
              (f'unphased call {bad[0]}/{bad[1]}: Python indexes {bad[2]} but the engine indexes {bad[3]}') if bad else '', m.path, body[2].lineno)
    # Python side sorts unphased diploid alleles in Call.__init__ (the engine does it in diploidGtIndexWithSwap)
    cm = pf.load(CALLPY)
    init = cm.func('Call.__init__')
    # what Call.__init__ stores for an unphased pair, from the abstract execution of the constructor (engines/c34dom.py): [min, max] on every accepting path
    ips = W.param_names(init)
    ctx.need(len(ips) >= 3, f'{CALLPY}::Call.__init__ parameters are {ips}')
    M_, K_ = _engine_domain(sc)
    acc_ = DOM.Acceptance(cm, cm.cls('Call'), init, f'{CALLPY}::Call.__init__', _module_consts(cm, cm.cls('Call')))
    accepted_, _rej = acc_.run(((0, K_), (0, K_)), {ips[1]: ('alleles',), ips[2]: ('bool', False)})
    a_attr = W.value_class('Call').attr_for_prop('alleles') or W.value_class('Call').attr_for_param('alleles')
    pair_ = [('allele', 0), ('allele', 1)]
    asc = (('min', pair_), ('max', pair_))
    asc2 = (('min', pair_[::-1]), ('max', pair_[::-1]))
    swap = bool(accepted_)
    for st_ in accepted_:
        stored = st_.env.get(f'self.{a_attr}')
        ctx.need(stored is not None and (stored[0] == 'alleles' or (stored[0] == 'list' and len(stored[1]) == 2 and all(x[0] in ('allele', 'min', 'max') for x in stored[1]))),
                 f'{CALLPY}::Call.__init__: what is stored for an unphased pair (`{stored}`) is not recognised')
        if stored[0] == 'alleles' or tuple(stored[1]) not in (asc, asc2, (asc[0], asc2[1]), (asc2[0], asc[1])):
            swap = False
    gt_fn = pw.nested[idx_name]
    has_assert = any(isinstance(s, ast.Assert) for s in gt_fn.body)
    ctx.check(swap and sc_swap, 'R3', f'{CALLPY}::Call.__init__::unphased alleles sorted',
              ('Call.__init__ no longer sorts the two alleles of an unphased diploid call ascending' if not swap else 'Call2.apply no longer uses diploidGtIndexWithSwap') +
              ': Call([1, 0]) is then indexed as (j=1, k=0), which is not a valid triangular index' + (' (assert in the encoder fails)' if has_assert else ' and encodes a different call than the engine'),
              cm.path, init.lineno)
    # ---- readers: phased (j, k) -> (j, k - j)
    cap = pr.helper(ctx, m, 'call_allele_pair')
    rets = [n for n in ast.walk(cap) if isinstance(n, ast.Return)]
    iff = [n for n in cap.body if isinstance(n, ast.If)]
    ctx.need(len(iff) == 1 and pf.nsrc(iff[0].test) == pr.phased_var and len(rets) == 2, 'call_allele_pair: not `if phased: … return A else: … return B`')
    pret = [n for n in ast.walk(ast.Module(body=iff[0].body, type_ignores=[])) if isinstance(n, ast.Return)]
    ctx.need(len(pret) == 1, 'call_allele_pair: phased branch has no single return')
    pa = _call_args(X.from_py(pret[0].value), ('allele_pair',))
    ctx.need(pa is not None and len(pa) == 2, f'call_allele_pair: phased branch returns `{pf.nsrc(pret[0].value)}`, not allele_pair(a, b)')
    # resolve j, k names in the phased branch: j = ap_j(p), k = ap_k(p)
    loc: Dict[str, str] = {}
    for s_ in iff[0].body:
        if isinstance(s_, ast.Assign) and isinstance(s_.targets[0], ast.Name) and isinstance(s_.value, ast.Call):
            loc[s_.targets[0].id] = pf.dotted(s_.value.func) or ''
    jn = [k for k, v in loc.items() if v == 'ap_j']
    kn = [k for k, v in loc.items() if v == 'ap_k']
    ctx.need(len(jn) == 1 and len(kn) == 1, 'call_allele_pair: j/k are not taken with ap_j/ap_k')
    # scala
    e = S.strip(sc.apu.body)
    ctx.need(e[0] == 'if' and e[3] is not None, f'{CALLSC}::Call.allelePairUnchecked is not if/else')
    blk = S.strip(e[2])
    ctx.need(blk[0] == 'block' and blk[1][-1][0] == 'expr', f'{CALLSC}::Call.allelePairUnchecked: phased branch is not a block')
    sloc: Dict[str, str] = {}
    for st in blk[1][:-1]:
        ctx.need(st[0] == 'val', f'{CALLSC}::Call.allelePairUnchecked: unrecognised statement')
        v = X.from_scala(st[2])
        if v[0] == 'call' and v[1][0] == 'name':
            sloc[st[1]] = v[1][1]
    sj = [k for k, v in sloc.items() if v == 'AllelePair.j']
    sk = [k for k, v in sloc.items() if v == 'AllelePair.k']
    spa = _call_args(X.from_scala(blk[1][-1][1]), ('AllelePair',))
    ctx.need(len(sj) == 1 and len(sk) == 1 and spa is not None and len(spa) == 2, f'{CALLSC}::Call.allelePairUnchecked: phased branch is not AllelePair(f(j,k), g(j,k))')
    bad = None
    for j in range(0, 7):
        for k in range(j, 14):
            py = _eval_pair(pa, {jn[0]: j, kn[0]: k}, 'py')
            scv = _eval_pair(spa, {sj[0]: j, sk[0]: k}, 'scala')
            if py != scv or py != (j, k - j):
                bad = (j, k, py, scv)
                break
        if bad:
            break
    ctx.check(bad is None, 'R3', f'{F}::_tcall._convert_from_encoding::phased pair decode',
              (f'stored pair (j={bad[0]}, k={bad[1]}) of a phased call decodes to {bad[2]} in Python and {bad[3]} in the engine; expected (j, k-j) = ({bad[0]}, {bad[1] - bad[0]})') if bad else '',
              m.path, pret[0].lineno)
    # allele order of the decoded diploid call and the writer's destructuring
    a2, pre2 = pr.alleles[2]
    ctx.need(len(pre2) == 1 and isinstance(pre2[0], ast.Assign) and isinstance(pre2[0].targets[0], ast.Name) and pf.nsrc(pre2[0].value) == f'call_allele_pair({pr.word})',
             '_tcall._convert_from_encoding: diploid branch does not take p = call_allele_pair(<word>)')
    pv = pre2[0].targets[0].id
    ctx.need(pf.nsrc(a2) in (f'[ap_j({pv}), ap_k({pv})]', f'[ap_k({pv}), ap_j({pv})]'), f'_tcall._convert_from_encoding: diploid alleles decoded as `{pf.nsrc(a2)}` (not a tabulated form)')
    ctx.check(pf.nsrc(a2) == f'[ap_j({pv}), ap_k({pv})]', 'R3', f'{F}::_tcall._convert_from_encoding::diploid allele order',
              f'diploid alleles decoded as `{pf.nsrc(a2)}`, the writer packs [j, k] = alleles: expected [ap_j({pv}), ap_k({pv})]', m.path, a2.lineno)
    # unphased branch of both readers is the plain pair lookup
    uret = [r for r in rets if r is not pret[0]]
    ctx.need(pf.nsrc(pf.expand_locals(cap, uret[0].value)) in ('gt_allele_pair(rep)', f'gt_allele_pair(allele_repr({W.param_names(cap)[0]}))'),
             f'call_allele_pair: unphased pair decoded as `{pf.nsrc(uret[0].value)}` (not the tabulated form)')
    ctx.ok('R3', f'{F}::_tcall._convert_from_encoding::unphased pair decode', {'decodes_to': pf.nsrc(uret[0].value)})


def _tri(j: int, k: int) -> int:
    return k * (k + 1) // 2 + j


def _r4(ctx: Ctx, m: pf.Module, pw: Optional[PyWriter], pr: Optional[PyReader], sc: ScalaCall):
    from engines.common import repo_path
    gp = repo_path(GENOSC)
    # forward formulas
    idx_name: List[str] = []
    pe = pj = pk = gfn = None
    if pw is not None:
        idx_name = [n for n in pw.nested if 'index' in n]
        ctx.need(len(idx_name) == 1, f'_tcall._convert_to_encoding: gt-index helper not found among {sorted(pw.nested)}')
        gfn = pw.nested[idx_name[0]]
        pj, pk = W.param_names(gfn)
        pe = X.from_py(_ret_expr(ctx, gfn, idx_name[0]))
    sd = sc.G.def_('Genotype', 'diploidGtIndex', n_params=2)
    for st in sd.stmts()[:-1]:
        ctx.need(_sc_effect_only(st), f'{GENOSC}::Genotype.diploidGtIndex: unrecognised statement')
    se = _sc_ret(ctx, sd, 'Genotype.diploidGtIndex')
    sj, sk = sd.params[0][0], sd.params[1][0]
    pts = [(j, k) for k in range(0, 97) for j in range(0, k + 1)]
    kmax = 32767
    pts += [(0, kmax), (16383, kmax), (0, kmax - 1), (kmax - 1, kmax - 1), (1, 1000), (1000, 1000)]
    pts = [(j, k) for j, k in pts if _tri(j, k) <= MAX_REPR]
    bad = None
    if pe is not None:
        for j, k in pts:
            a = X.ev(pe, {pj: j, pk: k}, 'py')
            b = X.ev(se, {sj: j, sk: k}, 'scala')
            if not (isinstance(a, int) and a == b == _tri(j, k)):
                bad = (j, k, a, b)
                break
        ctx.check(bad is None, 'R4', f'{F}::_tcall._convert_to_encoding::{idx_name[0]}',
                  (f'gt index of (j={bad[0]}, k={bad[1]}): Python `{pf.nsrc(_ret_expr(ctx, gfn, idx_name[0]))}` = {bad[2]!r}, engine `{X.show(se)}` = {bad[3]!r}, '
                   f'VCF order k(k+1)/2+j = {_tri(bad[0], bad[1])}') if bad else '', m.path, gfn.lineno, detail={'points': len(pts)})
    else:
        # no separate gt-index helper in the encoder (formula inline): the engine formula is still compared with VCF order, the Python one by R8
        for j, k in pts:
            b = X.ev(se, {sj: j, sk: k}, 'scala')
            if b != _tri(j, k):
                bad = (j, k, b)
                break
        ctx.check(bad is None, 'R4', f'{GENOSC}::Genotype.diploidGtIndex', (f'engine gt index of (j={bad[0]}, k={bad[1]}) = {bad[2]!r}, VCF order k(k+1)/2+j = {_tri(bad[0], bad[1])}') if bad else '',
                  gp, sd.line, detail={'points': len(pts)})
    # Call.unphased_diploid_gt_index (genetics/call.py)
    cm = pf.load(CALLPY)
    import copy as _copy
    from engines import c32norm as _N
    ufn = _copy.deepcopy(cm.func('Call.unphased_diploid_gt_index'))
    ufn.body, _ = _N._split_tuple_assigns(ufn.body)   # `a0, a1 = self._alleles[0], self._alleles[1]` is the two assignments
    ast.fix_missing_locations(ufn)
    rets = [n for n in pf.walk_shallow(ufn) if isinstance(n, ast.Return) and n.value is not None]
    ctx.need(len(rets) == 1, 'Call.unphased_diploid_gt_index: expected one return')
    env_defs = {}
    for st in ufn.body:
        if isinstance(st, ast.Assign) and isinstance(st.targets[0], ast.Name) and isinstance(st.value, ast.Subscript) and pf.nsrc(st.value.value) == 'self._alleles':
            env_defs[st.targets[0].id] = W.const_int(st.value.slice)
    ctx.need(sorted(env_defs.values()) == [0, 1], 'Call.unphased_diploid_gt_index: a0/a1 are not self._alleles[0]/[1]')
    ue = X.from_py(rets[0].value)
    inv = {v: k for k, v in env_defs.items()}
    bad = None
    floaty = False
    for j, k in pts:
        a = X.ev(ue, {inv[0]: j, inv[1]: k}, 'py')
        if isinstance(a, float):
            floaty = True
        if a != _tri(j, k):
            bad = (j, k, a)
            break
    ctx.check(bad is None, 'R4', f'{CALLPY}::Call.unphased_diploid_gt_index',
              (f'Call([{bad[0]}, {bad[1]}]).unphased_diploid_gt_index() = {bad[2]!r}, VCF order / engine index is {_tri(bad[0], bad[1])}') if bad else '', cm.path, ufn.lineno)
    if floaty:
        ctx.info(f'{CALLPY}::Call.unphased_diploid_gt_index returns a float (`{pf.nsrc(rets[0].value)}` uses true division): numerically equal to the engine\'s Int '
                 f'index on the whole representable range, but not usable as a list index (documented return type is int)')
    # inverse: allele_pair_sqrt / allelePairSqrt
    ps = m.func('allele_pair_sqrt')
    pi = W.param_names(ps)[0]
    penv_defs: List[Tuple[str, tuple]] = []
    for st in W.body_wo_doc(ps):
        if isinstance(st, ast.Assign) and isinstance(st.targets[0], ast.Name):
            penv_defs.append((st.targets[0].id, X.from_py(st.value)))
        elif isinstance(st, ast.Assert):
            continue
        elif isinstance(st, ast.Return):
            pres = _call_args(X.from_py(st.value), ('allele_pair',))
            ctx.need(pres is not None and len(pres) == 2, 'allele_pair_sqrt: does not return allele_pair(j, k)')
        else:
            raise AnalysisError(f'allele_pair_sqrt: unrecognised statement `{pf.nsrc(st)[:60]}`')
    ss = sc.G.def_('Genotype', 'allelePairSqrt')
    si = ss.params[0][0]
    senv_defs: List[Tuple[str, tuple]] = []
    sres = None
    sst = ss.stmts()
    for st in sst[:-1]:
        if st[0] == 'val':
            senv_defs.append((st[1], X.from_scala(st[2])))
        else:
            ctx.need(_sc_effect_only(st), f'{GENOSC}::Genotype.allelePairSqrt: unrecognised statement')
    sres = _call_args(X.from_scala(sst[-1][1]), ('AllelePair',))
    ctx.need(sres is not None and len(sres) == 2, f'{GENOSC}::Genotype.allelePairSqrt does not end in AllelePair(j, k)')
    idxs = sorted({_tri(j, k) for j, k in pts} | {_tri(j, k) - 1 for j, k in pts if _tri(j, k) > 0} | {MAX_REPR, MAX_REPR - 1} | set(range(0, 400)))
    bad = None
    for i in idxs:
        env: Dict[str, Any] = {pi: i}
        for nm, e in penv_defs:
            env[nm] = X.ev(e, env, 'py')
        a = _eval_pair(pres, env, 'py')
        env2: Dict[str, Any] = {si: i}
        for nm, e in senv_defs:
            env2[nm] = X.ev(e, env2, 'scala')
        b = _eval_pair(sres, env2, 'scala')
        okp = 0 <= a[0] <= a[1] and _tri(a[0], a[1]) == i
        if a != b or not okp:
            bad = (i, a, b)
            break
    ctx.check(bad is None, 'R4', f'{F}::allele_pair_sqrt',
              (f'gt index {bad[0]} is inverted to (j,k)={bad[1]} by Python allele_pair_sqrt and {bad[2]} by the engine\'s allelePairSqrt; the pair with k(k+1)/2+j = {bad[0]} is expected') if bad else '',
              m.path, ps.lineno, detail={'indices': len(idxs)})


# --------------------------------------------------------------------------------------
# R9 purity: the packed word is a function of the call, the decoded call a function of the word
# --------------------------------------------------------------------------------------

TO_ENC, FROM_ENC = '_convert_to_encoding', '_convert_from_encoding'

_PURITY_CONTROL = """
_pairs = {}
class HailType(object):
    pass
class _tprobe(HailType):
    def _convert_from_encoding(self, byte_reader, _should_freeze=False):
        w = byte_reader.read_int32()
        w = w if w >= 0 else w + 2**32
        phased = (w & 1) == 1
        rep = w >> 3
        p = _pairs.get(rep)
        if p is None:
            p = (rep, rep + 1) if phased else (rep, rep)
            _pairs[rep] = p
        return p
"""


def _keyed_memos(m: pf.Module, cname: str) -> Dict[str, Tuple[str, str, int, Any]]:
    """Every keyed store (`S[k] = v` / `S.setdefault(k, v)` read back by `S[k]` / `S.get(k)` / `k in S`) that outlives a call of the two converters of
    class cname or of a same-module helper they reach: state location text -> (verdict 'ok' | 'violation', message, line, detail).
    The dependences of key and value on the inputs of the conversion are computed by engines/c34deps.py (bits of the word / access paths of the value)."""
    cls = m.cls(cname)
    module_classes = {c.name for c in m.tree.body if isinstance(c, ast.ClassDef)}
    module_globals: set = set()
    for st in m.tree.body:
        for t in (st.targets if isinstance(st, ast.Assign) else [st.target] if isinstance(st, (ast.AnnAssign, ast.AugAssign)) else []):
            if isinstance(t, ast.Name):
                module_globals.add(t.id)
    top_funcs = {f.name: f for f in m.tree.body if isinstance(f, ast.FunctionDef)}
    ms = W.methods(cls)
    units: Dict[int, Any] = {}
    work: List[Tuple[Optional[str], ast.FunctionDef, int]] = [(cname, ms[n], 0) for n in (TO_ENC, FROM_ENC) if n in ms]
    while work:
        cn, fn, d = work.pop()
        if id(fn) in units:
            continue
        fs = W._FnState(m, cn, fn, module_classes, module_globals)
        units[id(fn)] = fs
        if d >= 3:
            continue
        for call in (n for n in ast.walk(fn) if isinstance(n, ast.Call)):
            f = call.func
            if isinstance(f, ast.Attribute) and isinstance(f.value, ast.Name) and cn and (f.value.id == fs.selfname or f.value.id == cname) and f.attr in ms \
                    and not f.attr.startswith('_convert_'):
                work.append((cname, ms[f.attr], d + 1))
            elif isinstance(f, ast.Name) and f.id in top_funcs and f.id not in fs.locals:
                work.append((None, top_funcs[f.id], d + 1))
    writes: Dict[tuple, List[dict]] = {}
    reads: Dict[tuple, List[dict]] = {}
    norm = lambda fs, loc: loc if loc[0] != 'inst' else ('inst', fs.cname, loc[1])
    for fs in units.values():
        for w in fs.writes:
            writes.setdefault(norm(fs, w['loc']), []).append(w)
    for fs in units.values():
        for r in fs.reads:
            if norm(fs, r['loc']) in writes:
                reads.setdefault(norm(fs, r['loc']), []).append(r)
    out: Dict[str, Tuple[str, str, int, Any]] = {}
    for k, ws in writes.items():
        loc = ws[0]['loc']
        lt = W._loc_text(loc)
        vreads = [r for r in reads.get(k, []) if r['form'] != 'len']
        stores = [w for w in ws if w['form'] in ('setitem', 'call:setdefault') and w['value'] is not None and w['key'] is not None]
        if not vreads or not stores:
            continue
        if not all(w['form'] in ('setitem', 'call:setdefault', 'delitem') or (w['form'].startswith('call:') and w['form'][5:] in W.EVICTORS) or
                   (w['form'] == 'attr-assign' and isinstance(w['value'], (ast.Dict, ast.Call, ast.Constant))) for w in ws):
            continue
        if not all(r['form'] in ('get', 'getitem', 'contains') or (r['form'] == 'load' and isinstance(r['fs'].par.get(r['node']), ast.Compare)) for r in vreads):
            continue
        keyed_reads = [r for r in vreads if r['form'] in ('get', 'getitem', 'contains')]
        verdict: Optional[Tuple[str, str, int, Any]] = None
        for w in stores:
            fs = w['fs']
            ps = W.param_names(fs.fn)
            conv = fs.cname == cname and fs.fn.name in (TO_ENC, FROM_ENC)
            stream = ps[1] if conv and len(ps) > 1 else None
            roots = ([ps[2]] if conv and fs.fn.name == TO_ENC and len(ps) > 2 else []) if conv else [p_ for p_ in ps if p_ != fs.selfname]
            dp = DP.Deps(m, fs.fn, cls if fs.cname else None, stream, roots, fs.selfname, lambda x, top, fs=fs, loc=loc: fs.loc_of(x) == loc)
            vmask = dp.allof(dp.dep(w['value'], dp.scope_of(w['value'])))
            keys = [(w['key'], 'the key it is stored under')] + [(r['key'], 'the key it is looked up with') for r in keyed_reads if r['fs'] is fs]
            if any(r['fs'] is not fs for r in keyed_reads):
                raise AnalysisError(f'{F}::{fs.qual}: the memo {lt} is written in one function and looked up in another (unrecognised shape)')
            for kexpr, what in keys:
                kmask = dp.allof(dp.dep(kexpr, dp.scope_of(kexpr)))
                miss = dp.missing(vmask, kmask)
                if miss:
                    bits = sorted(int(a.split()[-1]) for a in miss if a.startswith('word bit '))
                    other = [a for a in miss if not a.startswith('word bit ')]
                    names = {0: 'the phased bit', 1: 'the ploidy field', 2: 'the ploidy field'}
                    txt = []
                    if bits:
                        fld = sorted({names.get(b, 'the allele representation') for b in bits})
                        txt.append(f'bit(s) {bits} of the word ({", ".join(fld)})')
                    txt += other
                    hist = ('decode two words that agree on the key but differ in ' + txt[0] + ': the second comes back with the value remembered for the first'
                            if bits else f'convert two values that agree on the key but differ in {other}: the second is converted like the first')
                    verdict = ('violation', f'{fs.qual} remembers in {lt} - which outlives the call - under `{pf.nsrc(kexpr)}` ({what}; depends on '
                                            f'{_dep_text(dp, kmask)}) the value `{pf.nsrc(w["value"])[:60]}`, which also depends on {" and ".join(txt)}: the result of a conversion '
                                            f'depends on what was converted before. History: {hist}', getattr(w['node'], 'lineno', 0), dict(missing=miss))
                    break
            if verdict:
                break
        if verdict is None:
            verdict = ('ok', f'memo {lt}: the key determines every input (bit of the word / component of the call) the remembered value depends on', getattr(ws[0]['node'], 'lineno', 0), None)
        out[lt] = verdict
    return out


def _dep_text(dp: 'DP.Deps', mask: int) -> str:
    names = dp.names(mask)
    bits = sorted(int(a.split()[-1]) for a in names if a.startswith('word bit '))
    other = [a for a in names if not a.startswith('word bit ')]
    parts = []
    if bits:
        runs, start, prev = [], bits[0], bits[0]
        for b in bits[1:] + [None]:
            if b is None or b != prev + 1:
                runs.append(f'{start}' if start == prev else f'{start}..{prev}')
                start = b
            prev = b if b is not None else prev
        parts.append('word bits ' + ','.join(runs))
    parts += other
    return ', '.join(parts) if parts else 'no input'


def _r9_purity(ctx: Ctx, m: pf.Module) -> Optional[str]:
    """no converter result depends on state that outlives the call - unless it is a memo whose key determines every input of the remembered value.
    Returns a message when some state is used in a shape that is not recognised (the caller declines after the other rules have reported)."""
    is_codec = lambda n: n in (TO_ENC, FROM_ENC)
    cls = m.cls('_tcall')
    findings, n_methods = W.codec_state(m, {'_tcall': cls}, is_codec)
    try:
        mine = _keyed_memos(m, '_tcall')
        refine_err = None
    except AnalysisError as e:
        mine, refine_err = {}, str(e)
    undecided: List[str] = []
    flagged = set()
    for f in findings:
        lt = f.construct.rsplit('::state ', 1)[1] if '::state ' in f.construct else None
        if lt is not None and lt in mine:
            kind, msg, line, detail = mine[lt]
            if kind == 'violation':
                ctx.bad('R9', f.construct, msg, m.path, line, detail)
                flagged.add(f.construct.split('::')[1])
            else:
                ctx.ok('R9', f.construct, msg)
            continue
        if f.kind == 'violation' and refine_err is not None and 'memoises in' in f.message:
            undecided.append(f'{f.construct}: {refine_err}')
        elif f.kind == 'violation':
            ctx.bad('R9', f.construct, f.message, m.path, f.line, f.detail)
            flagged.add(f.construct.split('::')[1])
        elif f.kind == 'ok':
            ctx.ok('R9', f.construct, f.message)
        else:
            undecided.append(f.message)
    for nm in (TO_ENC, FROM_ENC):
        ctx.need(nm in W.methods(cls), f'anchor vanished: _tcall.{nm}')
        if f'_tcall.{nm}' not in flagged:
            ctx.ok('R9', f'{F}::_tcall.{nm}::pure', 'no state that outlives the call flows into the result')
    # positive control: a module-level memo of decoded pairs keyed by the allele representation alone, value depending on the phased bit
    cm = pf.Module('<control>', '<control>', _PURITY_CONTROL, ast.parse(_PURITY_CONTROL))
    ctl = _keyed_memos(cm, '_tprobe')
    ctx.need(any(v[0] == 'violation' and 'phased bit' in v[1] for v in ctl.values()), 'internal: the memo-key analysis does not flag its positive control')
    ctx.ok('R9', 'positive control: module-level memo keyed by word >> 3, value depends on word & 1', 'flagged', nontrivial=False)
    return undecided[0] if undecided else None


# --------------------------------------------------------------------------------------
# R10 the front end can represent every call the engine can
# --------------------------------------------------------------------------------------


def _engine_domain(sc: ScalaCall) -> Tuple[int, int]:
    """(largest allele representation, largest allele index of any diploid call): the engine rejects ar with (ar >>> n) != 0, and a diploid call
    has ar = k(k+1)/2 + j >= k(k+1)/2 (R4)"""
    M = (1 << sc.max_repr_shift) - 1
    lo, hi = 0, 1 << 20
    while lo < hi:       # largest k with k(k+1)/2 <= M
        mid = (lo + hi + 1) // 2
        if mid * (mid + 1) // 2 <= M:
            lo = mid
        else:
            hi = mid - 1
    return M, lo


def _module_consts(cm: pf.Module, cls: ast.ClassDef) -> Any:
    tab: Dict[str, ast.expr] = {}
    for st in cm.tree.body:
        if isinstance(st, ast.Assign) and len(st.targets) == 1 and isinstance(st.targets[0], ast.Name):
            tab[st.targets[0].id] = st.value
        elif isinstance(st, ast.AnnAssign) and isinstance(st.target, ast.Name) and st.value is not None:
            tab[st.target.id] = st.value
    for st in cls.body:
        if isinstance(st, ast.Assign) and len(st.targets) == 1 and isinstance(st.targets[0], ast.Name):
            for pre in ('self', 'cls', cls.name, 'type(self)'):
                tab[f'{pre}.{st.targets[0].id}'] = st.value
    seen: set = set()

    def lookup(name: str) -> Optional[int]:
        if name not in tab or name in seen:
            return None
        seen.add(name)
        try:
            e = tab[name]
            v = W.const_int(e)
            if v is None and isinstance(e, (ast.Name, ast.Attribute)) and pf.dotted(e):
                v = lookup(pf.dotted(e))
            if v is None and isinstance(e, ast.BinOp):
                a = W.const_int(e.left) if W.const_int(e.left) is not None else (lookup(pf.dotted(e.left)) if pf.dotted(e.left) else None)
                b = W.const_int(e.right) if W.const_int(e.right) is not None else (lookup(pf.dotted(e.right)) if pf.dotted(e.right) else None)
                if a is not None and b is not None:
                    if isinstance(e.op, ast.Sub):
                        v = a - b
                    elif isinstance(e.op, ast.Add):
                        v = a + b
                    elif isinstance(e.op, ast.LShift) and 0 <= b <= 64:
                        v = a << b
                    elif isinstance(e.op, ast.Pow) and 0 <= b <= 64:
                        v = a ** b
            return v
        finally:
            seen.discard(name)
    return lookup


def _r10_domain(ctx: Ctx, sc: ScalaCall) -> None:
    """every (ploidy, phased, alleles) the engine packs (Call0 / Call1 / Call2 -> Call.apply: alleles >= 0, representation < 2^29) is accepted by
    hail.genetics.Call.__init__ - the constructor every Python call, and every call decoded from a word, goes through"""
    cm = pf.load(CALLPY)
    cls = cm.cls('Call')
    init = cm.func('Call.__init__')
    ps = W.param_names(init)
    ctx.need(len(ps) >= 3 and ps[1:3] == ['alleles', 'phased'], f'{CALLPY}::Call.__init__ parameters are {ps}')
    M, K = _engine_domain(sc)
    consts = _module_consts(cm, cls)
    tri = lambda j, k: k * (k + 1) // 2 + j
    for ploidy in (0, 1, 2):
        for phased in (False, True):
            cons = f'{CALLPY}::Call.__init__::accepts every engine call (ploidy {ploidy}, {"phased" if phased else "unphased"})'
            box = {0: (), 1: ((0, M),), 2: ((0, K), (0, K))}[ploidy]
            acc = DOM.Acceptance(cm, cls, init, f'{CALLPY}::Call.__init__', consts)
            accepted, rejections = acc.run(box, {ps[1]: ('alleles',), ps[2]: ('bool', phased)})
            problems: List[str] = []
            line = init.lineno
            for r in rejections:
                b = r.st.box
                # does the rejected box contain a call the engine represents?  (its smallest corner has the smallest representation)
                if ploidy == 2:
                    j, k = b[0][0], b[1][0]
                    rep = tri(j, j + k) if phased else tri(min(j, k), max(j, k))
                    if rep > M:
                        continue
                if r.st.taint:
                    raise AnalysisError(f'{CALLPY}::Call.__init__ (line {r.line}): `{r.text[:60]}` is reached under a test that is not decided ({r.st.taint})')
                wit = [x[0] for x in b]
                rng = ', '.join(f'allele {i} in [{lo}, {hi}]' for i, (lo, hi) in enumerate(b)) or 'no alleles'
                eng = {0: 'Call0', 1: 'Call1', 2: 'Call2'}[ploidy]
                every = 'every call' if ploidy < 2 else 'every engine-representable call'
                problems.append(f'Call({wit}, phased={phased}) - and {every} with ploidy {ploidy}, phased={phased}, {rng} - is rejected by Call.__init__ (line {r.line}: {r.text}), '
                                f'but the engine represents it ({eng} accepts allele indices >= 0 whose representation is <= 2^{sc.max_repr_shift} - 1 = {M}'
                                + (f'; a haploid call stores the allele index itself in the {sc.max_repr_shift}-bit field, the 16-bit AllelePair limit applies to diploid calls only' if ploidy == 1 else '')
                                + '): such a call can be neither built / packed by the front end nor unpacked from the word the engine sends')
                line = r.line
            ctx.check(not problems, 'R10', cons, ' | '.join(problems[:2]), cm.path, line,
                      detail={'domain': [list(x) for x in box], 'accepting_paths': len(accepted), 'rejecting_paths_outside_domain': len(rejections) - len(problems)})
            # ... and keeps them: what the accepting paths store in self._alleles / self._phased is what was given (an unphased pair may be sorted)
            cons2 = f'{CALLPY}::Call.__init__::stores the alleles and the phased flag it is given (ploidy {ploidy}, {"phased" if phased else "unphased"})'
            vc = W.value_class('Call')
            a_attr, p_attr = vc.attr_for_prop('alleles') or vc.attr_for_param('alleles'), vc.attr_for_prop('phased') or vc.attr_for_param('phased')
            probs2: List[str] = []
            undecided2 = 0
            for st in accepted:
                b = st.box
                if ploidy == 2:
                    j, k = b[0][0], b[1][0]
                    if (tri(j, j + k) if phased else tri(min(j, k), max(j, k))) > M:
                        continue
                stored = st.env.get(f'self.{a_attr}') if a_attr else None
                if stored is not None and stored[0] == 'alleles':
                    stored = ('list', [('allele', i) for i in range(ploidy)])
                if stored is None or stored[0] != 'list' or len(stored[1]) != ploidy:
                    undecided2 += 1
                    if ploidy == 2 and not phased:
                        # R8 compares the encoder with the engine under the fact that an unphased pair arrives sorted: that fact must be established here
                        raise AnalysisError(f'{CALLPY}::Call.__init__: what is stored for an unphased pair (`{stored}`) is not recognised')
                elif ploidy == 2 and not phased and not st.taint and tuple(stored[1]) in ((('allele', 0), ('allele', 1)), (('allele', 1), ('allele', 0)),
                                                                                       (('max', [('allele', 0), ('allele', 1)]), ('min', [('allele', 0), ('allele', 1)])),
                                                                                       (('max', [('allele', 1), ('allele', 0)]), ('min', [('allele', 1), ('allele', 0)]))):
                    probs2.append('the two alleles of an unphased call are not stored in ascending order: the encoder indexes (j, k) with j > k - not a triangular index (its assert fails) '
                                  'and not the word the engine packs (diploidGtIndexWithSwap)')
                else:
                    pair = [('allele', 0), ('allele', 1)]
                    for i, v in enumerate(stored[1]):
                        lo, hi = b[i]
                        if v == ('allele', i) or (ploidy == 2 and not phased and v in (('min', pair), ('max', pair), ('min', pair[::-1]), ('max', pair[::-1]), ('allele', 1 - i))):
                            continue
                        if v[0] in ('min', 'max') and len(v[1]) == 2 and ('allele', i) in v[1] and any(x[0] == 'int' for x in v[1]):
                            c = next(x[1] for x in v[1] if x[0] == 'int')
                            if (v[0] == 'min' and hi > c) or (v[0] == 'max' and lo < c):
                                w = c + 1 if v[0] == 'min' else lo
                                if st.taint:
                                    undecided2 += 1
                                    continue
                                probs2.append(f'allele {i} is stored as {v[0]}(allele, {c}): e.g. Call({[w if x == i else b[x][0] for x in range(ploidy)]}, phased={phased}) silently becomes a call with allele {c} '
                                              f'- a different call is packed than the engine packs for the value given, and a decoded word comes back as another call')
                            continue
                        if v[0] == 'allele' and v[1] != i and ploidy == 2 and phased and not st.taint:
                            probs2.append('the two alleles of a phased call are stored in the other order')
                            continue
                        if v[0] == 'int' and lo != hi and not st.taint:
                            probs2.append(f'allele {i} is stored as the constant {v[1]}')
                            continue
                        undecided2 += 1
                sp = st.env.get(f'self.{p_attr}') if p_attr else None
                if sp is not None and sp[0] == 'bool' and sp[1] != phased and not st.taint:
                    probs2.append(f'the phased flag is stored as {sp[1]} for a call constructed with phased={phased}')
            probs2 = list(dict.fromkeys(probs2))
            ctx.check(not probs2, 'R10', cons2, ' | '.join(probs2[:2]), cm.path, init.lineno, detail={'accepting_paths': len(accepted), 'not_decided': undecided2})


def _reader_helper(m: pf.Module, name: str) -> Optional[pf.FuncDef]:
    """A helper of the decoder: nested in _tcall._convert_from_encoding, a method-level or a module-level function of that name."""
    fn = m.func('_tcall._convert_from_encoding')
    for n in ast.walk(fn):
        if isinstance(n, ast.FunctionDef) and n.name == name and n is not fn:
            return n
    return m.func(name) if m.has_func(name) else None


def _table(ctx: Ctx, entries: List[tuple], ctor: str, where: str) -> List[Tuple[int, int]]:
    out = []
    for e in entries:
        a = _call_args(e, (ctor,))
        ctx.need(a is not None and len(a) == 2 and a[0][0] == 'int' and a[1][0] == 'int', f'{where}: entry `{X.show(e)}` is not {ctor}(<int>, <int>)')
        out.append((a[0][1], a[1][1]))
    return out


def _r5(ctx: Ctx, m: pf.Module, pw: PyWriter, pr: PyReader, sc: ScalaCall):
    from engines.common import repo_path
    gp = repo_path(GENOSC)
    tv = m.global_assign('small_allele_pair')
    ctx.need(isinstance(tv, ast.List), 'small_allele_pair is not a list literal')
    ptab = _table(ctx, [X.from_py(e) for e in tv.elts], 'allele_pair', f'{F}::small_allele_pair')
    sv = X.from_scala(sc.G.val('Genotype', 'smallAllelePair'))
    ctx.need(sv[0] == 'call' and sv[1] == ('name', 'Array'), f'{GENOSC}::smallAllelePair is not Array(...)')
    stab = _table(ctx, [a for _, a in sv[2]], 'AllelePair', f'{GENOSC}::smallAllelePair')
    for lang, tab, file, rel in (('python', ptab, m.path, F + '::small_allele_pair'), ('scala', stab, gp, GENOSC + '::Genotype.smallAllelePair')):
        for i, (j, k) in enumerate(tab):
            ctx.check(0 <= j <= k and _tri(j, k) == i, 'R5', f'{rel}[{i}]',
                      f'entry {i} is ({j}, {k}) but the pair with gt index {i} is the one with k(k+1)/2 + j = {i}' +
                      (f' (this entry has index {_tri(j, k)})' if j <= k else ' (j > k)') + ': every diploid call with this representation decodes to the wrong alleles',
                      file, tv.lineno if lang == 'python' else 0)
    n = min(len(ptab), len(stab))
    ctx.check(ptab[:n] == stab[:n], 'R5', f'{F}::small_allele_pair::equals engine table on the common prefix',
              f'tables differ at index {next((i for i in range(n) if ptab[i] != stab[i]), -1)}', m.path, tv.lineno, detail={'python_len': len(ptab), 'scala_len': len(stab)})
    # lookup bound
    g = _reader_helper(m, 'gt_allele_pair')
    if g is None:
        ctx.need(pr is None, 'anchor vanished: gt_allele_pair')
        ctx.info(f'{F}: no helper named gt_allele_pair in the decoder; where the small table is consulted is decided by R7 (words on both sides of the table boundary)')
    else:
        _r5_bound(ctx, m, g, ptab)
    sd = sc.G.def_('Genotype', 'allelePair', n_params=1)
    e = X.from_scala(sd.body)
    si = sd.params[0][0]
    # `if (i < L) table(i) else sqrt(i)` in any spelling of the comparison / order of the branches; a recognised comparison with another boundary is a defect
    where_ = f'{GENOSC}::Genotype.allelePair'
    ctx.need(e[0] == 'if' and e[3] is not None, f'{where_}: body is not an if/else expression')
    cond = e[1]
    flip = False
    while cond[0] == 'un' and cond[1] == '!':
        cond, flip = S.strip(cond[2]) if cond[2][0] in ('paren',) else cond[2], not flip
    L_ = ('name', 'smallAllelePair.length')
    ctx.need(cond[0] == 'bin' and cond[1] in ('<', '<=', '>', '>=') and {cond[2], cond[3]} == {('name', si), L_}, f'{where_}: condition `{X.show(e[1])}` is not a comparison of {si} with smallAllelePair.length')
    op = cond[1] if cond[2] == ('name', si) else {'<': '>', '<=': '>=', '>': '<', '>=': '<='}[cond[1]]   # as `i op L`
    if flip:
        op = {'<': '>=', '>=': '<', '<=': '>', '>': '<='}[op]
    tab_e = ('call', ('name', 'smallAllelePair'), [(None, ('name', si))], None)
    is_tab = lambda x: x == tab_e
    is_sqrt = lambda x: _call_args(x, ('allelePairSqrt',)) == [('name', si)]
    ctx.need((is_tab(e[2]) and is_sqrt(e[3])) or (is_sqrt(e[2]) and is_tab(e[3])), f'{where_}: branches `{X.show(e[2])}` / `{X.show(e[3])}` are not smallAllelePair({si}) and allelePairSqrt({si})')
    table_when = op if is_tab(e[2]) else {'<': '>=', '>=': '<', '<=': '>', '>': '<='}[op]   # comparison `i ? L` under which the table is consulted
    ok = table_when == '<'
    ctx.check(ok, 'R5', f'{GENOSC}::Genotype.allelePair::bound', f'engine lookup is `{X.show(e)}`, expected if (i < smallAllelePair.length) smallAllelePair(i) else allelePairSqrt(i)', gp, sd.line)


def _r5_bound(ctx: Ctx, m: pf.Module, g: pf.FuncDef, ptab: List[Tuple[int, int]]):
    gi = W.param_names(g)[0]
    iffs = [s for s in g.body if isinstance(s, ast.If)]
    ctx.need(len(iffs) == 1 and len(iffs[0].body) == 1 and isinstance(iffs[0].body[0], ast.Return), 'gt_allele_pair: not `if <bound>: return table[i]; return sqrt(i)`')
    t = X.from_py(iffs[0].test)
    ok = t == ('bin', '<', ('name', gi), ('call', ('name', 'len'), [(None, ('name', 'small_allele_pair'))], None))
    lit = t[0] == 'bin' and t[1] in ('<', '<=') and t[2] == ('name', gi) and t[3][0] == 'int'
    if lit:
        ok = (t[3][1] + (1 if t[1] == '<=' else 0)) <= len(ptab)
    ctx.need(ok or lit or (t[0] == 'bin' and t[2] == ('name', gi)), f'gt_allele_pair: unrecognised bound `{pf.nsrc(iffs[0].test)}`')
    ctx.check(ok and pf.nsrc(iffs[0].body[0].value) == f'small_allele_pair[{gi}]', 'R5', f'{F}::_tcall._convert_from_encoding::gt_allele_pair bound',
              f'table consulted under `{pf.nsrc(iffs[0].test)}` returning `{pf.nsrc(iffs[0].body[0].value)}`: indices up to len(table) inclusive (or another entry) are looked up - '
              f'IndexError / wrong pair at the boundary', m.path, iffs[0].lineno)


def _r6(ctx: Ctx, m: pf.Module, pw: PyWriter, pr: PyReader, sc: ScalaCall):
    from engines.common import repo_path
    gp = repo_path(GENOSC)
    # python
    ap = m.func('allele_pair')
    a0, a1 = W.param_names(ap)
    pe = X.from_py(_ret_expr(ctx, ap, 'allele_pair'))
    apj = _reader_helper(m, 'ap_j')
    apk = _reader_helper(m, 'ap_k')
    have_py = apj is not None and apk is not None
    ctx.need(have_py or pr is None, 'anchor vanished: ap_j / ap_k')
    if have_py:
        je = X.from_py(_ret_expr(ctx, apj, 'ap_j'))
        ke = X.from_py(_ret_expr(ctx, apk, 'ap_k'))
    else:
        ctx.info(f'{F}: no helpers named ap_j/ap_k in the decoder; the unpacking of allele pairs is decided by R7')
    sa = sc.G.def_('AllelePair', 'apply', n_params=2)
    for st in sa.stmts()[:-1]:
        ctx.need(_sc_effect_only(st), f'{GENOSC}::AllelePair.apply: unrecognised statement')
    se = _sc_ret(ctx, sa, 'AllelePair.apply')
    sj = sc.G.def_('AllelePair', 'j', n_params=1)
    sk = sc.G.def_('AllelePair', 'k', n_params=1)
    sje, ske = _sc_ret(ctx, sj, 'AllelePair.j'), _sc_ret(ctx, sk, 'AllelePair.k')
    vals = [0, 1, 2, 7, 255, 256, 32767, 32768, 65535]
    combos = []
    if have_py:
        combos.append(('py', pe, (a0, a1), je, W.param_names(apj)[0], ke, W.param_names(apk)[0], m.path, F + '::allele_pair', ap.lineno))
    combos.append(('scala', se, (sa.params[0][0], sa.params[1][0]), sje, sj.params[0][0], ske, sk.params[0][0], gp, GENOSC + '::AllelePair', sa.line))
    for lang, pack, pn, uj, ujn, uk, ukn, file, rel, line in combos:
        bad = None
        for j in vals:
            for k in vals:
                p = X.ev(pack, {pn[0]: j, pn[1]: k}, lang)
                gj, gk = X.ev(uj, {ujn: p}, lang), X.ev(uk, {ukn: p}, lang)
                if (gj, gk) != (j, k):
                    bad = (j, k, p, gj, gk)
                    break
            if bad:
                break
        ctx.check(bad is None, 'R6', f'{rel}::pack/unpack', (f'pair (j={bad[0]}, k={bad[1]}) is packed to {bad[2]:#x} and unpacked to ({bad[3]}, {bad[4]})') if bad else '',
                  file, line, detail={'pairs': len(vals) ** 2})


def run(ctx: Ctx) -> None:
    ctx.level = 'other'
    ctx.explanation = ('(shift, mask) tables of the call word are extracted from _tcall._convert_to/from_encoding (ast) and from Call.scala (narrow extractors) and compared; '
                       'index formulas, the small allele-pair tables and the pair packing are compared by evaluating the extracted expression trees on a finite domain; '
                       'the two converter bodies as a whole (all return paths, helpers substituted) are rewritten into terms and compared with the engine\'s extracted terms over an '
                       'exact bit-field domain, per (ploidy, phased) case and for every value of the allele bits; the signedness of the decoded word is tracked per path.')
    m = pf.load(F)
    # the tabulated statement shape of the two Python converters (accumulator |= field << shift; if-chain over ploidy): when present, the
    # per-field rules below give precise diagnostics; when a converter has been restructured (early returns, inline formulas) its behaviour
    # is decided by the semantic rules R7 / R8 / R2-sign alone and the per-field Python instances are not produced
    pw: Optional[PyWriter] = None
    pr: Optional[PyReader] = None
    why_not = None
    try:
        pw = PyWriter(ctx, m)
        pr = PyReader(ctx, m)
        # dry run of the shape-dependent rules on a scratch context: if any of them does not recognise the shape, none of them is armed
        probe = Ctx(ctx.pid, ctx.tier)
        for rid in ('R1', 'R2', 'R3', 'R4', 'R5', 'R6'):
            probe.rule(rid, 'probe', 0)
        sc_probe = ScalaCall(probe)
        for fn_ in (_r1, _r2, _r3, _r4, _r5, _r6):
            fn_(probe, m, pw, pr, sc_probe)
    except AnalysisError as e:
        pw = pr = None
        why_not = str(e)
    legacy = pw is not None
    ctx.rule('R1', 'bit layout phased@0/1bit, ploidy@1/2bits, repr@3 agrees between Python writer, Python reader, Scala Call.apply, fromUnphasedDiploidGtIndex and the Scala accessors',
             18 if legacy else 10)
    ctx.rule('R2', 'Python writes the 32-bit word as the signed int32 with the same bits and the reader converts back to unsigned before any sign-sensitive use (per-path sign dataflow)',
             3 if legacy else 1)
    ctx.rule('R3', 'phased diploid (j,k) -> index(j, j+k) -> (j, k-j); unphased pairs sorted on both sides; allele order [j,k] preserved', 6 if legacy else 0)
    ctx.rule('R4', 'gt index k(k+1)/2+j and its sqrt inverse: Python and Scala expression trees evaluate identically and are mutually inverse on the evaluated domain', 3)
    ctx.rule('R5', 'small allele-pair tables: entry i has k(k+1)/2+j == i, j<=k, Python == Scala on the common prefix, consulted exactly for i < len', 75 if legacy else 74)
    ctx.rule('R6', 'allele-pair packing j | k<<16 is inverted by the accessors on each side', 2 if legacy else 1)
    ctx.rule('R7', 'decoder as a decision list of terms: per (ploidy, phased) case and for every value of the 29 allele bits (bit 31 of the word included) the term of the decoded call '
                   'equals the term the engine\'s accessors read (exact bit-vector domain with sign extension; PAIR uninterpreted on both sides)', 6)
    ctx.rule('R8', 'encoder as a decision list of terms: per (ploidy, phased) case and symbolic alleles the value written is a signed 32-bit integer whose 32 bits equal the term '
                   'Call0/Call1/Call2 -> Call.apply pack (phased bit, ploidy, representation; gt index in polynomial normal form)', 6)
    ctx.rule('R9', 'purity: the word packed for a call and the call decoded from a word do not depend on state that outlives the conversion (module globals, class attributes, '
                   'mutable defaults) - unless it is a memo whose key determines every input of the remembered value (every bit of the word / component of the call it depends on)', 3)
    ctx.rule('R10', 'domain: hail.genetics.Call.__init__ accepts every call the engine represents - per (ploidy, phased) case every allele interval of the engine '
                    '(haploid: 0..2^29-1; diploid: indices whose triangular representation is <= 2^29-1) passes every raise / assert of the constructor, and is stored unchanged (an unphased pair sorted)', 12)
    ctx.assume('JVM Int is 32-bit two\'s complement; struct "=i" packs a signed 32-bit integer; Scala infix precedence follows the first operator character')
    ctx.assume('calls in scope: ploidy 0..2, allele representation <= 2^29 - 1 (the engine rejects larger ones): in R8 every arithmetic term over allele indices used as a bit '
               'pattern is a non-negative value below 2^29; allele indices are non-negative, so Python // and JVM / coincide on them')
    ctx.assume('the pair inverse (small table below its length, sqrt formula above) is one function PAIR on each side; that the two sides\' PAIR agree is R4/R5, not R7')
    ctx.assume('Call values are well-formed: ploidy == len(alleles), alleles of an unphased diploid call sorted (Call.__init__, R3); Call.alleles of the engine is '
               '[] / [alleleRepr] / AllelePair.j,k(allelePairUnchecked) by ploidy')
    ctx.unit('files', 4)
    sc = ScalaCall(ctx)
    ctx.need(sc.max_repr_shift == 29, f'engine range check is (ar >>> {sc.max_repr_shift}) != 0; the analysed range assumes 29')
    ctx.unit('functions', 22)
    # shape-independent rules first: a violation they establish is reported even if a shape-dependent rule below declines; if they cannot
    # be set up (e.g. the engine's own packer and accessors disagree about the layout - R1 reports that) the decline is raised at the end
    deferred: Optional[str] = None
    purity_undecided = _r9_purity(ctx, m)
    try:
        ab = Abstract(ctx, m, sc)
        _r7_decode(ctx, m, ab, sc)
        _r8_encode(ctx, m, ab, sc)
        deferred = _r2_sign(ctx, m, ab)
    except AnalysisError as e:
        deferred = str(e)
    if not legacy:
        ctx.info(f'{F}::_tcall: the Python converters do not have the tabulated statement shape ({why_not}); their agreement with the engine is decided by R7/R8/R2-sign '
                 f'(evaluation of the whole bodies), the per-field Python instances of R1-R6 are not produced')
        ctx.extra_cov['python_shape'] = {'tabulated': False, 'reason': why_not}
    try:
        _r10_domain(ctx, sc)
    except AnalysisError as e:
        deferred = deferred or str(e)
    _r1(ctx, m, pw, pr, sc)
    if legacy:
        _r2(ctx, m, pw, pr, sc)
        _r3(ctx, m, pw, pr, sc)
    _r4(ctx, m, pw, pr, sc)
    _r5(ctx, m, pw, pr, sc)
    _r6(ctx, m, pw, pr, sc)
    ctx.need(deferred is None, deferred or '')
    ctx.need(purity_undecided is None, purity_undecided or '')
