"""C35 CSE rendering preserves meaning - binder metadata consistency.

The CSE renderer (hail/python/hail/ir/renderer.py) decides where a shared sub-expression may be let-bound purely from per-class
metadata: `renderable_bindings / renderable_agg_bindings / renderable_scan_bindings` (which names a node binds in which child),
`renderable_uses_agg_context / renderable_uses_scan_context` (context switches), `renderable_new_block`, and the pseudo variable
`agg_capability` that pins aggregations below the node that gives them meaning.  The names themselves reach the engine through
`head_str`.  This module builds the class table of the IR modules (MRO resolved, base-class defaults included), evaluates the
metadata methods symbolically for every child position x every valuation of the flags they test, and decides:

  R1  names in `bound_variables` == names bound by the binder methods (value IR classes), children's names are kept
  R2  every bound name is rendered by `head_str`
  R3  ... through `escape_id` (frozen exception table: names that are always Env.get_uid() identifiers)
  R4  every child index a binder method tests exists in the child list the constructor registers
  R5  the child positions a node binds names for are the positions the engine binds names for (arms of childEnv* in Binds.scala)
  R6  agg/scan context switches and agg/scan bindings are mirror images under `is_scan`
  R7  a node that moves a child into the aggregation/scan context *references* agg_capability (else CSE may lift it out of the
      AggFilter/AggGroupBy/... that gives it meaning)
  R8  the two renderer passes consume the metadata identically, and the child-index wrappers in base_ir delegate to the
      same-named renderable_* method
  R9  classes that remap child indices (renderable_idx_of_child) bind nothing (renderable_child_context re-maps the index)
Does not decide: semantic equality of rendered and inlined IR; the typing of binders (C36).
"""
from __future__ import annotations

import ast
from typing import Dict, FrozenSet, List, Optional, Set, Tuple

from engines import irclasses as ic
from engines import pyfacts as pf
from engines.common import AnalysisError, Ctx

META = dict(
    category='other',
    text='Class-table consistency of the binder metadata the CSE renderer relies on (187 IR classes, MRO resolved): every metadata method is '
         'evaluated symbolically over all child positions x flag valuations by our own evaluator over the syntax tree, and the sibling '
         'facts (bound_variables, head_str, bindings, context switches, agg_capability, the two renderer passes) are compared. This is a '
         'necessary-condition check, not a proof of rendering equivalence, hence "other".',
    note='Trusted: CPython ast; engines/irclasses.py. Frozen exception tables (with reasons) in this module. Not decided: semantic equality of '
         'rendered and inlined IR, the Scala parser\'s argument order.',
    technique='static analysis: class-table construction with MRO resolution + symbolic evaluation of dict/set-valued metadata methods',
    design_ref='DESIGN.md §3 C35',
)

# ---- frozen exception tables (one line each, with the reason) -------------------------------------------------------------
NO_BOUND_VARIABLES = {
    'StreamZipJoin': 'declares no bound_variables although it binds cur_key/cur_vals; the only consumer (_check_agg_bindings) then '
                     'over-rejects aggregated zip-joins - a false rejection, never a mis-rendering',
    'StreamZipJoinProducers': 'same as StreamZipJoin (ctx_name, cur_key, cur_vals)',
}
RAW_RENDERED = {
    ('AggFold', 'A:accum_name'): 'Env.get_uid() at the only construction site (aggregators.AggFunc._fold)',
    ('AggFold', 'A:other_accum_name'): 'Env.get_uid() (aggregators.AggFunc._fold)',
    ('StreamZipJoin', 'A:cur_key'): 'Env.get_uid() (expr.functions._union_intersection_base)',
    ('StreamZipJoin', 'A:cur_vals'): 'Env.get_uid() (expr.functions._union_intersection_base)',
    ('StreamZipJoinProducers', 'A:ctx_name'): 'Env.get_uid() (expr.functions._zip_join_producers)',
    ('StreamZipJoinProducers', 'A:cur_key'): 'Env.get_uid() (expr.functions._zip_join_producers)',
    ('StreamZipJoinProducers', 'A:cur_vals'): 'Env.get_uid() (expr.functions._zip_join_producers)',
    ('StreamJoinRightDistinct', 'A:l_name'): 'Env.get_uid() (vds.impex; unpack_uid in _handle_randomness)',
    ('StreamJoinRightDistinct', 'A:r_name'): 'Env.get_uid() (vds.impex; unpack_uid in _handle_randomness)',
    ('ArrayMaximalIndependentSet', 'A:left_name'): 'Env.get_uid() (methods.misc.maximal_independent_set)',
    ('ArrayMaximalIndependentSet', 'A:right_name'): 'Env.get_uid() (methods.misc.maximal_independent_set)',
    ('TableGen', 'A:cname'): 'f"context_{Env.get_uid()}" (Table._generate)',
    ('TableGen', 'A:gname'): 'f"globals_{Env.get_uid()}" (Table._generate)',
}
SCAN_BINDINGS_IGNORE_IS_SCAN = {
    'AggExplode': 'renderable_scan_bindings delegates to renderable_agg_bindings whatever is_scan is: the name is (harmlessly) bound in both '
                  'the agg and the scan context; names are unique uids',
}
NO_CAPABILITY_NEEDED = {
    'AggLet': 'an aggregation-scope let: its value is a per-record expression, it performs no aggregation (base_ir comment on agg_capability)',
}

BINDER_API = ('bindings', 'agg_bindings', 'scan_bindings')


def _binder_classes(t: ic.Table) -> List[ic.Cls]:
    return [c for c in t.ir_classes() if any(ic.binder_func(c, f) is not None for f in BINDER_API)]


def _positions(cls: ic.Cls, lay: ic.Layout, flags: Dict[str, bool]) -> List[Tuple[ic.Pos, str]]:
    """Renderable positions that exist under this flag valuation (optional children vanish when their attribute is None)."""
    if ic.renderable_index_map(cls, lay) is not None:
        return ic.renderable_positions(cls, lay)
    out = []
    for p, s in lay.positions():
        if s.kind == 'opt' and any(flags.get(f'self.{a} is None') for a in lay.attrs.get(s.name, set())):
            continue
        out.append((p, repr(s)))
    return out


def _all_atoms(cls: ic.Cls, extra: List[str]) -> List[str]:
    atoms = ic.flag_atoms(cls, list(BINDER_API) + extra)
    for lay in ic.layouts(cls):
        for s in lay.segs:
            if s.kind == 'opt':
                for a in lay.attrs.get(s.name, set()):
                    k = f'self.{a} is None'
                    if k not in atoms:
                        atoms.append(k)
    return atoms


DV = 'default_value is None'


def _vals(atoms: List[str]):
    """Valuations of the flags on the path the renderer and free_vars take: they always pass a default_value (a depth / 0), so the
    `default_value is None` (typed) branch of a binder method is only reached from _compute_type, whose environments are consulted
    only under deep_typecheck=True - an edit confined to that branch cannot change behaviour and must not alarm."""
    for fl in ic.valuations([a for a in atoms if a != DV]):
        yield {**fl, DV: False}


def _bound_names(t: ic.Table, cls: ic.Cls, flags: Dict[str, bool]) -> FrozenSet[str]:
    out: Set[str] = set()
    for lay in ic.layouts(cls):
        for p, _ in _positions(cls, lay, flags):
            for f in BINDER_API:
                out |= {k for k in ic.binder_keys(t, cls, f, p, flags, lay) if k.startswith(('A:', 'EACH:'))}
    return frozenset(out)


def _fmt(tokens) -> str:
    return '{' + ', '.join(sorted(tokens)) + '}'


# ---------------------------------------------------------------------------------------------------------------------------
def check_bound_variables(ctx: Ctx, t: ic.Table) -> None:
    for cls in t.ir_classes():
        if not cls.is_a('IR'):
            continue
        has_binders = cls in _binder_classes(t)
        bv_def = cls.resolve_nonroot('bound_variables')
        if bv_def is None and not has_binders:
            continue
        atoms = _all_atoms(cls, [])
        bv_atoms = ic.collect_atoms(bv_def[1], None) if bv_def else []
        for a in bv_atoms:
            if a not in atoms:
                atoms.append(a)
        names_any = frozenset().union(*[_bound_names(t, cls, fl) for fl in _vals(atoms)])
        cons = cls.key('bound_variables')
        if bv_def is None:
            if not names_any:
                continue  # binds only implicit names (global/row/..., agg_capability)
            if cls.name in NO_BOUND_VARIABLES:
                ctx.ok('R1', cons, {'exception': NO_BOUND_VARIABLES[cls.name], 'binds': sorted(names_any)}, nontrivial=False)
                ctx.info(f'C35-R1 exception {cls.name}: binds {_fmt(names_any)} but declares no bound_variables ({NO_BOUND_VARIABLES[cls.name]})')
                continue
            ctx.bad('R1', cons, f'{cls.name} binds {_fmt(names_any)} in its children (renderable_*bindings) but inherits the default '
                    f'`bound_variables`, which does not report them', cls.mod.path, cls.node.lineno)
            continue
        owner, fn = bv_def
        problems = []
        for fl in _vals(atoms):
            toks = ic.SetEval(t, cls, fn, owner, fl).run()
            want = _bound_names(t, cls, fl)
            got = frozenset(x for x in toks if x != ic.SUPER)
            if ic.SUPER not in toks:
                problems.append(f'under {fl} the result omits `super().bound_variables`: names bound by nested nodes are lost')
            if got != want:
                problems.append(f'under {fl} bound_variables reports {_fmt(got)} but the binder methods bind {_fmt(want)}')
        if problems:
            ctx.bad('R1', cons, problems[0] + (f' (+{len(problems) - 1} more valuations)' if len(problems) > 1 else ''), owner.mod.path, fn.lineno)
        else:
            ctx.ok('R1', cons, {'names': sorted(names_any), 'valuations': 2 ** len([a for a in atoms if a != DV])})


def check_head(ctx: Ctx, t: ic.Table) -> None:
    for cls in _binder_classes(t):
        atoms = _all_atoms(cls, [])
        names = frozenset().union(*[_bound_names(t, cls, fl) for fl in _vals(atoms)])
        if not names:
            continue
        holes = ic.head_holes(cls)
        hd = cls.resolve('head_str')
        path, line = (hd[0].mod.path, hd[1].lineno) if hd else (cls.mod.path, cls.node.lineno)
        rendered: Dict[str, List[bool]] = {}
        for tok, esc, _src in holes or []:
            rendered.setdefault(tok, []).append(esc)
        for n in sorted(names):
            cons = f'{cls.key("head_str")}::{n}'
            if n not in rendered:
                ctx.bad('R2', cons, f'{cls.name} binds the name {n} for a child but head_str does not render it: the engine parses a different '
                        f'binder than the one the renderer scoped', path, line)
                continue
            ctx.ok('R2', cons, None)
            if all(rendered[n]):
                ctx.ok('R3', cons, 'escape_id')
            elif (cls.name, n) in RAW_RENDERED:
                ctx.ok('R3', cons, {'exception': RAW_RENDERED[(cls.name, n)]}, nontrivial=False)
            else:
                ctx.bad('R3', cons, f'{cls.name}.head_str renders the binder name {n} without escape_id: a name that is not a plain identifier '
                        f'is emitted unquoted and the IR text no longer parses to the same binder', path, line)


def _index_refs(fn: pf.FuncDef, ivar: str) -> List[ast.AST]:
    out = []
    for n in pf.walk_shallow(fn):
        if isinstance(n, ast.Compare) and isinstance(n.left, ast.Name) and n.left.id == ivar and len(n.ops) == 1:
            rhs = n.comparators[0]
            if isinstance(rhs, (ast.Set, ast.Tuple, ast.List)):
                out += list(rhs.elts)
            else:
                out.append(rhs)
    return out


def check_binder_methods(ctx: Ctx, t: ic.Table) -> None:
    for cls in _binder_classes(t):
        lays = ic.layouts(cls)
        atoms = _all_atoms(cls, [])
        for f in BINDER_API:
            r = ic.binder_func(cls, f)
            if r is None:
                continue
            owner, fn = r
            cons = cls.key(fn.name)
            ivar = fn.args.args[1].arg
            problems: List[str] = []
            # (a) same key set with and without default_value
            dv = 'default_value is None'
            for lay in lays:
                for fl in ic.valuations([a for a in atoms if a != dv]):
                    for p, label in _positions(cls, lay, fl):
                        k1 = ic.binder_keys(t, cls, f, p, {**fl, dv: True}, lay)
                        k2 = ic.binder_keys(t, cls, f, p, {**fl, dv: False}, lay)
                        if k1 != k2:
                            # the typed branch is only read by _compute_type (deep_typecheck environments): information, not a violation
                            ctx.info(f'{cls.name}.{fn.name}: for child {label} the typed result binds {_fmt(k1)} but the default_value result '
                                     f'(renderer / free_vars) binds {_fmt(k2)}')
            # (b) every tested child index exists
            for e in _index_refs(fn, ivar):
                if isinstance(e, ast.Constant) and isinstance(e.value, int):
                    ns = [lay.n_fixed() for lay in lays]
                    m = ic.renderable_index_map(cls, lays[0])
                    if m is not None:
                        if e.value not in m.values():
                            problems.append(f'tests renderable child index {e.value}, which renderable_idx_of_child never produces')
                    elif any(n is None for n in ns):
                        problems.append(f'tests the constant child index {e.value} although the constructor registers a variable-length child list {lays}')
                    elif e.value >= max(ns) or e.value < 0:  # type: ignore[type-var]
                        problems.append(f'binds names for child index {e.value} but the constructor registers only {max(ns)} children {lays[0]}')  # type: ignore[type-var]
                elif isinstance(e, ast.Call) and pf.dotted(e.func) == 'len':
                    hit = False
                    for lay in lays:
                        for p, s in lay.positions():
                            if p[0] == 'len' and p[2] == 0:
                                a = ic._self_attr(e.args[0])
                                if a is not None and ic._group_attr_matches(ic.Scenario(cls, p, {}, lay), a, p[1]):
                                    hit = True
                    if not hit:
                        problems.append(f'tests child index `{pf.nsrc(e)}`, which is not the position of a child registered after a starred group in {lays}')
                else:
                    raise AnalysisError(f'{cons}: unrecognised child index `{pf.nsrc(e)}`')
            if problems:
                ctx.bad('R4', cons, problems[0] + (f' (+{len(problems) - 1} more)' if len(problems) > 1 else ''), owner.mod.path, fn.lineno)
            else:
                ctx.ok('R4', cons, {'layouts': [repr(l) for l in lays]})


def check_typing_position(ctx: Ctx, t: ic.Table) -> None:
    """Information only: `X.compute_type(.. self.bindings(K) ..)` should type the child registered at position K.  The environments
    are consulted only under deep_typecheck=True (no in-repo caller), so a disagreement here cannot change behaviour."""
    for cls in _binder_classes(t):
        r = cls.resolve_nonroot('_compute_type')
        if r is None:
            continue
        owner, fn = r
        tc = ic.typing_calls(t, cls)
        if tc is None:
            continue
        for call in tc[2]:
            for arg in call.node.args:
                for sub in ast.walk(arg):
                    if (isinstance(sub, ast.Call) and isinstance(sub.func, ast.Attribute) and sub.func.attr in BINDER_API
                            and isinstance(sub.func.value, ast.Name) and sub.func.value.id == 'self' and sub.args):
                        ev = ic.TypeEval(t, cls, fn, owner, {}, [call.layout])
                        kpos = ev.resolve_pos(ic._index_value(ev.sc, sub.args[0], owner.key('_compute_type')))
                        if kpos != call.pos:
                            ctx.info(f'{cls.name}._compute_type types child `{call.recv}` (position {_pos(call.pos)}) under self.{sub.func.attr}({pf.nsrc(sub.args[0])}) '
                                     f'(deep_typecheck-only; see C36)')


# ---- R5: binder positions agree with the engine (Binds.scala) --------------------------------------------------------------
BINDS_SCALA = 'hail/hail/src/is/hail/expr/ir/Binds.scala'
SCALA_DEFS = ('childEnvValue', 'childEnvTable', 'childEnvMatrix', 'childEnvBlockMatrix')
NOT_IN_SCALA = {
    'Let': 'the engine represents lets as Block(bindings, body); the IR parser builds the Block from `Let`',
    'AggLet': 'same as Let (Block with Scope.AGG / Scope.SCAN bindings)',
}


def _scala_branches(S, bs: int, be: int, where: str):
    """An arm body that is `if (i == K) e1 else if (i == M) e2 else e3` -> [(K | 'else', text)]; None when it is not such a chain."""
    code = S.code
    out = []
    i = bs
    while True:
        while i < be and code[i] in ' \t\r\n':
            i += 1
        if not code.startswith('if', i) or (code[i + 2].isalnum() or code[i + 2] == '_'):
            return None if not out else out + [('else', S.norm(i, be))]
        j = i + 2
        while j < be and code[j] in ' \t\r\n':
            j += 1
        if code[j] != '(':
            return None
        close = S.match_bracket(j)
        cond = S.norm(j + 1, close)
        k = close + 1
        start = k
        depth_else = None
        while k < be:
            c = code[k]
            if c in '([{':
                k = S.match_bracket(k) + 1
                continue
            if code.startswith('else', k) and not (code[k - 1].isalnum() or code[k - 1] == '_') and not (code[k + 4].isalnum() or code[k + 4] == '_'):
                depth_else = k
                break
            k += 1
        text = S.norm(start, depth_else if depth_else is not None else be)
        out.append((cond, text))
        if depth_else is None:
            return out
        i = depth_else + 4


def _scala_index(cond: str, pattern_args: List[str]):
    """`i == 2` -> ('c', 2); `i == as.length` -> ('lenarg', position of `as` in the constructor pattern); else None."""
    parts = cond.replace('(', ' ').replace(')', ' ').split()
    if len(parts) == 3 and parts[0] == 'i' and parts[1] == '==':
        if parts[2].isdigit():
            return ('c', int(parts[2]))
        if parts[2].endswith('.length') and parts[2][:-7] in pattern_args:
            return ('lenarg', pattern_args.index(parts[2][:-7]))
    return None


def _binds_names(text: str) -> bool:
    """Does a Bindings(...) expression bind variables (as opposed to only switching aggregation environments)?"""
    toks = text.replace('(', ' ').replace(')', ' ').replace(',', ' ').replace('.', ' ').split()
    return '->' in toks or 'zip' in toks or any(tk.endswith('Bindings') and tk != 'Bindings' for tk in toks)


def scala_binder_table() -> Dict[str, Tuple[List, bool, int]]:
    """class -> ([(index | 'else', binds names?)], decided?, line).  index is ('c', k) or ('lenarg', pattern position)."""
    from engines import scalalite as sl
    S = sl.load(BINDS_SCALA)
    out: Dict[str, Tuple[List, bool, int]] = {}
    for d in SCALA_DEFS:
        _start, lo, hi, _sig = S.find_def(d)
        pos = S.code.find('match', lo, hi)
        brace = S.code.find('{', pos, hi) if pos >= 0 else -1
        if brace < 0:
            raise AnalysisError(f'{BINDS_SCALA}::{d}: `ir match {{` not found')
        end = S.match_bracket(brace)
        for pat, bs, be in S.case_arms(brace + 1, end):
            if '(' not in pat:
                continue
            name = pat[:pat.index('(')].strip()
            close = pat.rindex(')')
            # split the guard off: `Name(args) if <guard>`
            depth = 0
            k = pat.index('(')
            for k in range(pat.index('('), len(pat)):
                if pat[k] in '([':
                    depth += 1
                elif pat[k] in ')]':
                    depth -= 1
                    if depth == 0:
                        break
            args = [a.strip() for a in pat[pat.index('(') + 1:k].split(',')]
            guard = pat[k + 1:].strip()
            line = S.line_of(bs)
            if guard:
                if not guard.startswith('if '):
                    raise AnalysisError(f'{BINDS_SCALA}:{line}: unrecognised arm `{pat}`')
                idx = _scala_index(guard[3:], args)
                if idx is None:
                    out[name] = ([], False, line)
                else:
                    out[name] = ([(idx, _binds_names(S.norm(bs, be)))], True, line)
                continue
            chain = _scala_branches(S, bs, be, f'{BINDS_SCALA}:{line}')
            if chain is None:
                out[name] = ([], False, line)
                continue
            branches = []
            decided = True
            for cond, text in chain:
                if cond == 'else':
                    branches.append(('else', _binds_names(text)))
                else:
                    idx = _scala_index(cond, args)
                    if idx is None:
                        decided = False
                    branches.append((idx, _binds_names(text)))
            out[name] = (branches, decided, line)
    return out


def check_scala_positions(ctx: Ctx, t: ic.Table) -> None:
    table = scala_binder_table()
    ctx.unit('scala_binder_arms', len(table))
    for cls in _binder_classes(t):
        atoms = _all_atoms(cls, [])
        lays = ic.layouts(cls)
        per_pos: Dict[Tuple, Tuple[bool, str]] = {}
        for lay in lays:
            for fl in _vals(atoms):
                for p, label in _positions(cls, lay, fl):
                    b = any(ic.named(ic.binder_keys(t, cls, f, p, fl, lay)) for f in BINDER_API)
                    per_pos[p] = (per_pos.get(p, (False, label))[0] or b, label)
        if not any(b for b, _ in per_pos.values()):
            continue
        cons = f'{cls.key("renderable_bindings")}::child positions'
        if cls.name in NOT_IN_SCALA:
            ctx.ok('R5', cons, {'exception': NOT_IN_SCALA[cls.name]}, nontrivial=False)
            continue
        if cls.name not in table:
            raise AnalysisError(f'{cons}: {cls.name} binds names but has no arm in {BINDS_SCALA} (childEnv*)')
        branches, decided, line = table[cls.name]
        if not decided:
            raise AnalysisError(f'{BINDS_SCALA}:{line}: arm of {cls.name} is not an `i == K` guard or if-chain')
        ctor = cls.resolve('__init__')[1]  # type: ignore[index]
        problems = []
        for p, (py_binds, label) in sorted(per_pos.items(), key=repr):
            sc_binds = None
            for idx, b in branches:
                if idx == 'else':
                    sc_binds = b
                    break
                if idx[0] == 'c' and p == ('c', idx[1]):
                    sc_binds = b
                    break
                if idx[0] == 'lenarg' and p[0] == 'len' and p[2] == 0:
                    sc_binds = b
                    break
            if sc_binds is None:
                sc_binds = False
            if py_binds != sc_binds:
                problems.append(f'child {label} (position {_pos(p)}): the Python node {"binds" if py_binds else "binds no"} names for it but the engine '
                                f'({BINDS_SCALA}:{line}) {"binds" if sc_binds else "binds no"} names there: lets are scoped against the wrong child and a '
                                f'sub-expression using the name can be lifted above its binder')
        if problems:
            r = ic.binder_func(cls, 'bindings') or ic.binder_func(cls, 'agg_bindings') or ic.binder_func(cls, 'scan_bindings')
            ctx.bad('R5', cons, problems[0] + (f' (+{len(problems) - 1} more)' if len(problems) > 1 else ''), r[0].mod.path, r[1].lineno)  # type: ignore[index]
        else:
            ctx.ok('R5', cons, {'scala_line': line, 'positions': {_pos(p): b for p, (b, _) in per_pos.items()}})


def _pos(p) -> str:
    if p[0] == 'c':
        return str(p[1])
    if p[0] == 'in':
        return f'<element of *{p[1]}>'
    return f'len({p[1]})' + (f'+{p[2]}' if p[2] else '')


def _bool_method(t: ic.Table, cls: ic.Cls, meth: str, pos, flags: Dict[str, bool], lay: ic.Layout) -> bool:
    r = cls.resolve_nonroot(meth)
    if r is None:
        return False
    owner, fn = r
    body = [s for s in fn.body if not (isinstance(s, ast.Expr) and isinstance(s.value, ast.Constant))]
    if not (len(body) == 1 and isinstance(body[0], ast.Return) and body[0].value is not None):
        raise AnalysisError(f'{owner.key(meth)}: unrecognised body (expected a single `return <test>`)')
    ivar = fn.args.args[1].arg if len(fn.args.args) > 1 else None
    fl = dict(flags)
    for a in ic.collect_atoms_expr(body[0].value, ivar):
        fl.setdefault(a, False)
    return ic.eval_test(ic.Scenario(cls, pos, fl, lay), body[0].value, ivar, owner.key(meth))


def _switching_classes(t: ic.Table) -> List[ic.Cls]:
    return [c for c in t.ir_classes() if c.resolve_nonroot('renderable_uses_agg_context') or c.resolve_nonroot('renderable_uses_scan_context')]


def check_context_switch(ctx: Ctx, t: ic.Table) -> None:
    SC = 'self.is_scan'
    for cls in _switching_classes(t):
        lay = ic.layouts(cls)[0]
        ra, rs = cls.resolve_nonroot('renderable_uses_agg_context'), cls.resolve_nonroot('renderable_uses_scan_context')
        atoms: List[str] = []
        for r in (ra, rs):
            if r is not None:
                body = [s for s in r[1].body if isinstance(s, ast.Return)]
                for s in body:
                    for a in ic.collect_atoms_expr(s.value, r[1].args.args[1].arg):
                        if a not in atoms:
                            atoms.append(a)
        cons = cls.key('renderable_uses_agg_context/renderable_uses_scan_context')
        node = (ra or rs)[1]  # type: ignore[index]
        path = (ra or rs)[0].mod.path  # type: ignore[index]
        problems: List[str] = []
        positions = ic.renderable_positions(cls, lay)
        if SC in atoms:
            other = [a for a in atoms if a != SC]
            for fl in ic.valuations(other):
                for p, label in positions:
                    a_f = _bool_method(t, cls, 'renderable_uses_agg_context', p, {**fl, SC: False}, lay)
                    a_t = _bool_method(t, cls, 'renderable_uses_agg_context', p, {**fl, SC: True}, lay)
                    s_f = _bool_method(t, cls, 'renderable_uses_scan_context', p, {**fl, SC: False}, lay)
                    s_t = _bool_method(t, cls, 'renderable_uses_scan_context', p, {**fl, SC: True}, lay)
                    if a_t or s_f:
                        problems.append(f'child {label}: uses_agg_context is {a_t} with is_scan=True / uses_scan_context is {s_f} with is_scan=False')
                    if a_f != s_t:
                        problems.append(f'child {label}: evaluated in the aggregation context when is_scan=False ({a_f}) but '
                                        f'{"not " if not s_t else ""}in the scan context when is_scan=True: lets are lifted into the wrong scope for one of the two')
        else:
            for fl in ic.valuations(atoms):
                for p, label in positions:
                    a = _bool_method(t, cls, 'renderable_uses_agg_context', p, fl, lay)
                    s = _bool_method(t, cls, 'renderable_uses_scan_context', p, fl, lay)
                    if a and s:
                        problems.append(f'child {label} is declared to use both the aggregation and the scan context')
            if not any(_bool_method(t, cls, m, p, fl, lay) for m in ('renderable_uses_agg_context', 'renderable_uses_scan_context')
                       for p, _ in positions for fl in ic.valuations(atoms)):
                problems.append('defines a context switch that is never true for any registered child')
        if problems:
            ctx.bad('R6', cons, problems[0] + (f' (+{len(problems) - 1} more)' if len(problems) > 1 else ''), path, node.lineno)
        else:
            ctx.ok('R6', cons, {'is_scan_mirrored': SC in atoms})

        # agg/scan *bindings* mirrored under is_scan
        if ic.binder_func(cls, 'agg_bindings') is None and ic.binder_func(cls, 'scan_bindings') is None:
            continue
        batoms = _all_atoms(cls, [])
        if SC not in atoms:
            continue
        cons2 = cls.key('renderable_agg_bindings/renderable_scan_bindings')
        bf = ic.binder_func(cls, 'agg_bindings') or ic.binder_func(cls, 'scan_bindings')
        problems = []
        for fl in _vals([a for a in batoms if a != SC]):
            for p, label in positions:
                ag_f = ic.binder_keys(t, cls, 'agg_bindings', p, {**fl, SC: False}, lay)
                ag_t = ic.binder_keys(t, cls, 'agg_bindings', p, {**fl, SC: True}, lay)
                sc_f = ic.binder_keys(t, cls, 'scan_bindings', p, {**fl, SC: False}, lay)
                sc_t = ic.binder_keys(t, cls, 'scan_bindings', p, {**fl, SC: True}, lay)
                if ag_f != sc_t:
                    problems.append(f'child {label}: binds {_fmt(ag_f)} in the aggregation scope when is_scan=False but {_fmt(sc_t)} in the scan scope when is_scan=True')
                if (ag_t or sc_f) and cls.name not in SCAN_BINDINGS_IGNORE_IS_SCAN:
                    problems.append(f'child {label}: binds {_fmt(ag_t)} in the aggregation scope although is_scan=True / {_fmt(sc_f)} in the scan scope although is_scan=False')
        if problems:
            ctx.bad('R6', cons2, problems[0] + (f' (+{len(problems) - 1} more)' if len(problems) > 1 else ''), bf[0].mod.path, bf[1].lineno)  # type: ignore[index]
        else:
            ctx.ok('R6', cons2, {'exception': SCAN_BINDINGS_IGNORE_IS_SCAN.get(cls.name)})


def _returns_true(cls: ic.Cls, meth: str) -> Optional[bool]:
    r = cls.resolve(meth)
    if r is None:
        return None
    body = [s for s in r[1].body if not (isinstance(s, ast.Expr) and isinstance(s.value, ast.Constant))]
    if len(body) == 1 and isinstance(body[0], ast.Return) and isinstance(body[0].value, ast.Constant) and isinstance(body[0].value.value, bool):
        return body[0].value.value
    raise AnalysisError(f'{r[0].key(meth)}: unrecognised body (expected `return True/False`)')


def check_capability(ctx: Ctx, t: ic.Table) -> None:
    for cls in _switching_classes(t):
        cons = cls.key('uses_agg_capability')
        cap = _returns_true(cls, 'uses_agg_capability')
        if cap is None:
            raise AnalysisError(f'{cons}: uses_agg_capability not found through the MRO')
        if cap:
            ctx.ok('R7', cons, None)
        elif cls.name in NO_CAPABILITY_NEEDED:
            ctx.ok('R7', cons, {'exception': NO_CAPABILITY_NEEDED[cls.name]}, nontrivial=False)
        else:
            d = cls.resolve_nonroot('renderable_uses_agg_context') or cls.resolve_nonroot('renderable_uses_scan_context')
            ctx.bad('R7', cons, f'{cls.name} evaluates children in the aggregation/scan context (it performs an aggregation) but '
                    f'uses_agg_capability() is False, so agg_capability is not among its free variables: a {cls.name} shared between an '
                    f'AggFilter/AggGroupBy/AggExplode/AggArrayPerElement body and the enclosing aggregation gets the bind depth of the '
                    f'outer aggregation and is let-lifted out of the filter/group', d[0].mod.path, d[1].lineno)  # type: ignore[index]
    # positive control for the table itself: at least one class binds CAP (defines the meaning of aggregations)
    binders = []
    for cls in _binder_classes(t):
        for lay in ic.layouts(cls)[:1]:
            for p, _ in _positions(cls, lay, {}):
                if ic.CAP in ic.binder_keys(t, cls, 'bindings', p, {}, lay):
                    binders.append(cls.name)
    ctx.check(len(set(binders)) >= 10, 'R7', 'agg_capability binders', f'only {sorted(set(binders))} bind agg_capability', detail=sorted(set(binders)))


# ---------------------------------------------------------------------------------------------------------------------------
WRAPPERS = {
    'bindings': 'renderable_bindings', 'agg_bindings': 'renderable_agg_bindings', 'scan_bindings': 'renderable_scan_bindings',
    'uses_agg_context': 'renderable_uses_agg_context', 'uses_scan_context': 'renderable_uses_scan_context',
    'new_block': 'renderable_new_block', 'child_context': 'renderable_child_context',
}


def check_wrappers(ctx: Ctx, t: ic.Table) -> None:
    base = t.get('BaseIR')
    for w, target in WRAPPERS.items():
        if w not in base.methods:
            raise AnalysisError(f'anchor vanished: BaseIR.{w}')
        fn = base.methods[w]
        cons = base.key(w)
        body = [s for s in fn.body if not (isinstance(s, ast.Expr) and isinstance(s.value, ast.Constant))]
        if not (len(body) == 1 and isinstance(body[0], ast.Return) and isinstance(body[0].value, ast.Call)):
            raise AnalysisError(f'{cons}: unrecognised wrapper body')
        call = body[0].value
        d = pf.dotted(call.func)
        if not (d and d.startswith('self.') and call.args):
            raise AnalysisError(f'{cons}: unrecognised wrapper body `{pf.nsrc(call)}`')
        ivar = fn.args.args[1].arg
        first = pf.nsrc(call.args[0])
        rest_want = [a.arg for a in fn.args.args[2:]]
        rest_got = [pf.nsrc(a) for a in call.args[1:]] + [pf.nsrc(k.value) for k in call.keywords]
        ok = d == f'self.{target}' and first == f'self.renderable_idx_of_child({ivar})' and rest_got == rest_want
        ctx.check(ok, 'R8', cons, f'BaseIR.{w} returns `{pf.nsrc(call)}`; the analysis pass (child indices) and the print pass (renderable indices) '
                  f'only agree if it is `self.{target}(self.renderable_idx_of_child({ivar}), ...)`', base.mod.path, fn.lineno)


def _chain(fn: pf.FuncDef) -> List[Tuple[str, Dict[str, str]]]:
    """The if/elif chain on new_block / uses_agg_context / uses_scan_context in make_child_frame:
    [(predicate method, {assigned variable: value text})]."""
    for st in pf.walk_shallow(fn):
        if isinstance(st, ast.If):
            out = []
            cur: Optional[ast.If] = st
            while cur is not None:
                if not (isinstance(cur.test, ast.Call) and isinstance(cur.test.func, ast.Attribute)):
                    out = []
                    break
                assigns = {}
                for s in cur.body:
                    if not (isinstance(s, ast.Assign) and len(s.targets) == 1 and isinstance(s.targets[0], ast.Name)):
                        raise AnalysisError(f'renderer make_child_frame: unrecognised statement `{pf.nsrc(s)}` in the context chain')
                    assigns[s.targets[0].id] = pf.nsrc(s.value)
                out.append((cur.test.func.attr, assigns))
                cur = cur.orelse[0] if len(cur.orelse) == 1 and isinstance(cur.orelse[0], ast.If) else None
            if len(out) >= 2 and any('new_block' in m for m, _ in out):
                return out
    raise AnalysisError('renderer make_child_frame: context chain not found')


def _bind_depth_facts(fn: pf.FuncDef) -> Set[Tuple[str, str]]:
    """{(free-variable attribute, context index)} consumed by bind_depth, plus ('base', <initial expr>)."""
    facts: Set[Tuple[str, str]] = set()
    for st in pf.walk_shallow(fn):
        if isinstance(st, ast.Assign) and pf.nsrc(st.targets[0]) == 'bind_depth' and not isinstance(st.value, ast.Call):
            facts.add(('base', pf.nsrc(st.value)))
        if isinstance(st, ast.If):
            fv = [n.attr for n in ast.walk(st.test) if isinstance(n, ast.Attribute) and n.attr.startswith('free_')]
            idx = [pf.nsrc(n.slice) for s in st.body for n in ast.walk(s)
                   if isinstance(n, ast.Subscript) and pf.nsrc(n.value) == 'self.context']
            gen = [n.attr for s in st.body for n in ast.walk(s) if isinstance(n, ast.Attribute) and n.attr.startswith('free_')]
            if len(fv) != 1 or len(set(idx)) != 1 or set(gen) != set(fv):
                raise AnalysisError(f'renderer bind_depth: unrecognised clause `{pf.nsrc(st.test)}`')
            facts.add((fv[0], idx[0]))
    if not facts:
        raise AnalysisError('renderer bind_depth: no clauses recognised')
    return facts


def check_renderer(ctx: Ctx, t: ic.Table) -> None:
    m = t.modules['renderer.py']
    a_mk = m.func('CSEAnalysisPass.StackFrame.make_child_frame')
    p_mk = m.func('CSEPrintPass.StackFrame.make_child_frame')
    want = [('new_block', {'child_min_binding_depth', 'child_min_value_binding_depth'}, None),
            ('uses_agg_context', {'child_min_value_binding_depth', 'child_scan_scope'}, 'False'),
            ('uses_scan_context', {'child_min_value_binding_depth', 'child_scan_scope'}, 'True')]
    for name, fn, prefix in (('CSEAnalysisPass', a_mk, ''), ('CSEPrintPass', p_mk, 'renderable_')):
        ch = _chain(fn)
        cons = f'{m.rel}::{name}.StackFrame.make_child_frame::context chain'
        problems = []
        if [c[0] for c in ch] != [prefix + w[0] for w in want]:
            problems.append(f'tests {[c[0] for c in ch]} but the other pass / the metadata contract is {[prefix + w[0] for w in want]} in this order')
        else:
            for (meth, assigns), (_, vars_, scan) in zip(ch, want):
                if set(assigns) != vars_:
                    problems.append(f'branch {meth} assigns {sorted(assigns)}, expected {sorted(vars_)}')
                elif scan is not None and assigns['child_scan_scope'] != scan:
                    problems.append(f'branch {meth} sets child_scan_scope = {assigns["child_scan_scope"]}, expected {scan}: lets lifted out of this child are '
                                    f'emitted as AggLet with the wrong is_scan')
                depth_vals = {v for k, v in assigns.items() if k != 'child_scan_scope'}
                if len(depth_vals) != 1:
                    problems.append(f'branch {meth} assigns different depths {sorted(depth_vals)}')
        ctx.check(not problems, 'R8', cons, problems[0] if problems else '', m.path, fn.lineno, detail=[c[0] for c in ch])
    # the two bind_depth implementations consume the same (free variable set, context component) pairs
    fa = _bind_depth_facts(m.func('CSEAnalysisPass.StackFrame.bind_depth'))
    fp = _bind_depth_facts(m.func('CSEPrintPass.StackFrame.bind_depth'))
    want_facts = {('base', 'self.min_binding_depth'), ('free_vars', '0'), ('free_agg_vars', '1'), ('free_scan_vars', '2')}
    for name, facts in (('CSEAnalysisPass', fa), ('CSEPrintPass', fp)):
        cons = f'{m.rel}::{name}.StackFrame.bind_depth'
        ctx.check(facts == want_facts, 'R8', cons, f'bind_depth looks up {sorted(facts)}; eval/agg/scan free variables must be looked up in context[0]/[1]/[2] '
                  f'({sorted(want_facts)}): otherwise a let is placed above the binder of a variable it uses', m.path, m.func(f'{name}.StackFrame.bind_depth').lineno)
    # which context call each pass makes
    for name, fn, meth in (('CSEAnalysisPass', a_mk, 'child_context'), ('CSEPrintPass', p_mk, 'renderable_child_context')):
        calls = [c for c in pf.calls_in(fn) if isinstance(c.func, ast.Attribute) and c.func.attr in ('child_context', 'renderable_child_context')]
        cons = f'{m.rel}::{name}.StackFrame.make_child_frame::child context'
        if len(calls) != 1:
            raise AnalysisError(f'{cons}: expected exactly one child-context call')
        ctx.check(calls[0].func.attr == meth and len(calls[0].args) == 3 and pf.nsrc(calls[0].args[1]) == 'self.context', 'R8', cons,
                  f'calls `{pf.nsrc(calls[0])}`; this pass indexes children by {"child" if not meth.startswith("renderable") else "renderable"} index and must call {meth}(i, self.context, depth)',
                  m.path, calls[0].lineno)


def check_child_context(ctx: Ctx, t: ic.Table) -> None:
    base = t.get('BaseIR')
    fn = base.methods.get('renderable_child_context')
    if fn is None:
        raise AnalysisError('anchor vanished: BaseIR.renderable_child_context')
    got = {}
    for st in pf.walk_shallow(fn):
        if isinstance(st, ast.Assign) and isinstance(st.value, ast.Call) and pf.dotted(st.value.func) in (
                'self.bindings', 'self.agg_bindings', 'self.scan_bindings', 'self.renderable_bindings', 'self.renderable_agg_bindings', 'self.renderable_scan_bindings'):
            got[pf.nsrc(st.targets[0])] = pf.dotted(st.value.func).split('.')[1]  # type: ignore[union-attr]
    if set(got) != {'eval_b', 'agg_b', 'scan_b'}:
        raise AnalysisError(f'{base.key("renderable_child_context")}: unrecognised body ({got})')
    cons = base.key('renderable_child_context')
    kinds = {'eval_b': 'bindings', 'agg_b': 'agg_bindings', 'scan_b': 'scan_bindings'}
    ok = all(got[k] in (v, 'renderable_' + v) for k, v in kinds.items())
    ctx.check(ok, 'R9', cons, f'eval/agg/scan bindings are taken from {got}; each context component must be extended with its own kind of bindings', base.mod.path, fn.lineno)
    remaps = all(got[k] == v for k, v in kinds.items())  # goes through the child-index wrappers although i is a renderable index
    uses_renderable = all(got[k] == 'renderable_' + v for k, v in kinds.items())
    if not (remaps or uses_renderable):
        raise AnalysisError(f'{cons}: mixes child-index and renderable-index binder calls ({got})')
    for cls in t.ir_classes():
        if cls.resolve_nonroot('renderable_idx_of_child') is not None:
            c2 = cls.key('renderable_idx_of_child')
            has = [f for f in BINDER_API if ic.binder_func(cls, f) is not None]
            if remaps:
                ctx.check(not has, 'R9', c2, f'{cls.name} remaps child indices and defines {has}; BaseIR.renderable_child_context passes an already remapped index '
                          f'through self.bindings(i), which remaps it again: the names are bound for the wrong child', cls.mod.path, cls.node.lineno)
            else:
                ctx.ok('R9', c2, None)
        direct = [f for f in BINDER_API if f in cls.methods]
        if direct:
            c3 = cls.key('/'.join(direct))
            ctx.check(remaps, 'R9', c3, f'{cls.name} overrides {direct} (child-index API) instead of the renderable_* method, but BaseIR.renderable_child_context '
                      f'now reads renderable_* directly: the renderer no longer sees these bindings', cls.mod.path, cls.methods[direct[0]].lineno)


def _uid_source(m: pf.Module, fn: Optional[pf.FuncDef], e: ast.AST, depth: int = 0) -> bool:
    """Is the expression an Env.get_uid() identifier (possibly inside an f-string / through single-assignment locals), or None?"""
    if isinstance(e, ast.Constant) and e.value is None:
        return True
    if isinstance(e, ast.Call) and pf.dotted(e.func) in ('Env.get_uid', 'hl.utils.java.Env.get_uid'):
        return True
    if isinstance(e, ast.JoinedStr):
        holes = [v.value for v in e.values if isinstance(v, ast.FormattedValue)]
        consts = [v.value for v in e.values if isinstance(v, ast.Constant)]
        return bool(holes) and all(_uid_source(m, fn, h, depth) for h in holes) and all(isinstance(c, str) and (c == '' or c.replace('_', 'a').isalnum()) for c in consts)
    if isinstance(e, ast.Name) and fn is not None and depth < 3:
        defs = pf.assignments(fn).get(e.id, [])
        vals: List[ast.AST] = []
        for d in defs:
            if (isinstance(d, ast.Assign) and len(d.targets) == 1 and isinstance(d.targets[0], ast.Tuple) and isinstance(d.value, ast.Tuple)
                    and len(d.targets[0].elts) == len(d.value.elts)):
                # a, b = x, y
                vals += [v for tgt, v in zip(d.targets[0].elts, d.value.elts) if isinstance(tgt, ast.Name) and tgt.id == e.id]
            else:
                vals.append(d)
        return bool(vals) and all(isinstance(d, ast.expr) and _uid_source(m, fn, d, depth + 1) for d in vals)
    if isinstance(e, ast.Attribute) and e.attr == 'name' and depth < 3:
        # Ref(...).name of a reference that was itself created from a uid
        return _uid_source(m, fn, e.value, depth + 1)
    if isinstance(e, ast.Call) and pf.dotted(e.func) in ('ir.Ref', 'Ref') and e.args:
        return _uid_source(m, fn, e.args[0], depth + 1)
    return False


def check_raw_sites(ctx: Ctx, t: ic.Table) -> None:
    """thorough: every construction site (outside hail/ir) of a class on the RAW_RENDERED list passes uid-derived binder names."""
    want: Dict[str, List[str]] = {}
    for (cname, tok) in RAW_RENDERED:
        want.setdefault(cname, []).append(tok[2:])
    n_sites = 0
    for rel in pf.walk_py(['hail/python/hail'], exclude=['hail/python/hail/ir/', 'hail/python/hail/docs', 'hail/python/hail/ggplot']):
        src = None
        try:
            m = pf.load(rel)
        except AnalysisError:
            continue
        for call in ast.walk(m.tree):
            if not isinstance(call, ast.Call):
                continue
            d = pf.dotted(call.func)
            cname = d.split('.')[-1] if d else None
            if cname not in want:
                continue
            cls = t.get(cname)
            init = cls.resolve('__init__')[1]  # type: ignore[index]
            params = [a.arg for a in init.args.args[1:]]
            # attribute -> constructor parameter (self.attr = param)
            attr_param = {}
            for st in pf.walk_shallow(init):
                if isinstance(st, ast.Assign) and isinstance(st.value, ast.Name) and isinstance(st.targets[0], ast.Attribute):
                    attr_param[st.targets[0].attr] = st.value.id
            fn = m.enclosing_func(call)
            n_sites += 1
            for attr in want[cname]:
                prm = attr_param.get(attr)
                if prm is None or prm not in params:
                    raise AnalysisError(f'{cls.key("__init__")}: cannot map attribute {attr} to a constructor parameter')
                idx = params.index(prm)
                arg = call.args[idx] if idx < len(call.args) and not any(isinstance(a, ast.Starred) for a in call.args[: idx + 1]) else None
                for kw in call.keywords:
                    if kw.arg == prm:
                        arg = kw.value
                cons = f'{rel}::{m.qualname(fn) if fn else "<module>"}::{cname}({prm}=...)'
                if arg is None:
                    raise AnalysisError(f'{cons}: binder name argument not found')
                ctx.check(_uid_source(m, fn, arg), 'R3', cons, f'{cname} renders `{attr}` without escape_id (frozen exception: uid-only names) but this site passes '
                          f'`{pf.nsrc(arg)}`, which is not derived from Env.get_uid()', m.path, call.lineno)
    ctx.unit('raw_render_construction_sites', n_sites)
    ctx.need(n_sites >= 5, f'only {n_sites} construction sites of raw-rendering classes found (expected the 6 listed in RAW_RENDERED)')


def run(ctx: Ctx) -> None:
    ctx.explanation = ('Symbolic evaluation of every binder metadata method of the IR class table over all child positions x flag valuations, '
                       'then sibling comparison (bound_variables / head_str / bindings / context switches / agg_capability / renderer passes).')
    ctx.rule('R1', 'value IR: bound_variables == names bound by renderable_(agg_|scan_)bindings, and includes super().bound_variables', 20)
    ctx.rule('R2', 'every name bound for a child is rendered by head_str', 40)
    ctx.rule('R3', 'bound names are rendered through escape_id (frozen exceptions: uid-only names)', 40)
    ctx.rule('R4', 'binder methods: every child index they test exists in the registered child list', 55)
    ctx.rule('R5', 'the child positions a node binds names for are the positions the engine binds names for (Binds.scala childEnv*)', 35)
    ctx.rule('R6', 'agg/scan context switches and agg/scan bindings are mirror images under is_scan', 9)
    ctx.rule('R7', 'nodes that evaluate children in the agg/scan context reference agg_capability', 8)
    ctx.rule('R8', 'renderer passes and BaseIR wrappers consume the metadata consistently', 12)
    ctx.rule('R9', 'index remapping and direct overrides of the child-index API are compatible with renderable_child_context', 4)
    ctx.assume('binder names at the frozen raw-rendered sites are Env.get_uid() identifiers (construction sites listed in RAW_RENDERED)')
    ctx.assume('the Scala IR parser reads binder names in the order head_str emits them (argument order is not compared)')
    t = ic.load_table()
    ctx.unit('files', len(ic.MODULES))
    ctx.unit('ir_classes', len(t.ir_classes()))
    ctx.unit('binder_classes', len(_binder_classes(t)))
    check_bound_variables(ctx, t)
    check_head(ctx, t)
    check_binder_methods(ctx, t)
    check_typing_position(ctx, t)
    check_scala_positions(ctx, t)
    check_context_switch(ctx, t)
    check_capability(ctx, t)
    check_wrappers(ctx, t)
    check_renderer(ctx, t)
    check_child_context(ctx, t)
    if ctx.tier == 'thorough':
        check_raw_sites(ctx, t)
