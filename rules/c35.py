"""C35 CSE rendering preserves meaning - binder metadata consistency.

The CSE renderer (hail/python/hail/ir/renderer.py) decides where a shared sub-expression may be let-bound purely from per-class
metadata: `renderable_bindings / renderable_agg_bindings / renderable_scan_bindings` (which names a node binds in which child),
`renderable_uses_agg_context / renderable_uses_scan_context` (context switches), `renderable_new_block`, and the pseudo variable
`agg_capability` that pins aggregations below the node that gives them meaning.  The names themselves reach the engine through
`head_str`.  This module builds the class table of the IR modules (MRO resolved, base-class defaults included), evaluates the
metadata methods symbolically for every child position x every valuation of the flags they test, and decides:

  R1  names in `bound_variables` == names bound by the binder methods (value IR classes), children's names are kept
  R2  every bound name is rendered by `head_str`
  R3  ... through `escape_id` (frozen exception table: names that are always Env.get_uid() identifiers)
  R4  every child index a binder method tests exists in the child list the constructor registers
  R5  the child positions a node binds names for are the positions the engine binds names for (arms of childEnv* in Binds.scala)
  R6  agg/scan context switches and agg/scan bindings are mirror images under `is_scan`
  R7  a node that moves a child into the aggregation/scan context *references* agg_capability (else CSE may lift it out of the
      AggFilter/AggGroupBy/... that gives it meaning)
  R8  the two renderer passes consume the metadata identically, and the child-index wrappers in base_ir delegate to the
      same-named renderable_* method
  R9  classes that remap child indices (renderable_idx_of_child) bind nothing (renderable_child_context re-maps the index)
  R10 the names of lifted lets are fresh: dataflow from every binder the print pass emits back to the analysis-pass statement that
      registers the name; the name must be <reserved prefix><counter>, the counter one object per render (not per frame / site),
      strictly incremented between any two draws (CFG), never reset while names are handed out, and the prefix disjoint from
      Env.get_uid() names and from the fixed variable names
  R11 IR.free_vars / free_agg_vars / free_scan_vars evaluated on every path x (cached?, child-less?, uses_agg_capability()?) shape that
      exists in the class table: a first evaluation yields the union over ALL children plus the agg_capability marker, a cache hit
      the cached set; constructors pre-populate a cache only with a base case
  R12 the free-variable equations are the adjoint of the child contexts (which parent component each child component comes from, and
      which bindings extend it) - for the generic closures and for the classes that define their own contexts / free variables;
      renderable_child_context carries every non-empty binding kind; _env_bind does not mutate the parent's context
  R13 marking, look-up (analysis pass) and emission (print pass) classify value / agg / scan scope by the same test, use the matching
      visited set / table / binder text (Let.head_str, AggLet.head_str), tables are plumbed scope-to-scope; lets are emitted in
      completion order
  R14 only nodes that are neither effectful nor streams are marked for lifting; each pass keys its tables by the node whose bind depth
      it computed
  R15 children that must be blocks are blocks (relational nodes, openers of an aggregation scope, If branches)
  R16 per child position x is_scan: the scope (eval / agg / scan) in which names are bound and the agg/scan context switch agree with the
      engine's Bindings(.., eval = .., agg = AggEnv.Promote|Bind|Create|Drop|NoOp, scan = ..) arm in Binds.scala (R5 compares positions only)
Randomness needs no rule of its own: it is the ordinary variable `__rng_state` (a Ref child of the seeded node), pinned by R11/R12.
Keying the tables by id() rather than structural equality is NOT a necessary condition (merging structurally equal nodes that have the
same bind frame is sound) and is not demanded; keying by the WRONG node is (R14).
Does not decide: semantic equality of rendered and inlined IR; the typing of binders (C36); hoisting of a (possibly failing) pure
sub-term out of a loop body or Coalesce argument that is never evaluated (new_block is False there by design).
"""
from __future__ import annotations

import ast
from typing import Dict, FrozenSet, List, Optional, Set, Tuple

from engines import irclasses as ic
from engines import pyfacts as pf
from engines.common import AnalysisError, Ctx

META = dict(
    category='other',
    text='Class-table consistency of the binder metadata the CSE renderer relies on (187 IR classes, MRO resolved): every metadata method is '
         'evaluated symbolically over all child positions x flag valuations by our own evaluator over the syntax tree, and the sibling '
         'facts (bound_variables, head_str, bindings, context switches, agg_capability, the two renderer passes) are compared. In addition the '
         'obligations the lifting algorithm itself rests on are decided: freshness of the generated let names (dataflow + CFG over the analysis '
         'pass with helpers inlined), the free-variable properties on every path and their adjointness to the child contexts, agreement of the '
         'two passes on scope classification / tables / binder text, the not-effectful / not-a-stream guard, binder depths, blocks. This is a '
         'necessary-condition check, not a proof of rendering equivalence, hence "other".',
    note='Trusted: CPython ast; engines/irclasses.py, engines/inline.py, engines/pyfacts.py (CFG). Frozen exception tables (with reasons) in this '
         'module. Not decided: semantic equality of rendered and inlined IR, the Scala parser\'s argument order, strictness (a pure but failing '
         'sub-term hoisted out of a never-executed loop body).',
    technique='static analysis: class-table construction with MRO resolution + symbolic evaluation of dict/set-valued metadata methods + path '
              'evaluation of small methods under all feasible valuations + def-use / CFG must-pass-through on the renderer passes',
    design_ref='DESIGN.md §3 C35',
)

# ---- frozen exception tables (one line each, with the reason) -------------------------------------------------------------
NO_BOUND_VARIABLES = {
    'StreamZipJoin': 'declares no bound_variables although it binds cur_key/cur_vals; the only consumer (_check_agg_bindings) then '
                     'over-rejects aggregated zip-joins - a false rejection, never a mis-rendering',
    'StreamZipJoinProducers': 'same as StreamZipJoin (ctx_name, cur_key, cur_vals)',
}
RAW_RENDERED = {
    ('AggFold', 'A:accum_name'): 'Env.get_uid() at the only construction site (aggregators.AggFunc._fold)',
    ('AggFold', 'A:other_accum_name'): 'Env.get_uid() (aggregators.AggFunc._fold)',
    ('StreamZipJoin', 'A:cur_key'): 'Env.get_uid() (expr.functions._union_intersection_base)',
    ('StreamZipJoin', 'A:cur_vals'): 'Env.get_uid() (expr.functions._union_intersection_base)',
    ('StreamZipJoinProducers', 'A:ctx_name'): 'Env.get_uid() (expr.functions._zip_join_producers)',
    ('StreamZipJoinProducers', 'A:cur_key'): 'Env.get_uid() (expr.functions._zip_join_producers)',
    ('StreamZipJoinProducers', 'A:cur_vals'): 'Env.get_uid() (expr.functions._zip_join_producers)',
    ('StreamJoinRightDistinct', 'A:l_name'): 'Env.get_uid() (vds.impex; unpack_uid in _handle_randomness)',
    ('StreamJoinRightDistinct', 'A:r_name'): 'Env.get_uid() (vds.impex; unpack_uid in _handle_randomness)',
    ('ArrayMaximalIndependentSet', 'A:left_name'): 'Env.get_uid() (methods.misc.maximal_independent_set)',
    ('ArrayMaximalIndependentSet', 'A:right_name'): 'Env.get_uid() (methods.misc.maximal_independent_set)',
    ('TableGen', 'A:cname'): 'f"context_{Env.get_uid()}" (Table._generate)',
    ('TableGen', 'A:gname'): 'f"globals_{Env.get_uid()}" (Table._generate)',
}
SCAN_BINDINGS_IGNORE_IS_SCAN = {
    'AggExplode': 'renderable_scan_bindings delegates to renderable_agg_bindings whatever is_scan is: the name is (harmlessly) bound in both '
                  'the agg and the scan context; names are unique uids',
}
NO_CAPABILITY_NEEDED = {
    'AggLet': 'an aggregation-scope let: its value is a per-record expression, it performs no aggregation (base_ir comment on agg_capability)',
}

BINDER_API = ('bindings', 'agg_bindings', 'scan_bindings')


def _binder_classes(t: ic.Table) -> List[ic.Cls]:
    return [c for c in t.ir_classes() if any(ic.binder_func(c, f) is not None for f in BINDER_API)]


def _positions(cls: ic.Cls, lay: ic.Layout, flags: Dict[str, bool]) -> List[Tuple[ic.Pos, str]]:
    """Renderable positions that exist under this flag valuation (optional children vanish when their attribute is None)."""
    if ic.renderable_index_map(cls, lay) is not None:
        return ic.renderable_positions(cls, lay)
    out = []
    for p, s in lay.positions():
        if s.kind == 'opt' and any(flags.get(f'self.{a} is None') for a in lay.attrs.get(s.name, set())):
            continue
        out.append((p, repr(s)))
    return out


def _all_atoms(cls: ic.Cls, extra: List[str]) -> List[str]:
    atoms = ic.flag_atoms(cls, list(BINDER_API) + extra)
    for lay in ic.layouts(cls):
        for s in lay.segs:
            if s.kind == 'opt':
                for a in lay.attrs.get(s.name, set()):
                    k = f'self.{a} is None'
                    if k not in atoms:
                        atoms.append(k)
    return atoms


DV = 'default_value is None'


def _vals(atoms: List[str]):
    """Valuations of the flags on the path the renderer and free_vars take: they always pass a default_value (a depth / 0), so the
    `default_value is None` (typed) branch of a binder method is only reached from _compute_type, whose environments are consulted
    only under deep_typecheck=True - an edit confined to that branch cannot change behaviour and must not alarm."""
    for fl in ic.valuations([a for a in atoms if a != DV]):
        yield {**fl, DV: False}


def _bound_names(t: ic.Table, cls: ic.Cls, flags: Dict[str, bool]) -> FrozenSet[str]:
    out: Set[str] = set()
    for lay in ic.layouts(cls):
        for p, _ in _positions(cls, lay, flags):
            for f in BINDER_API:
                out |= {k for k in ic.binder_keys(t, cls, f, p, flags, lay) if k.startswith(('A:', 'EACH:'))}
    return frozenset(out)


def _fmt(tokens) -> str:
    return '{' + ', '.join(sorted(tokens)) + '}'


# ---------------------------------------------------------------------------------------------------------------------------
def check_bound_variables(ctx: Ctx, t: ic.Table) -> None:
    for cls in t.ir_classes():
        if not cls.is_a('IR'):
            continue
        has_binders = cls in _binder_classes(t)
        bv_def = cls.resolve_nonroot('bound_variables')
        if bv_def is None and not has_binders:
            continue
        atoms = _all_atoms(cls, [])
        bv_atoms = ic.collect_atoms(bv_def[1], None) if bv_def else []
        for a in bv_atoms:
            if a not in atoms:
                atoms.append(a)
        names_any = frozenset().union(*[_bound_names(t, cls, fl) for fl in _vals(atoms)])
        cons = cls.key('bound_variables')
        if bv_def is None:
            if not names_any:
                continue  # binds only implicit names (global/row/..., agg_capability)
            if cls.name in NO_BOUND_VARIABLES:
                ctx.ok('R1', cons, {'exception': NO_BOUND_VARIABLES[cls.name], 'binds': sorted(names_any)}, nontrivial=False)
                ctx.info(f'C35-R1 exception {cls.name}: binds {_fmt(names_any)} but declares no bound_variables ({NO_BOUND_VARIABLES[cls.name]})')
                continue
            ctx.bad('R1', cons, f'{cls.name} binds {_fmt(names_any)} in its children (renderable_*bindings) but inherits the default '
                    f'`bound_variables`, which does not report them', cls.mod.path, cls.node.lineno)
            continue
        owner, fn = bv_def
        problems = []
        for fl in _vals(atoms):
            toks = ic.SetEval(t, cls, fn, owner, fl).run()
            want = _bound_names(t, cls, fl)
            got = frozenset(x for x in toks if x != ic.SUPER)
            if ic.SUPER not in toks:
                problems.append(f'under {fl} the result omits `super().bound_variables`: names bound by nested nodes are lost')
            if got != want:
                problems.append(f'under {fl} bound_variables reports {_fmt(got)} but the binder methods bind {_fmt(want)}')
        if problems:
            ctx.bad('R1', cons, problems[0] + (f' (+{len(problems) - 1} more valuations)' if len(problems) > 1 else ''), owner.mod.path, fn.lineno)
        else:
            ctx.ok('R1', cons, {'names': sorted(names_any), 'valuations': 2 ** len([a for a in atoms if a != DV])})


def check_head(ctx: Ctx, t: ic.Table) -> None:
    for cls in _binder_classes(t):
        atoms = _all_atoms(cls, [])
        names = frozenset().union(*[_bound_names(t, cls, fl) for fl in _vals(atoms)])
        if not names:
            continue
        holes = ic.head_holes(cls)
        hd = cls.resolve('head_str')
        path, line = (hd[0].mod.path, hd[1].lineno) if hd else (cls.mod.path, cls.node.lineno)
        rendered: Dict[str, List[bool]] = {}
        for tok, esc, _src in holes or []:
            rendered.setdefault(tok, []).append(esc)
        for n in sorted(names):
            cons = f'{cls.key("head_str")}::{n}'
            if n not in rendered:
                ctx.bad('R2', cons, f'{cls.name} binds the name {n} for a child but head_str does not render it: the engine parses a different '
                        f'binder than the one the renderer scoped', path, line)
                continue
            ctx.ok('R2', cons, None)
            if all(rendered[n]):
                ctx.ok('R3', cons, 'escape_id')
            elif (cls.name, n) in RAW_RENDERED:
                ctx.ok('R3', cons, {'exception': RAW_RENDERED[(cls.name, n)]}, nontrivial=False)
            else:
                ctx.bad('R3', cons, f'{cls.name}.head_str renders the binder name {n} without escape_id: a name that is not a plain identifier '
                        f'is emitted unquoted and the IR text no longer parses to the same binder', path, line)


def _index_refs(fn: pf.FuncDef, ivar: str) -> List[ast.AST]:
    out = []
    for n in pf.walk_shallow(fn):
        if isinstance(n, ast.Compare) and isinstance(n.left, ast.Name) and n.left.id == ivar and len(n.ops) == 1:
            rhs = n.comparators[0]
            if isinstance(rhs, (ast.Set, ast.Tuple, ast.List)):
                out += list(rhs.elts)
            else:
                out.append(rhs)
    return out


def check_binder_methods(ctx: Ctx, t: ic.Table) -> None:
    for cls in _binder_classes(t):
        lays = ic.layouts(cls)
        atoms = _all_atoms(cls, [])
        for f in BINDER_API:
            r = ic.binder_func(cls, f)
            if r is None:
                continue
            owner, fn = r
            cons = cls.key(fn.name)
            ivar = fn.args.args[1].arg
            problems: List[str] = []
            # (a) same key set with and without default_value
            dv = 'default_value is None'
            for lay in lays:
                for fl in ic.valuations([a for a in atoms if a != dv]):
                    for p, label in _positions(cls, lay, fl):
                        k1 = ic.binder_keys(t, cls, f, p, {**fl, dv: True}, lay)
                        k2 = ic.binder_keys(t, cls, f, p, {**fl, dv: False}, lay)
                        if k1 != k2:
                            # the typed branch is only read by _compute_type (deep_typecheck environments): information, not a violation
                            ctx.info(f'{cls.name}.{fn.name}: for child {label} the typed result binds {_fmt(k1)} but the default_value result '
                                     f'(renderer / free_vars) binds {_fmt(k2)}')
            # (b) every tested child index exists
            for e in _index_refs(fn, ivar):
                if isinstance(e, ast.Constant) and isinstance(e.value, int):
                    ns = [lay.n_fixed() for lay in lays]
                    m = ic.renderable_index_map(cls, lays[0])
                    if m is not None:
                        if e.value not in m.values():
                            problems.append(f'tests renderable child index {e.value}, which renderable_idx_of_child never produces')
                    elif any(n is None for n in ns):
                        problems.append(f'tests the constant child index {e.value} although the constructor registers a variable-length child list {lays}')
                    elif e.value >= max(ns) or e.value < 0:  # type: ignore[type-var]
                        problems.append(f'binds names for child index {e.value} but the constructor registers only {max(ns)} children {lays[0]}')  # type: ignore[type-var]
                elif isinstance(e, ast.Call) and pf.dotted(e.func) == 'len':
                    hit = False
                    for lay in lays:
                        for p, s in lay.positions():
                            if p[0] == 'len' and p[2] == 0:
                                a = ic._self_attr(e.args[0])
                                if a is not None and ic._group_attr_matches(ic.Scenario(cls, p, {}, lay), a, p[1]):
                                    hit = True
                    if not hit:
                        problems.append(f'tests child index `{pf.nsrc(e)}`, which is not the position of a child registered after a starred group in {lays}')
                else:
                    raise AnalysisError(f'{cons}: unrecognised child index `{pf.nsrc(e)}`')
            if problems:
                ctx.bad('R4', cons, problems[0] + (f' (+{len(problems) - 1} more)' if len(problems) > 1 else ''), owner.mod.path, fn.lineno)
            else:
                ctx.ok('R4', cons, {'layouts': [repr(l) for l in lays]})


def check_typing_position(ctx: Ctx, t: ic.Table) -> None:
    """Information only: `X.compute_type(.. self.bindings(K) ..)` should type the child registered at position K.  The environments
    are consulted only under deep_typecheck=True (no in-repo caller), so a disagreement here cannot change behaviour."""
    for cls in _binder_classes(t):
        r = cls.resolve_nonroot('_compute_type')
        if r is None:
            continue
        owner, fn = r
        tc = ic.typing_calls(t, cls)
        if tc is None:
            continue
        for call in tc[2]:
            for arg in call.node.args:
                for sub in ast.walk(arg):
                    if (isinstance(sub, ast.Call) and isinstance(sub.func, ast.Attribute) and sub.func.attr in BINDER_API
                            and isinstance(sub.func.value, ast.Name) and sub.func.value.id == 'self' and sub.args):
                        ev = ic.TypeEval(t, cls, fn, owner, {}, [call.layout])
                        kpos = ev.resolve_pos(ic._index_value(ev.sc, sub.args[0], owner.key('_compute_type')))
                        if kpos != call.pos:
                            ctx.info(f'{cls.name}._compute_type types child `{call.recv}` (position {_pos(call.pos)}) under self.{sub.func.attr}({pf.nsrc(sub.args[0])}) '
                                     f'(deep_typecheck-only; see C36)')


# ---- R5: binder positions agree with the engine (Binds.scala) --------------------------------------------------------------
BINDS_SCALA = 'hail/hail/src/is/hail/expr/ir/Binds.scala'
SCALA_DEFS = ('childEnvValue', 'childEnvTable', 'childEnvMatrix', 'childEnvBlockMatrix')
NOT_IN_SCALA = {
    'Let': 'the engine represents lets as Block(bindings, body); the IR parser builds the Block from `Let`',
    'AggLet': 'same as Let (Block with Scope.AGG / Scope.SCAN bindings)',
}


def _scala_branches(S, bs: int, be: int, where: str):
    """An arm body that is `if (i == K) e1 else if (i == M) e2 else e3` -> [(K | 'else', text)]; None when it is not such a chain."""
    code = S.code
    out = []
    i = bs
    while True:
        while i < be and code[i] in ' \t\r\n':
            i += 1
        if not code.startswith('if', i) or (code[i + 2].isalnum() or code[i + 2] == '_'):
            return None if not out else out + [('else', S.norm(i, be))]
        j = i + 2
        while j < be and code[j] in ' \t\r\n':
            j += 1
        if code[j] != '(':
            return None
        close = S.match_bracket(j)
        cond = S.norm(j + 1, close)
        k = close + 1
        start = k
        depth_else = None
        while k < be:
            c = code[k]
            if c in '([{':
                k = S.match_bracket(k) + 1
                continue
            if code.startswith('else', k) and not (code[k - 1].isalnum() or code[k - 1] == '_') and not (code[k + 4].isalnum() or code[k + 4] == '_'):
                depth_else = k
                break
            k += 1
        text = S.norm(start, depth_else if depth_else is not None else be)
        out.append((cond, text))
        if depth_else is None:
            return out
        i = depth_else + 4


def _scala_index(cond: str, pattern_args: List[str]):
    """`i == 2` -> ('c', 2); `i == as.length` -> ('lenarg', position of `as` in the constructor pattern); else None."""
    parts = cond.replace('(', ' ').replace(')', ' ').split()
    if len(parts) == 3 and parts[0] == 'i' and parts[1] == '==':
        if parts[2].isdigit():
            return ('c', int(parts[2]))
        if parts[2].endswith('.length') and parts[2][:-7] in pattern_args:
            return ('lenarg', pattern_args.index(parts[2][:-7]))
    return None


def _binds_names(text: str) -> bool:
    """Does a Bindings(...) expression bind variables (as opposed to only switching aggregation environments)?"""
    toks = text.replace('(', ' ').replace(')', ' ').replace(',', ' ').replace('.', ' ').split()
    return '->' in toks or 'zip' in toks or any(tk.endswith('Bindings') and tk != 'Bindings' for tk in toks)


def scala_arm_table() -> Dict[str, Tuple[List, bool, int]]:
    """class -> ([(index | 'else', normalised text of the branch)], decided?, line).  index is ('c', k) or ('lenarg', pattern position)."""
    from engines import scalalite as sl
    S = sl.load(BINDS_SCALA)
    out: Dict[str, Tuple[List, bool, int]] = {}
    for d in SCALA_DEFS:
        _start, lo, hi, _sig = S.find_def(d)
        pos = S.code.find('match', lo, hi)
        brace = S.code.find('{', pos, hi) if pos >= 0 else -1
        if brace < 0:
            raise AnalysisError(f'{BINDS_SCALA}::{d}: `ir match {{` not found')
        end = S.match_bracket(brace)
        for pat, bs, be in S.case_arms(brace + 1, end):
            if '(' not in pat:
                continue
            name = pat[:pat.index('(')].strip()
            # split the guard off: `Name(args) if <guard>`
            depth = 0
            k = pat.index('(')
            for k in range(pat.index('('), len(pat)):
                if pat[k] in '([':
                    depth += 1
                elif pat[k] in ')]':
                    depth -= 1
                    if depth == 0:
                        break
            args = [a.strip() for a in pat[pat.index('(') + 1:k].split(',')]
            guard = pat[k + 1:].strip()
            line = S.line_of(bs)
            if guard:
                if not guard.startswith('if '):
                    raise AnalysisError(f'{BINDS_SCALA}:{line}: unrecognised arm `{pat}`')
                idx = _scala_index(guard[3:], args)
                if idx is None:
                    out[name] = ([], False, line)
                else:
                    out[name] = ([(idx, S.norm(bs, be))], True, line)
                continue
            chain = _scala_branches(S, bs, be, f'{BINDS_SCALA}:{line}')
            if chain is None:
                out[name] = ([], False, line)
                continue
            branches = []
            decided = True
            for cond, text in chain:
                if cond == 'else':
                    branches.append(('else', text))
                else:
                    idx = _scala_index(cond, args)
                    if idx is None:
                        decided = False
                    branches.append((idx, text))
            out[name] = (branches, decided, line)
    return out


def scala_binder_table() -> Dict[str, Tuple[List, bool, int]]:
    """class -> ([(index | 'else', binds names?)], decided?, line).  index is ('c', k) or ('lenarg', pattern position)."""
    return {name: ([(idx, _binds_names(text)) for idx, text in branches], decided, line) for name, (branches, decided, line) in scala_arm_table().items()}


# ---- R16: the scope (eval / agg / scan) names are bound in, and the context switches, agree with the engine --------------------
def _split_top(text: str, sep: str = ',') -> List[str]:
    out, depth, cur = [], 0, ''
    for ch in text:
        if ch in '([{':
            depth += 1
        elif ch in ')]}':
            depth -= 1
        if ch == sep and depth == 0:
            out.append(cur)
            cur = ''
        else:
            cur += ch
    if cur.strip():
        out.append(cur)
    return [x.strip() for x in out]


def _scala_call(text: str, where: str) -> Optional[Tuple[str, Dict[str, str]]]:
    """The (last) `Bindings(...)` / `Bindings.inFreshScope(...)` expression of an arm: (constructor, {parameter: argument text});
    ('empty', {}) for Bindings.empty; None when there is none."""
    t = text.strip()
    best = None
    for ctor in ('Bindings.inFreshScope(', 'Bindings('):
        k = t.rfind(ctor)
        while k > 0 and (t[k - 1].isalnum() or t[k - 1] in '._'):
            k = t.rfind(ctor, 0, k)
        if k >= 0 and (best is None or k > best[0]):
            best = (k, ctor)
    if best is None:
        return ('empty', {}) if t.endswith('Bindings.empty') else None
    k, ctor = best
    depth, j = 0, k + len(ctor) - 1
    for j in range(k + len(ctor) - 1, len(t)):
        if t[j] in '([{':
            depth += 1
        elif t[j] in ')]}':
            depth -= 1
            if depth == 0:
                break
    if depth != 0 or t[j + 1:].strip() not in ('', '}'):
        raise AnalysisError(f'{where}: unrecognised arm text after the Bindings expression: `{t[j + 1:][:40]}`')
    params = ['bindings', 'eval', 'agg', 'scan', 'relational', 'dropEval']
    args: Dict[str, str] = {}
    pos = 0
    for a in _split_top(t[k + len(ctor):j]):
        if not a:
            continue
        eq = a.find('=')
        head = a[:eq].strip() if eq > 0 else ''
        if eq > 0 and head in params and a[eq:eq + 2] not in ('==', '=>'):
            args[head] = a[eq + 1:].strip()
        else:
            if pos >= len(params):
                raise AnalysisError(f'{where}: too many positional arguments')
            args[params[pos]] = a
            pos += 1
    return ('fresh' if 'inFreshScope' in ctor else 'plain'), args


def _scala_seq_nonempty(x: str, where: str) -> bool:
    x = x.strip()
    if x in ('FastSeq()', 'FastSeq.empty', 'Seq.empty', 'IndexedSeq.empty', 'ArraySeq.empty'):
        return False
    if x.startswith('FastSeq(') or x.replace('.', '').replace('_', '').isalnum() or ':+' in x or '+:' in x or '.zip(' in x or '.map' in x:
        return True  # a literal with elements, a named list of type bindings (rowBindings, ...), or a list built from the children
    raise AnalysisError(f'{where}: unrecognised sequence `{x[:50]}`')


def _scala_aggenv(x: Optional[str], fresh: bool, is_scan: bool, where: str) -> Tuple[str, bool]:
    """(NoOp | Drop | Promote | Bind | Create, binds names?) of an `agg =` / `scan =` argument."""
    if x is None:
        return ('Drop', False) if fresh else ('NoOp', False)
    x = x.strip()
    for neg, head in ((False, 'if (isScan)'), (True, 'if (!isScan)')):
        if x.startswith(head):
            rest = x[len(head):]
            k = rest.find(' else ')
            if k < 0:
                raise AnalysisError(f'{where}: unrecognised conditional `{x[:50]}`')
            then, other = rest[:k], rest[k + 6:]
            return _scala_aggenv(then if (is_scan != neg) else other, fresh, is_scan, where)
    if fresh:
        if x == 'None':
            return ('Drop', False)
        if x.startswith('Some(') and x.endswith(')'):
            return ('Create', _scala_seq_nonempty(x[5:-1], where))
        raise AnalysisError(f'{where}: unrecognised aggregation environment `{x[:50]}`')
    for k in ('NoOp', 'Drop', 'Promote'):
        if x == f'AggEnv.{k}':
            return (k, False)
    for k in ('Bind', 'Create'):
        if x.startswith(f'AggEnv.{k}(') and x.endswith(')'):
            return (k, _scala_seq_nonempty(x[len(k) + 8:-1], where))
    raise AnalysisError(f'{where}: unrecognised aggregation environment `{x[:50]}`')


def _scala_scopes(text: str, is_scan: bool, where: str) -> Dict[str, object]:
    """{'eval': names bound in the value scope?, 'agg': .., 'scan': .., 'promote_agg': child evaluated in the aggregation scope?, 'promote_scan': ..}"""
    r = _scala_call(text, where)
    if r is None:
        raise AnalysisError(f'{where}: no Bindings expression')
    kind, args = r
    if kind == 'empty':
        return {'eval': False, 'agg': False, 'scan': False, 'promote_agg': False, 'promote_scan': False}
    fresh = kind == 'fresh'
    agg = _scala_aggenv(args.get('agg'), fresh, is_scan, where)
    scan = _scala_aggenv(args.get('scan'), fresh, is_scan, where)
    has_b = 'bindings' in args and _scala_seq_nonempty(args['bindings'], where)
    rel = 'relational' in args and _scala_seq_nonempty(args['relational'], where)
    if 'eval' in args and _scala_seq_nonempty(args['eval'], where):
        ev = True
    elif 'eval' in args:
        ev = has_b and not (agg[1] or scan[1] or rel)
    else:
        ev = has_b and not (agg[1] or scan[1] or rel)  # Bindings.apply: with nothing else given, every binding is a value binding
    return {'eval': ev, 'agg': agg[1], 'scan': scan[1], 'promote_agg': agg[0] == 'Promote', 'promote_scan': scan[0] == 'Promote'}


SCOPE_DEVIATIONS = {
    # (class, child label): (facts allowed to differ, reason the Python model deliberately differs from the engine)
    ('AggFold', 'comb_op'): ({'promote_agg', 'promote_scan'},
                             'the engine evaluates comb_op in a fresh scope holding only the two accumulators; Python models it as an aggregation-context child with '
                             'both names bound. AggFold.__init__ rejects a comb_op with any other free variable, so no look-up can tell the two models apart'),
    ('AggExplode', 'agg_body'): ({'agg', 'scan'}, SCAN_BINDINGS_IGNORE_IS_SCAN['AggExplode']),
}


def check_scala_scopes(ctx: Ctx, t: ic.Table) -> None:
    table = scala_arm_table()
    SCN = 'self.is_scan'
    for cls in t.ir_classes():
        switching = cls in _switching_classes(t)
        if cls not in _binder_classes(t) and not switching:
            continue
        if cls.name in NOT_IN_SCALA:
            continue
        if cls.name not in table:
            if switching and not any(ic.binder_func(cls, f) for f in BINDER_API):
                continue  # falls into the engine's default arm (UsesAggEnv / UsesScanEnv), compared by R6/R7
            raise AnalysisError(f'{cls.key()}: binds names / switches context but has no arm in {BINDS_SCALA}')
        branches, decided, line = table[cls.name]
        if not decided:
            continue  # reported by R5
        atoms = _all_atoms(cls, ['renderable_uses_agg_context', 'renderable_uses_scan_context'])
        for a in ('renderable_uses_agg_context', 'renderable_uses_scan_context'):
            r = cls.resolve_nonroot(a)
            if r is not None:
                for st in r[1].body:
                    if isinstance(st, ast.Return) and st.value is not None:
                        for x in ic.collect_atoms_expr(st.value, r[1].args.args[1].arg):
                            if x not in atoms:
                                atoms.append(x)
        lay = ic.layouts(cls)[0]
        remap = ic.renderable_index_map(cls, lay)
        where = f'{BINDS_SCALA}:{line}'
        for fl in _vals(atoms):
            is_scan = bool(fl.get(SCN, False))
            positions = ic.renderable_positions(cls, lay) if remap is not None else _positions(cls, lay, fl)
            for p, label in positions:
                text = None
                if remap is not None:
                    # the engine indexes the flattened children: `i < init.length` <-> the first starred group
                    continue
                for idx, tx in branches:
                    if idx == 'else' or (idx[0] == 'c' and p == ('c', idx[1])) or (idx[0] == 'lenarg' and p[0] == 'len' and p[2] == 0):
                        text = tx
                        break
                sc = _scala_scopes(text, is_scan, where) if text is not None else {'eval': False, 'agg': False, 'scan': False, 'promote_agg': False, 'promote_scan': False}
                py = {'eval': bool(ic.named(ic.binder_keys(t, cls, 'bindings', p, fl, lay))),
                      'agg': bool(ic.named(ic.binder_keys(t, cls, 'agg_bindings', p, fl, lay))),
                      'scan': bool(ic.named(ic.binder_keys(t, cls, 'scan_bindings', p, fl, lay))),
                      'promote_agg': _bool_method(t, cls, 'renderable_uses_agg_context', p, fl, lay),
                      'promote_scan': _bool_method(t, cls, 'renderable_uses_scan_context', p, fl, lay)}
                cons = f'{cls.key()}::child {label}' + (f' [is_scan={is_scan}]' if SCN in fl else '')
                diff = sorted(k for k in py if py[k] != sc[k])
                if not diff:
                    ctx.ok('R16', cons, {k: v for k, v in py.items() if v})
                elif (cls.name, label) in SCOPE_DEVIATIONS and set(diff) <= SCOPE_DEVIATIONS[(cls.name, label)][0] and all(py[k] for k in diff):
                    # (only ever in the direction "Python binds / switches more than the engine")
                    ctx.ok('R16', cons, {'exception': SCOPE_DEVIATIONS[(cls.name, label)][1], 'differs': diff}, nontrivial=False)
                else:
                    words = {'eval': 'binds names in the value scope', 'agg': 'binds names in the aggregation scope', 'scan': 'binds names in the scan scope',
                             'promote_agg': 'evaluates the child in the aggregation scope', 'promote_scan': 'evaluates the child in the scan scope'}
                    d0 = diff[0]
                    r = ic.binder_func(cls, 'bindings') or ic.binder_func(cls, 'agg_bindings') or ic.binder_func(cls, 'scan_bindings') or cls.resolve_nonroot('renderable_uses_agg_context')
                    ctx.bad('R16', cons, f'for child `{label}` the Python node {"" if py[d0] else "does not "}{words[d0].replace("binds", "bind" if not py[d0] else "binds").replace("evaluates", "evaluate" if not py[d0] else "evaluates")} '
                            f'but the engine ({where}) does{"" if sc[d0] else " not"} ({", ".join(diff)} differ): the renderer scopes a shared sub-term that uses the name against '
                            f'the wrong environment - its bind depth is looked up in a context that does not hold the name, or it is lifted into a Let where the engine '
                            f'expects an AggLet', r[0].mod.path if r else cls.mod.path, r[1].lineno if r else cls.node.lineno)


def check_scala_positions(ctx: Ctx, t: ic.Table) -> None:
    table = scala_binder_table()
    ctx.unit('scala_binder_arms', len(table))
    for cls in _binder_classes(t):
        atoms = _all_atoms(cls, [])
        lays = ic.layouts(cls)
        per_pos: Dict[Tuple, Tuple[bool, str]] = {}
        for lay in lays:
            for fl in _vals(atoms):
                for p, label in _positions(cls, lay, fl):
                    b = any(ic.named(ic.binder_keys(t, cls, f, p, fl, lay)) for f in BINDER_API)
                    per_pos[p] = (per_pos.get(p, (False, label))[0] or b, label)
        if not any(b for b, _ in per_pos.values()):
            continue
        cons = f'{cls.key("renderable_bindings")}::child positions'
        if cls.name in NOT_IN_SCALA:
            ctx.ok('R5', cons, {'exception': NOT_IN_SCALA[cls.name]}, nontrivial=False)
            continue
        if cls.name not in table:
            raise AnalysisError(f'{cons}: {cls.name} binds names but has no arm in {BINDS_SCALA} (childEnv*)')
        branches, decided, line = table[cls.name]
        if not decided:
            raise AnalysisError(f'{BINDS_SCALA}:{line}: arm of {cls.name} is not an `i == K` guard or if-chain')
        ctor = cls.resolve('__init__')[1]  # type: ignore[index]
        problems = []
        for p, (py_binds, label) in sorted(per_pos.items(), key=repr):
            sc_binds = None
            for idx, b in branches:
                if idx == 'else':
                    sc_binds = b
                    break
                if idx[0] == 'c' and p == ('c', idx[1]):
                    sc_binds = b
                    break
                if idx[0] == 'lenarg' and p[0] == 'len' and p[2] == 0:
                    sc_binds = b
                    break
            if sc_binds is None:
                sc_binds = False
            if py_binds != sc_binds:
                problems.append(f'child {label} (position {_pos(p)}): the Python node {"binds" if py_binds else "binds no"} names for it but the engine '
                                f'({BINDS_SCALA}:{line}) {"binds" if sc_binds else "binds no"} names there: lets are scoped against the wrong child and a '
                                f'sub-expression using the name can be lifted above its binder')
        if problems:
            r = ic.binder_func(cls, 'bindings') or ic.binder_func(cls, 'agg_bindings') or ic.binder_func(cls, 'scan_bindings')
            ctx.bad('R5', cons, problems[0] + (f' (+{len(problems) - 1} more)' if len(problems) > 1 else ''), r[0].mod.path, r[1].lineno)  # type: ignore[index]
        else:
            ctx.ok('R5', cons, {'scala_line': line, 'positions': {_pos(p): b for p, (b, _) in per_pos.items()}})


def _pos(p) -> str:
    if p[0] == 'c':
        return str(p[1])
    if p[0] == 'in':
        return f'<element of *{p[1]}>'
    return f'len({p[1]})' + (f'+{p[2]}' if p[2] else '')


def _bool_method(t: ic.Table, cls: ic.Cls, meth: str, pos, flags: Dict[str, bool], lay: ic.Layout) -> bool:
    r = cls.resolve_nonroot(meth)
    if r is None:
        return False
    owner, fn = r
    body = [s for s in fn.body if not (isinstance(s, ast.Expr) and isinstance(s.value, ast.Constant))]
    if not (len(body) == 1 and isinstance(body[0], ast.Return) and body[0].value is not None):
        raise AnalysisError(f'{owner.key(meth)}: unrecognised body (expected a single `return <test>`)')
    ivar = fn.args.args[1].arg if len(fn.args.args) > 1 else None
    fl = dict(flags)
    for a in ic.collect_atoms_expr(body[0].value, ivar):
        fl.setdefault(a, False)
    return ic.eval_test(ic.Scenario(cls, pos, fl, lay), body[0].value, ivar, owner.key(meth))


def _switching_classes(t: ic.Table) -> List[ic.Cls]:
    return [c for c in t.ir_classes() if c.resolve_nonroot('renderable_uses_agg_context') or c.resolve_nonroot('renderable_uses_scan_context')]


def check_context_switch(ctx: Ctx, t: ic.Table) -> None:
    SC = 'self.is_scan'
    for cls in _switching_classes(t):
        lay = ic.layouts(cls)[0]
        ra, rs = cls.resolve_nonroot('renderable_uses_agg_context'), cls.resolve_nonroot('renderable_uses_scan_context')
        atoms: List[str] = []
        for r in (ra, rs):
            if r is not None:
                body = [s for s in r[1].body if isinstance(s, ast.Return)]
                for s in body:
                    for a in ic.collect_atoms_expr(s.value, r[1].args.args[1].arg):
                        if a not in atoms:
                            atoms.append(a)
        cons = cls.key('renderable_uses_agg_context/renderable_uses_scan_context')
        node = (ra or rs)[1]  # type: ignore[index]
        path = (ra or rs)[0].mod.path  # type: ignore[index]
        problems: List[str] = []
        positions = ic.renderable_positions(cls, lay)
        if SC in atoms:
            other = [a for a in atoms if a != SC]
            for fl in ic.valuations(other):
                for p, label in positions:
                    a_f = _bool_method(t, cls, 'renderable_uses_agg_context', p, {**fl, SC: False}, lay)
                    a_t = _bool_method(t, cls, 'renderable_uses_agg_context', p, {**fl, SC: True}, lay)
                    s_f = _bool_method(t, cls, 'renderable_uses_scan_context', p, {**fl, SC: False}, lay)
                    s_t = _bool_method(t, cls, 'renderable_uses_scan_context', p, {**fl, SC: True}, lay)
                    if a_t or s_f:
                        problems.append(f'child {label}: uses_agg_context is {a_t} with is_scan=True / uses_scan_context is {s_f} with is_scan=False')
                    if a_f != s_t:
                        problems.append(f'child {label}: evaluated in the aggregation context when is_scan=False ({a_f}) but '
                                        f'{"not " if not s_t else ""}in the scan context when is_scan=True: lets are lifted into the wrong scope for one of the two')
        else:
            for fl in ic.valuations(atoms):
                for p, label in positions:
                    a = _bool_method(t, cls, 'renderable_uses_agg_context', p, fl, lay)
                    s = _bool_method(t, cls, 'renderable_uses_scan_context', p, fl, lay)
                    if a and s:
                        problems.append(f'child {label} is declared to use both the aggregation and the scan context')
            if not any(_bool_method(t, cls, m, p, fl, lay) for m in ('renderable_uses_agg_context', 'renderable_uses_scan_context')
                       for p, _ in positions for fl in ic.valuations(atoms)):
                problems.append('defines a context switch that is never true for any registered child')
        if problems:
            ctx.bad('R6', cons, problems[0] + (f' (+{len(problems) - 1} more)' if len(problems) > 1 else ''), path, node.lineno)
        else:
            ctx.ok('R6', cons, {'is_scan_mirrored': SC in atoms})

        # agg/scan *bindings* mirrored under is_scan
        if ic.binder_func(cls, 'agg_bindings') is None and ic.binder_func(cls, 'scan_bindings') is None:
            continue
        batoms = _all_atoms(cls, [])
        if SC not in atoms:
            continue
        cons2 = cls.key('renderable_agg_bindings/renderable_scan_bindings')
        bf = ic.binder_func(cls, 'agg_bindings') or ic.binder_func(cls, 'scan_bindings')
        problems = []
        for fl in _vals([a for a in batoms if a != SC]):
            for p, label in positions:
                ag_f = ic.binder_keys(t, cls, 'agg_bindings', p, {**fl, SC: False}, lay)
                ag_t = ic.binder_keys(t, cls, 'agg_bindings', p, {**fl, SC: True}, lay)
                sc_f = ic.binder_keys(t, cls, 'scan_bindings', p, {**fl, SC: False}, lay)
                sc_t = ic.binder_keys(t, cls, 'scan_bindings', p, {**fl, SC: True}, lay)
                if ag_f != sc_t:
                    problems.append(f'child {label}: binds {_fmt(ag_f)} in the aggregation scope when is_scan=False but {_fmt(sc_t)} in the scan scope when is_scan=True')
                if (ag_t or sc_f) and cls.name not in SCAN_BINDINGS_IGNORE_IS_SCAN:
                    problems.append(f'child {label}: binds {_fmt(ag_t)} in the aggregation scope although is_scan=True / {_fmt(sc_f)} in the scan scope although is_scan=False')
        if problems:
            ctx.bad('R6', cons2, problems[0] + (f' (+{len(problems) - 1} more)' if len(problems) > 1 else ''), bf[0].mod.path, bf[1].lineno)  # type: ignore[index]
        else:
            ctx.ok('R6', cons2, {'exception': SCAN_BINDINGS_IGNORE_IS_SCAN.get(cls.name)})


def _returns_true(cls: ic.Cls, meth: str) -> Optional[bool]:
    r = cls.resolve(meth)
    if r is None:
        return None
    body = [s for s in r[1].body if not (isinstance(s, ast.Expr) and isinstance(s.value, ast.Constant))]
    if len(body) == 1 and isinstance(body[0], ast.Return) and isinstance(body[0].value, ast.Constant) and isinstance(body[0].value.value, bool):
        return body[0].value.value
    raise AnalysisError(f'{r[0].key(meth)}: unrecognised body (expected `return True/False`)')


def check_capability(ctx: Ctx, t: ic.Table) -> None:
    for cls in _switching_classes(t):
        cons = cls.key('uses_agg_capability')
        cap = _returns_true(cls, 'uses_agg_capability')
        if cap is None:
            raise AnalysisError(f'{cons}: uses_agg_capability not found through the MRO')
        if cap:
            ctx.ok('R7', cons, None)
        elif cls.name in NO_CAPABILITY_NEEDED:
            ctx.ok('R7', cons, {'exception': NO_CAPABILITY_NEEDED[cls.name]}, nontrivial=False)
        else:
            d = cls.resolve_nonroot('renderable_uses_agg_context') or cls.resolve_nonroot('renderable_uses_scan_context')
            ctx.bad('R7', cons, f'{cls.name} evaluates children in the aggregation/scan context (it performs an aggregation) but '
                    f'uses_agg_capability() is False, so agg_capability is not among its free variables: a {cls.name} shared between an '
                    f'AggFilter/AggGroupBy/AggExplode/AggArrayPerElement body and the enclosing aggregation gets the bind depth of the '
                    f'outer aggregation and is let-lifted out of the filter/group', d[0].mod.path, d[1].lineno)  # type: ignore[index]
    # positive control for the table itself: at least one class binds CAP (defines the meaning of aggregations)
    binders = []
    for cls in _binder_classes(t):
        for lay in ic.layouts(cls)[:1]:
            for p, _ in _positions(cls, lay, {}):
                if ic.CAP in ic.binder_keys(t, cls, 'bindings', p, {}, lay):
                    binders.append(cls.name)
    ctx.check(len(set(binders)) >= 10, 'R7', 'agg_capability binders', f'only {sorted(set(binders))} bind agg_capability', detail=sorted(set(binders)))


# ---------------------------------------------------------------------------------------------------------------------------
WRAPPERS = {
    'bindings': 'renderable_bindings', 'agg_bindings': 'renderable_agg_bindings', 'scan_bindings': 'renderable_scan_bindings',
    'uses_agg_context': 'renderable_uses_agg_context', 'uses_scan_context': 'renderable_uses_scan_context',
    'new_block': 'renderable_new_block', 'child_context': 'renderable_child_context',
}


def check_wrappers(ctx: Ctx, t: ic.Table) -> None:
    base = t.get('BaseIR')
    for w, target in WRAPPERS.items():
        if w not in base.methods:
            raise AnalysisError(f'anchor vanished: BaseIR.{w}')
        fn = base.methods[w]
        cons = base.key(w)
        body = [s for s in fn.body if not (isinstance(s, ast.Expr) and isinstance(s.value, ast.Constant))]
        if not (len(body) == 1 and isinstance(body[0], ast.Return) and isinstance(body[0].value, ast.Call)):
            raise AnalysisError(f'{cons}: unrecognised wrapper body')
        call = body[0].value
        d = pf.dotted(call.func)
        if not (d and d.startswith('self.') and call.args):
            raise AnalysisError(f'{cons}: unrecognised wrapper body `{pf.nsrc(call)}`')
        ivar = fn.args.args[1].arg
        first = pf.nsrc(call.args[0])
        rest_want = [a.arg for a in fn.args.args[2:]]
        rest_got = [pf.nsrc(a) for a in call.args[1:]] + [pf.nsrc(k.value) for k in call.keywords]
        ok = d == f'self.{target}' and first == f'self.renderable_idx_of_child({ivar})' and rest_got == rest_want
        ctx.check(ok, 'R8', cons, f'BaseIR.{w} returns `{pf.nsrc(call)}`; the analysis pass (child indices) and the print pass (renderable indices) '
                  f'only agree if it is `self.{target}(self.renderable_idx_of_child({ivar}), ...)`', base.mod.path, fn.lineno)


def _chain(fn: pf.FuncDef) -> List[Tuple[str, Dict[str, str]]]:
    """The if/elif chain on new_block / uses_agg_context / uses_scan_context in make_child_frame:
    [(predicate method, {assigned variable: value text})]."""
    for st in pf.walk_shallow(fn):
        if isinstance(st, ast.If):
            out = []
            cur: Optional[ast.If] = st
            while cur is not None:
                if not (isinstance(cur.test, ast.Call) and isinstance(cur.test.func, ast.Attribute)):
                    out = []
                    break
                assigns = {}
                for s in cur.body:
                    if not (isinstance(s, ast.Assign) and len(s.targets) == 1 and isinstance(s.targets[0], ast.Name)):
                        raise AnalysisError(f'renderer make_child_frame: unrecognised statement `{pf.nsrc(s)}` in the context chain')
                    assigns[s.targets[0].id] = pf.nsrc(s.value)
                out.append((cur.test.func.attr, assigns))
                cur = cur.orelse[0] if len(cur.orelse) == 1 and isinstance(cur.orelse[0], ast.If) else None
            if len(out) >= 2 and any('new_block' in m for m, _ in out):
                return out
    raise AnalysisError('renderer make_child_frame: context chain not found')


def _bind_depth_facts(fn: pf.FuncDef) -> Set[Tuple[str, str]]:
    """{(free-variable attribute, context index)} consumed by bind_depth, plus ('base', <initial expr>)."""
    facts: Set[Tuple[str, str]] = set()
    for st in pf.walk_shallow(fn):
        if isinstance(st, ast.Assign) and pf.nsrc(st.targets[0]) == 'bind_depth' and not isinstance(st.value, ast.Call):
            facts.add(('base', pf.nsrc(st.value)))
        if isinstance(st, ast.If):
            fv = [n.attr for n in ast.walk(st.test) if isinstance(n, ast.Attribute) and n.attr.startswith('free_')]
            idx = [pf.nsrc(n.slice) for s in st.body for n in ast.walk(s)
                   if isinstance(n, ast.Subscript) and pf.nsrc(n.value) == 'self.context']
            gen = [n.attr for s in st.body for n in ast.walk(s) if isinstance(n, ast.Attribute) and n.attr.startswith('free_')]
            if len(fv) != 1 or len(set(idx)) != 1 or set(gen) != set(fv):
                raise AnalysisError(f'renderer bind_depth: unrecognised clause `{pf.nsrc(st.test)}`')
            facts.add((fv[0], idx[0]))
            # how the clause combines the depths: bind_depth = max(bind_depth, *(<depth of every free variable>))
            body = [x for x in st.body if not isinstance(x, ast.Pass)]
            if not (len(body) == 1 and isinstance(body[0], ast.Assign) and pf.nsrc(body[0].targets[0]) == 'bind_depth' and isinstance(body[0].value, ast.Call)
                    and isinstance(body[0].value.func, ast.Name) and not body[0].value.keywords):
                raise AnalysisError(f'renderer bind_depth: unrecognised clause body `{pf.nsrc(st.body[0])[:80]}`')
            call = body[0].value
            plain = [pf.nsrc(a) for a in call.args if not isinstance(a, ast.Starred)]
            starred = [a for a in call.args if isinstance(a, ast.Starred)]
            if len(starred) != 1 or not isinstance(starred[0].value, (ast.GeneratorExp, ast.ListComp)) or starred[0].value.generators[0].ifs:
                raise AnalysisError(f'renderer bind_depth: unrecognised clause body `{pf.nsrc(body[0])[:80]}`')
            facts.add(('combine', f'{call.func.id}({", ".join(plain + ["*depths"])})'))
    if not facts:
        raise AnalysisError('renderer bind_depth: no clauses recognised')
    return facts


def check_renderer(ctx: Ctx, t: ic.Table) -> None:
    m = t.modules['renderer.py']
    a_mk = m.func('CSEAnalysisPass.StackFrame.make_child_frame')
    p_mk = m.func('CSEPrintPass.StackFrame.make_child_frame')
    want = [('new_block', {'child_min_binding_depth', 'child_min_value_binding_depth'}, None),
            ('uses_agg_context', {'child_min_value_binding_depth', 'child_scan_scope'}, 'False'),
            ('uses_scan_context', {'child_min_value_binding_depth', 'child_scan_scope'}, 'True')]
    for name, fn, prefix in (('CSEAnalysisPass', a_mk, ''), ('CSEPrintPass', p_mk, 'renderable_')):
        ch = _chain(fn)
        cons = f'{m.rel}::{name}.StackFrame.make_child_frame::context chain'
        problems = []
        if [c[0] for c in ch] != [prefix + w[0] for w in want]:
            problems.append(f'tests {[c[0] for c in ch]} but the other pass / the metadata contract is {[prefix + w[0] for w in want]} in this order')
        else:
            for (meth, assigns), (_, vars_, scan) in zip(ch, want):
                if set(assigns) != vars_:
                    problems.append(f'branch {meth} assigns {sorted(assigns)}, expected {sorted(vars_)}')
                elif scan is not None and assigns['child_scan_scope'] != scan:
                    problems.append(f'branch {meth} sets child_scan_scope = {assigns["child_scan_scope"]}, expected {scan}: lets lifted out of this child are '
                                    f'emitted as AggLet with the wrong is_scan')
                depth_vals = {v for k, v in assigns.items() if k != 'child_scan_scope'}
                if len(depth_vals) != 1:
                    problems.append(f'branch {meth} assigns different depths {sorted(depth_vals)}')
        ctx.check(not problems, 'R8', cons, problems[0] if problems else '', m.path, fn.lineno, detail=[c[0] for c in ch])
    # the two bind_depth implementations consume the same (free variable set, context component) pairs
    fa = _bind_depth_facts(m.func('CSEAnalysisPass.StackFrame.bind_depth'))
    fp = _bind_depth_facts(m.func('CSEPrintPass.StackFrame.bind_depth'))
    want_facts = {('base', 'self.min_binding_depth'), ('free_vars', '0'), ('free_agg_vars', '1'), ('free_scan_vars', '2'), ('combine', 'max(bind_depth, *depths)')}
    for name, facts in (('CSEAnalysisPass', fa), ('CSEPrintPass', fp)):
        cons = f'{m.rel}::{name}.StackFrame.bind_depth'
        ctx.check(facts == want_facts, 'R8', cons, f'bind_depth computes {sorted(facts)}; it must start from min_binding_depth and take the maximum with the depth of every eval/agg/scan free '
                  f'variable, looked up in context[0]/[1]/[2] ({sorted(want_facts)}): otherwise a let is placed above the binder of a variable it uses or lifted out of its block', m.path, m.func(f'{name}.StackFrame.bind_depth').lineno)
    # which context call each pass makes
    for name, fn, meth in (('CSEAnalysisPass', a_mk, 'child_context'), ('CSEPrintPass', p_mk, 'renderable_child_context')):
        calls = [c for c in pf.calls_in(fn) if isinstance(c.func, ast.Attribute) and c.func.attr in ('child_context', 'renderable_child_context')]
        cons = f'{m.rel}::{name}.StackFrame.make_child_frame::child context'
        if len(calls) != 1:
            raise AnalysisError(f'{cons}: expected exactly one child-context call')
        ctx.check(calls[0].func.attr == meth and len(calls[0].args) == 3 and pf.nsrc(calls[0].args[1]) == 'self.context', 'R8', cons,
                  f'calls `{pf.nsrc(calls[0])}`; this pass indexes children by {"child" if not meth.startswith("renderable") else "renderable"} index and must call {meth}(i, self.context, depth)',
                  m.path, calls[0].lineno)


def check_depths(ctx: Ctx, t: ic.Table) -> None:
    """R8: the depth recorded for the names a node binds for a child is the depth of the child's frame - the same value a new block
    uses as its floor and the index under which the frame is found again (stack[depth] / bindings_stack[depth])."""
    m = t.modules['renderer.py']
    why = ('bind_depth() returns the recorded depth of the innermost binder a node depends on and the let is inserted above the frame with that index: a depth that is off '
           'by one places the let above the binder (unbound variable) or one level too deep (a second occurrence outside is not shared but still referenced)')
    # analysis pass
    a_mk = m.func(f'{A_CLS}.StackFrame.make_child_frame')
    dpar = a_mk.args.args[1].arg if len(a_mk.args.args) == 2 else None
    ctx.need(dpar, f'{m.rel}::{A_CLS}.StackFrame.make_child_frame: unrecognised signature')
    calls = [c for c in pf.calls_in(a_mk) if isinstance(c.func, ast.Attribute) and c.func.attr in ('child_context', 'renderable_child_context')]
    ctx.need(len(calls) == 1 and len(calls[0].args) == 3, f'{m.rel}::{A_CLS}.StackFrame.make_child_frame: child-context call not found')
    chain_vals = {v for _m, assigns in _chain(a_mk) for k, v in assigns.items() if k != 'child_scan_scope'}
    got = pf.nsrc(pf.resolve_expr(a_mk, calls[0].args[2]) if isinstance(calls[0].args[2], ast.Name) and calls[0].args[2].id != dpar else calls[0].args[2])
    cons = f'{m.rel}::{A_CLS}.StackFrame.make_child_frame::binder depth'
    ctx.check(got == dpar and chain_vals == {dpar}, 'R8', cons, f'names bound for the child are recorded at depth `{got}` and new blocks / context switches use {sorted(chain_vals)}; '
              f'both must be the child frame\'s own depth `{dpar}`: {why}', m.path, calls[0].lineno)
    a_call = m.func(f'{A_CLS}.__call__')
    mk_calls = [c for c in pf.calls_in(a_call) if isinstance(c.func, ast.Attribute) and c.func.attr == 'make_child_frame']
    pushes = [c for c in pf.calls_in(a_call) if isinstance(c.func, ast.Attribute) and c.func.attr == 'append' and isinstance(c.func.value, ast.Name)
              and len(c.args) == 1 and isinstance(c.args[0], ast.Name) and any(isinstance(d, ast.Call) and d is mk for d in pf.assignments(a_call).get(c.args[0].id, []) for mk in mk_calls)]
    ctx.need(len(mk_calls) == 1 and len(mk_calls[0].args) == 1 and len(pushes) == 1, f'{m.rel}::{A_CLS}.__call__: make_child_frame / stack push not found')
    stack_name = pushes[0].func.value.id  # type: ignore[attr-defined]
    a0 = mk_calls[0].args[0]
    arg = pf.nsrc(pf.resolve_expr(a_call, a0) if isinstance(a0, ast.Name) else a0)
    ctx.check(arg == f'len({stack_name})', 'R8', f'{m.rel}::{A_CLS}.__call__::child frame depth', f'the child frame is created with depth `{arg}` but pushed at index '
              f'len({stack_name}): the frame found under {stack_name}[bind_depth] is not the frame that bound the variable. {why}', m.path, mk_calls[0].lineno)
    # print pass
    p_mk = m.func(f'{P_CLS}.StackFrame.make_child_frame')
    calls = [c for c in pf.calls_in(p_mk) if isinstance(c.func, ast.Attribute) and c.func.attr in ('child_context', 'renderable_child_context')]
    ctx.need(len(calls) == 1 and len(calls[0].args) == 3, f'{m.rel}::{P_CLS}.StackFrame.make_child_frame: child-context call not found')
    chain_vals = {v for _m, assigns in _chain(p_mk) for k, v in assigns.items() if k != 'child_scan_scope'}
    darg = calls[0].args[2]
    conds = ic.path_conditions(p_mk)
    by_case: Dict[bool, Set[str]] = {True: set(), False: set()}
    if isinstance(darg, ast.Name):
        for st in pf.walk_shallow(p_mk):
            if isinstance(st, ast.Assign) and len(st.targets) == 1 and isinstance(st.targets[0], ast.Name) and st.targets[0].id == darg.id:
                val = st.value
                if isinstance(val, ast.IfExp):
                    cases = [(val.test, True, val.body), (val.test, False, val.orelse)]
                else:
                    lits = [x for tst, pol in conds.get(id(st), []) for x in ic.literals(tst, pol)]
                    isi = [(e, pol) for e, pol in lits if isinstance(e, ast.Call) and pf.dotted(e.func) == 'isinstance' and 'BaseIR' in pf.nsrc(e.args[1])]
                    if len(isi) != 1:
                        raise AnalysisError(f'{m.rel}::{P_CLS}.StackFrame.make_child_frame: `{pf.nsrc(st)}` is not under an isinstance(child, ir.BaseIR) test')
                    cases = [(isi[0][0], isi[0][1], val)]
                for tst, pol, v in cases:
                    if not (isinstance(tst, ast.Call) and pf.dotted(tst.func) == 'isinstance' and 'BaseIR' in pf.nsrc(tst.args[1])):
                        raise AnalysisError(f'{m.rel}::{P_CLS}.StackFrame.make_child_frame: unrecognised depth case `{pf.nsrc(tst)}`')
                    by_case[pol].add(pf.nsrc(v))
    else:
        raise AnalysisError(f'{m.rel}::{P_CLS}.StackFrame.make_child_frame: unrecognised depth argument `{pf.nsrc(darg)}`')
    cons = f'{m.rel}::{P_CLS}.StackFrame.make_child_frame::binder depth'
    ok = len(chain_vals) == 1 and by_case[True] == chain_vals and by_case[False] == {'self.depth'} and chain_vals == {'self.depth + 1'}
    ctx.check(ok, 'R8', cons, f'an IR child gets depth {sorted(by_case[True])} (a non-IR renderable {sorted(by_case[False])}) while new blocks / context switches use '
              f'{sorted(chain_vals)}; an IR child is one level below its parent (`self.depth + 1`, as in the analysis pass where it is the stack index) and a parenthesised '
              f'group stays at `self.depth`: {why}', m.path, calls[0].lineno)


def check_child_context(ctx: Ctx, t: ic.Table) -> None:
    base = t.get('BaseIR')
    fn = base.methods.get('renderable_child_context')
    if fn is None:
        raise AnalysisError('anchor vanished: BaseIR.renderable_child_context')
    got = {}
    for st in pf.walk_shallow(fn):
        if isinstance(st, ast.Assign) and isinstance(st.value, ast.Call) and pf.dotted(st.value.func) in (
                'self.bindings', 'self.agg_bindings', 'self.scan_bindings', 'self.renderable_bindings', 'self.renderable_agg_bindings', 'self.renderable_scan_bindings'):
            got[pf.nsrc(st.targets[0])] = pf.dotted(st.value.func).split('.')[1]  # type: ignore[union-attr]
    if set(got) != {'eval_b', 'agg_b', 'scan_b'}:
        raise AnalysisError(f'{base.key("renderable_child_context")}: unrecognised body ({got})')
    cons = base.key('renderable_child_context')
    kinds = {'eval_b': 'bindings', 'agg_b': 'agg_bindings', 'scan_b': 'scan_bindings'}
    ok = all(got[k] in (v, 'renderable_' + v) for k, v in kinds.items())
    ctx.check(ok, 'R9', cons, f'eval/agg/scan bindings are taken from {got}; each context component must be extended with its own kind of bindings', base.mod.path, fn.lineno)
    remaps = all(got[k] == v for k, v in kinds.items())  # goes through the child-index wrappers although i is a renderable index
    uses_renderable = all(got[k] == 'renderable_' + v for k, v in kinds.items())
    if not (remaps or uses_renderable):
        raise AnalysisError(f'{cons}: mixes child-index and renderable-index binder calls ({got})')
    for cls in t.ir_classes():
        if cls.resolve_nonroot('renderable_idx_of_child') is not None:
            c2 = cls.key('renderable_idx_of_child')
            has = [f for f in BINDER_API if ic.binder_func(cls, f) is not None]
            if remaps:
                ctx.check(not has, 'R9', c2, f'{cls.name} remaps child indices and defines {has}; BaseIR.renderable_child_context passes an already remapped index '
                          f'through self.bindings(i), which remaps it again: the names are bound for the wrong child', cls.mod.path, cls.node.lineno)
            else:
                ctx.ok('R9', c2, None)
        direct = [f for f in BINDER_API if f in cls.methods]
        if direct:
            c3 = cls.key('/'.join(direct))
            ctx.check(remaps, 'R9', c3, f'{cls.name} overrides {direct} (child-index API) instead of the renderable_* method, but BaseIR.renderable_child_context '
                      f'now reads renderable_* directly: the renderer no longer sees these bindings', cls.mod.path, cls.methods[direct[0]].lineno)


def _uid_source(m: pf.Module, fn: Optional[pf.FuncDef], e: ast.AST, depth: int = 0) -> bool:
    """Is the expression an Env.get_uid() identifier (possibly inside an f-string / through single-assignment locals), or None?"""
    if isinstance(e, ast.Constant) and e.value is None:
        return True
    if isinstance(e, ast.Call) and pf.dotted(e.func) in ('Env.get_uid', 'hl.utils.java.Env.get_uid'):
        return True
    if isinstance(e, ast.JoinedStr):
        holes = [v.value for v in e.values if isinstance(v, ast.FormattedValue)]
        consts = [v.value for v in e.values if isinstance(v, ast.Constant)]
        return bool(holes) and all(_uid_source(m, fn, h, depth) for h in holes) and all(isinstance(c, str) and (c == '' or c.replace('_', 'a').isalnum()) for c in consts)
    if isinstance(e, ast.Name) and fn is not None and depth < 3:
        defs = pf.assignments(fn).get(e.id, [])
        vals: List[ast.AST] = []
        for d in defs:
            if (isinstance(d, ast.Assign) and len(d.targets) == 1 and isinstance(d.targets[0], ast.Tuple) and isinstance(d.value, ast.Tuple)
                    and len(d.targets[0].elts) == len(d.value.elts)):
                # a, b = x, y
                vals += [v for tgt, v in zip(d.targets[0].elts, d.value.elts) if isinstance(tgt, ast.Name) and tgt.id == e.id]
            else:
                vals.append(d)
        return bool(vals) and all(isinstance(d, ast.expr) and _uid_source(m, fn, d, depth + 1) for d in vals)
    if isinstance(e, ast.Attribute) and e.attr == 'name' and depth < 3:
        # Ref(...).name of a reference that was itself created from a uid
        return _uid_source(m, fn, e.value, depth + 1)
    if isinstance(e, ast.Call) and pf.dotted(e.func) in ('ir.Ref', 'Ref') and e.args:
        return _uid_source(m, fn, e.args[0], depth + 1)
    return False


def check_raw_sites(ctx: Ctx, t: ic.Table) -> None:
    """thorough: every construction site (outside hail/ir) of a class on the RAW_RENDERED list passes uid-derived binder names."""
    want: Dict[str, List[str]] = {}
    for (cname, tok) in RAW_RENDERED:
        want.setdefault(cname, []).append(tok[2:])
    n_sites = 0
    for rel in pf.walk_py(['hail/python/hail'], exclude=['hail/python/hail/ir/', 'hail/python/hail/docs', 'hail/python/hail/ggplot']):
        src = None
        try:
            m = pf.load(rel)
        except AnalysisError:
            continue
        for call in ast.walk(m.tree):
            if not isinstance(call, ast.Call):
                continue
            d = pf.dotted(call.func)
            cname = d.split('.')[-1] if d else None
            if cname not in want:
                continue
            cls = t.get(cname)
            init = cls.resolve('__init__')[1]  # type: ignore[index]
            params = [a.arg for a in init.args.args[1:]]
            # attribute -> constructor parameter (self.attr = param)
            attr_param = {}
            for st in pf.walk_shallow(init):
                if isinstance(st, ast.Assign) and isinstance(st.value, ast.Name) and isinstance(st.targets[0], ast.Attribute):
                    attr_param[st.targets[0].attr] = st.value.id
            fn = m.enclosing_func(call)
            n_sites += 1
            for attr in want[cname]:
                prm = attr_param.get(attr)
                if prm is None or prm not in params:
                    raise AnalysisError(f'{cls.key("__init__")}: cannot map attribute {attr} to a constructor parameter')
                idx = params.index(prm)
                arg = call.args[idx] if idx < len(call.args) and not any(isinstance(a, ast.Starred) for a in call.args[: idx + 1]) else None
                for kw in call.keywords:
                    if kw.arg == prm:
                        arg = kw.value
                cons = f'{rel}::{m.qualname(fn) if fn else "<module>"}::{cname}({prm}=...)'
                if arg is None:
                    raise AnalysisError(f'{cons}: binder name argument not found')
                ctx.check(_uid_source(m, fn, arg), 'R3', cons, f'{cname} renders `{attr}` without escape_id (frozen exception: uid-only names) but this site passes '
                          f'`{pf.nsrc(arg)}`, which is not derived from Env.get_uid()', m.path, call.lineno)
    ctx.unit('raw_render_construction_sites', n_sites)
    ctx.need(n_sites >= 5, f'only {n_sites} construction sites of raw-rendering classes found (expected the 6 listed in RAW_RENDERED)')


# ---------------------------------------------------------------------------------------------------------------------------
# R11 / R12: the free-variable properties (bind depths are computed from them)
# ---------------------------------------------------------------------------------------------------------------------------
FREE_PROPS = (('free_vars', '_free_vars', 'bindings'), ('free_agg_vars', '_free_agg_vars', 'agg_bindings'), ('free_scan_vars', '_free_scan_vars', 'scan_bindings'))
FREE_FIELDS = {f: p for p, f, _ in FREE_PROPS}
COMP_NAMES = ('eval', 'agg', 'scan')
# classes that pre-populate a cache field in their constructor (base cases of the free-variable definition), with the reason
PRESET_FREE = {
    ('Ref', '_free_vars'): (frozenset({'A:name'}), 'base case: a reference mentions exactly its own name; Ref registers no children', None),
    ('Recur', '_free_vars'): (frozenset({'A:name'}), 'the loop name',
                              'Recur pre-populates _free_vars = {name}, so the free variables of its argument children never reach its ancestors. Not reported: '
                              'a Recur is only legal in tail position of its TailLoop body, so two occurrences of one node containing it are always separated '
                              'by If/Switch branches (new blocks) and no lifting decision reads the understated set'),
}


def _is_cap(e: ast.AST) -> bool:
    return pf.dotted(e) in ('BaseIR.agg_capability', 'self.agg_capability', 'IR.agg_capability', 'cls.agg_capability') or (
        isinstance(e, ast.Constant) and e.value == 'agg_capability')


def _children_len_atom(e: ast.AST) -> Optional[bool]:
    """Truth value of `e` on a node WITHOUT children, for the recognised spellings of "has (no) children"; None otherwise."""
    def is_children(x: ast.AST) -> bool:
        return pf.dotted(x) == 'self.children'

    def is_len(x: ast.AST) -> bool:
        return isinstance(x, ast.Call) and pf.dotted(x.func) == 'len' and len(x.args) == 1 and is_children(x.args[0])
    if is_children(e) or is_len(e):
        return False
    if isinstance(e, ast.Compare) and len(e.ops) == 1 and is_len(e.left) and isinstance(e.comparators[0], ast.Constant) and isinstance(e.comparators[0].value, int):
        # truth value on n == 0 children; each of these spellings has the opposite value for every n >= 1
        return {(ast.Eq, 0): True, (ast.NotEq, 0): False, (ast.Gt, 0): False, (ast.GtE, 1): False, (ast.Lt, 1): True,
                (ast.LtE, 0): True}.get((type(e.ops[0]), e.comparators[0].value))
    return None


class _FreeRun:
    """Abstract run of one free_* property of class IR under a valuation of (N: cache field is None, L: no children,
    U: uses_agg_capability()).  Set values are cells of tokens: OLD:<field> (the cached value), KIDS (union over all children of
    vars_from_child), KIDS[...] (a recognisably partial union), CAP (the agg_capability marker)."""

    def __init__(self, where: str, fn: pf.FuncDef, field: str, val: Dict[str, bool]):
        self.where, self.fn, self.field, self.val = where, fn, field, val
        self.cells: List[Set[str]] = []
        self.fields: Dict[str, Optional[int]] = {}
        for f in FREE_FIELDS:
            if f == field and val['N']:
                self.fields[f] = None
            else:
                self.fields[f] = self.new({f'OLD:{f}'})
        self.env: Dict[str, Optional[int]] = {}
        self.closures: Dict[str, ast.FunctionDef] = {}
        self.used_closures: Set[str] = set()
        self.result: Optional[Tuple[Optional[int]]] = None
        self.atoms_seen: Set[str] = set()

    def new(self, toks: Iterable[str]) -> int:
        self.cells.append(set(toks))
        return len(self.cells) - 1

    def atom(self, e: ast.AST) -> bool:
        k, pol = ic._norm_atom(e)
        if k == f'self.{self.field} is None':
            self.atoms_seen.add('N')
            return self.val['N'] if pol else not self.val['N']
        leaf = _children_len_atom(e)
        if leaf is not None:
            self.atoms_seen.add('L')
            return leaf if self.val['L'] else not leaf
        if (isinstance(e, ast.Call) and isinstance(e.func, ast.Attribute) and e.func.attr == 'uses_agg_capability' and not e.args and not e.keywords
                and pf.nsrc(e.func.value) in ('self', 'type(self)', 'self.__class__')):
            self.atoms_seen.add('U')
            return self.val['U']
        # truthiness / emptiness of a set value
        x, truthy = e, True
        if isinstance(e, ast.Compare) and len(e.ops) == 1 and isinstance(e.left, ast.Call) and pf.dotted(e.left.func) == 'len' and len(e.left.args) == 1 \
                and isinstance(e.comparators[0], ast.Constant):
            form = (type(e.ops[0]), e.comparators[0].value)
            if form in ((ast.Eq, 0), (ast.LtE, 0), (ast.Lt, 1)):
                x, truthy = e.left.args[0], False
            elif form in ((ast.NotEq, 0), (ast.Gt, 0), (ast.GtE, 1)):
                x, truthy = e.left.args[0], True
        elif isinstance(e, ast.Call) and pf.dotted(e.func) == 'len' and len(e.args) == 1:
            x = e.args[0]
        if isinstance(x, ast.Name) and x.id in self.env or (isinstance(x, ast.Attribute) and pf.nsrc(x.value) == 'self' and x.attr in self.fields):
            c = self.setval(x)
            if c is not None:
                toks = self.cells[c]
                if not toks:
                    nonempty = False
                elif 'CAP' in toks:
                    nonempty = True
                elif all(k.startswith('KIDS') for k in toks):
                    self.atoms_seen.add('E')
                    nonempty = not (self.val['L'] or self.val['E'])
                else:
                    raise AnalysisError(f'{self.where}: emptiness of `{pf.nsrc(x)}` = {_fmt(toks)} is not decidable')
                return nonempty == truthy
        raise AnalysisError(f'{self.where}: unrecognised test `{pf.nsrc(e)}`')

    def kids(self, elt: ast.AST, gens: Sequence[ast.comprehension]) -> Set[str]:
        w = self.where
        if len(gens) == 2:
            g1, g2 = gens
            ok = (isinstance(elt, ast.Name) and isinstance(g2.target, ast.Name) and g2.target.id == elt.id and isinstance(g2.iter, ast.Call)
                  and isinstance(g2.iter.func, ast.Name) and g2.iter.func.id in self.closures and len(g2.iter.args) == 1
                  and isinstance(g1.target, ast.Name) and pf.nsrc(g2.iter.args[0]) == g1.target.id)
            callee = g2.iter.func.id if ok else None  # type: ignore[union-attr]
            filt = list(g1.ifs) + list(g2.ifs)
        elif len(gens) == 1:
            g1 = gens[0]
            ok = (isinstance(elt, ast.Call) and isinstance(elt.func, ast.Name) and elt.func.id in self.closures and len(elt.args) == 1
                  and isinstance(g1.target, ast.Name) and pf.nsrc(elt.args[0]) == g1.target.id)
            callee = elt.func.id if ok else None  # type: ignore[union-attr]
            filt = list(g1.ifs)
        else:
            ok, callee, filt, g1 = False, None, [], None
        if not ok:
            raise AnalysisError(f'{w}: unrecognised comprehension over the children')
        self.used_closures.add(callee)  # type: ignore[arg-type]
        rng = g1.iter  # type: ignore[union-attr]
        full = isinstance(rng, ast.Call) and pf.dotted(rng.func) == 'range' and len(rng.args) == 1 and pf.nsrc(rng.args[0]) == 'len(self.children)' and not rng.keywords
        if filt:
            raise AnalysisError(f'{w}: filtered comprehension over the children (`if {pf.nsrc(filt[0])}`) is not modelled')
        if full:
            return {'KIDS'}
        if isinstance(rng, ast.Call) and pf.dotted(rng.func) == 'range' and not rng.keywords and all(
                _int_const(a) is not None or pf.nsrc(a) in ('len(self.children)', 'len(self.children) - 1') for a in rng.args):
            return {f'KIDS[{pf.nsrc(rng)}]'}  # recognisably not all children
        raise AnalysisError(f'{w}: unrecognised child range `{pf.nsrc(rng)}`')

    def setval(self, e: ast.AST) -> Optional[int]:
        w = self.where
        if isinstance(e, ast.Constant) and e.value is None:
            return None
        if isinstance(e, ast.Set):
            if all(_is_cap(x) for x in e.elts):
                return self.new({'CAP'})
            raise AnalysisError(f'{w}: unrecognised set element in `{pf.nsrc(e)}`')
        if isinstance(e, ast.SetComp):
            return self.new(self.kids(e.elt, e.generators))
        if isinstance(e, ast.Attribute) and isinstance(e.value, ast.Name) and e.value.id == 'self' and e.attr in self.fields:
            return self.fields[e.attr]
        if isinstance(e, ast.Name):
            if e.id not in self.env:
                raise AnalysisError(f'{w}: unbound local `{e.id}`')
            return self.env[e.id]
        if isinstance(e, ast.IfExp):
            return self.setval(e.body if ic.eval_bool(e.test, self.atom) else e.orelse)
        if isinstance(e, ast.BinOp) and isinstance(e.op, ast.BitOr):
            a, b = self.setval(e.left), self.setval(e.right)
            if a is None or b is None:
                raise AnalysisError(f'{w}: union with None in `{pf.nsrc(e)}`')
            return self.new(self.cells[a] | self.cells[b])
        if isinstance(e, ast.Call):
            d = pf.dotted(e.func)
            if d in ('set', 'frozenset') and not e.keywords:
                if not e.args:
                    return self.new(())
                if len(e.args) == 1 and isinstance(e.args[0], (ast.GeneratorExp, ast.SetComp, ast.ListComp)):
                    return self.new(self.kids(e.args[0].elt, e.args[0].generators))
                if len(e.args) == 1:
                    a = self.setval(e.args[0])
                    if a is not None:
                        return self.new(self.cells[a])
            if isinstance(e.func, ast.Attribute) and e.func.attr == 'copy' and not e.args:
                a = self.setval(e.func.value)
                if a is not None:
                    return self.new(self.cells[a])
            if isinstance(e.func, ast.Attribute) and e.func.attr == 'union' and not e.keywords:
                a = self.setval(e.func.value)
                if a is None:
                    raise AnalysisError(f'{w}: union on None in `{pf.nsrc(e)}`')
                acc = set(self.cells[a])
                for x in e.args:
                    if isinstance(x, ast.Starred) and isinstance(x.value, (ast.GeneratorExp, ast.ListComp)):
                        acc |= self.kids(x.value.elt, x.value.generators)
                    else:
                        b = self.setval(x)
                        if b is None:
                            raise AnalysisError(f'{w}: union with None in `{pf.nsrc(e)}`')
                        acc |= self.cells[b]
                return self.new(acc)
        raise AnalysisError(f'{w}: unrecognised set expression `{pf.nsrc(e)}`')

    def visit(self, st: ast.stmt) -> None:
        w = self.where
        if isinstance(st, ast.FunctionDef):
            self.closures[st.name] = st
            return
        if isinstance(st, (ast.Assert, ast.Pass)):
            return
        if isinstance(st, ast.Return):
            if st.value is None:
                raise AnalysisError(f'{w}: bare return')
            self.result = (self.setval(st.value),)
            return
        if isinstance(st, (ast.Assign, ast.AnnAssign)):
            tgts = st.targets if isinstance(st, ast.Assign) else [st.target]
            if len(tgts) == 1 and st.value is not None:
                tg = tgts[0]
                if isinstance(tg, ast.Attribute) and isinstance(tg.value, ast.Name) and tg.value.id == 'self' and tg.attr in self.fields:
                    self.fields[tg.attr] = self.setval(st.value)
                    return
                if isinstance(tg, ast.Name):
                    self.env[tg.id] = self.setval(st.value)
                    return
        if isinstance(st, ast.AugAssign) and isinstance(st.op, ast.BitOr):
            a = self.setval(st.target)
            b = self.setval(st.value)
            if a is not None and b is not None:
                self.cells[a] |= self.cells[b]
                return
        if isinstance(st, ast.Expr) and isinstance(st.value, ast.Call) and isinstance(st.value.func, ast.Attribute) and not st.value.keywords:
            c = st.value
            recv = self.setval(c.func.value)  # type: ignore[attr-defined]
            if recv is not None and c.func.attr == 'add' and len(c.args) == 1 and _is_cap(c.args[0]):  # type: ignore[attr-defined]
                self.cells[recv].add('CAP')
                return
            if recv is not None and c.func.attr == 'update' and len(c.args) == 1:  # type: ignore[attr-defined]
                b = self.setval(c.args[0])
                if b is not None:
                    self.cells[recv] |= self.cells[b]
                    return
        raise AnalysisError(f'{w}: unrecognised statement `{pf.nsrc(st)[:90]}`')

    def run(self) -> Tuple[Optional[FrozenSet[str]], Optional[FrozenSet[str]]]:
        r = ic.exec_block(self.fn.body, self.atom, self.visit)
        if r is None or r[0] != 'return' or self.result is None:
            raise AnalysisError(f'{self.where}: does not end in a return on the path {self.val}')
        res = self.result[0]
        fin = self.fields[self.field]
        return (None if res is None else frozenset(self.cells[res])), (None if fin is None else frozenset(self.cells[fin]))


def _shape_classes(t: ic.Table, prop: str) -> Dict[Tuple[bool, bool], List[str]]:
    """(no children?, uses_agg_capability()?) -> value IR classes that inherit IR.<prop> and can have that shape."""
    out: Dict[Tuple[bool, bool], List[str]] = {}
    for cls in t.ir_classes():
        if not cls.is_a('IR'):
            continue
        r = cls.resolve(prop)
        if r is None or r[0].name != 'IR':
            continue
        u = bool(_returns_true(cls, 'uses_agg_capability'))
        lays = ic.layouts(cls)
        if any(all(s.kind != 'fixed' for s in lay.segs) for lay in lays):
            out.setdefault((True, u), []).append(cls.name)
        if any(lay.segs for lay in lays):
            out.setdefault((False, u), []).append(cls.name)
    return out


_ir_prop_cache: Dict[str, pf.FuncDef] = {}


def _ir_prop_fn(t: ic.Table, prop: str) -> pf.FuncDef:
    """IR.<prop> with its same-class / module-level helper calls inlined (an extracted `_compute_free_vars()` is seen through)."""
    if prop not in _ir_prop_cache:
        ircls = t.get('IR')
        fn = ircls.methods.get(prop)
        if fn is None or 'property' not in pf.decorator_names(fn):
            raise AnalysisError(f'anchor vanished: property IR.{prop}')
        m2, _inl, _sk = ic.inline_all(ircls.mod, 'IR', prop)
        cands = [f for f in m2.cls('IR').body if isinstance(f, ast.FunctionDef) and f.name == prop and 'property' in pf.decorator_names(f)]
        if len(cands) != 1:
            raise AnalysisError(f'anchor vanished: property IR.{prop}')
        _ir_prop_cache[prop] = cands[0]
    return _ir_prop_cache[prop]


def check_free_props(ctx: Ctx, t: ic.Table) -> None:
    """R11: on every path of IR.free_vars / free_agg_vars / free_scan_vars that does not return the cached value, the result (and the
    value left in the cache) is the union over ALL children plus - for free_vars - the agg_capability marker when
    uses_agg_capability() holds; a cache hit returns the cached value; cache fields are only pre-populated with a base case."""
    ircls = t.get('IR')
    for prop, field, _ in FREE_PROPS:
        fn = _ir_prop_fn(t, prop)
        cons = ircls.key(prop)
        shapes = _shape_classes(t, prop)
        ctx.need(shapes, f'{cons}: no IR class inherits it')
        problems: List[str] = []
        n_paths = 0
        tested: Set[str] = set()
        for (leaf, u), examples in sorted(shapes.items()):
            # E: the children contribute no variable at all (always so for a child-less node)
            for n, empty in ((True, True), (True, False), (False, True), (False, False)) if not leaf else ((True, True), (False, True)):
                run = _FreeRun(cons, fn, field, {'N': n, 'L': leaf, 'U': u, 'E': empty})
                res, fin = run.run()
                tested |= run.atoms_seen
                n_paths += 1
                want_cap = u and prop == 'free_vars'
                ex = ', '.join(examples[:3])
                shape = (f'{"child-less" if leaf else "non-leaf"} node' + (' whose children have no free variables (e.g. hl.agg.sum(1))' if empty and not leaf else '')
                         + f', uses_agg_capability()={u} (e.g. {ex})')

                def norm(x: Optional[FrozenSet[str]], empty=empty) -> Optional[FrozenSet[str]]:
                    if x is None:
                        return None
                    return frozenset(k for k in x if not (empty and k == 'KIDS'))
                res, fin = norm(res), norm(fin)
                if n:
                    want = frozenset(([] if empty else ['KIDS']) + (['CAP'] if want_cap else []))
                    if res != want:
                        miss = sorted(want - (res or frozenset()))
                        msg = f'first evaluation on a {shape} returns {_fmt(res) if res is not None else None}, expected {_fmt(want)}'
                        if 'CAP' in miss:
                            msg += (': the agg_capability marker is not added on this path, so the aggregation is no longer pinned below the '
                                    'AggFilter/AggExplode/AggGroupBy/AggArrayPerElement that gives it meaning - e.g. a shared hl.agg.count() '
                                    '(ApplyAggOp Count () ()) used inside and outside hl.agg.filter gets the bind depth of the enclosing block and is '
                                    'let-lifted out of the filter (the filtered count becomes the unfiltered count)')
                        elif miss:
                            msg += ': free variables of (some) children are dropped, so a shared sub-term can be let-bound above the binder of a variable it uses'
                        problems.append(msg)
                    elif fin is not None and fin != want:
                        problems.append(f'first evaluation on a {shape} returns {_fmt(res)} but leaves {_fmt(fin)} in self.{field}: later reads see a different set')
                else:
                    old = f'OLD:{field}'
                    allowed = {old} | ({'CAP'} if want_cap else set())
                    if res is None or old not in res or not res <= allowed:
                        problems.append(f'with self.{field} already computed, a {shape} returns {_fmt(res) if res is not None else None} instead of the cached set')
                    elif fin is None or old not in fin or not fin <= allowed:
                        problems.append(f'with self.{field} already computed, a {shape} overwrites the cache with {_fmt(fin) if fin is not None else None}')
        if problems:
            ctx.bad('R11', cons, problems[0] + (f' (+{len(problems) - 1} more shapes)' if len(problems) > 1 else ''), ircls.mod.path, fn.lineno)
        else:
            ctx.ok('R11', cons, {'paths': n_paths, 'shapes': {f'leaf={k[0]},cap={k[1]}': len(v) for k, v in shapes.items()}, 'tests': sorted(tested)})
        ctx.unit('free_var_paths', n_paths)

    # cache fields written outside the three properties
    for cls in t.classes.values():
        for mname, fn in cls.methods.items():
            if cls.name == 'IR' and mname in FREE_FIELDS.values():
                continue
            for st in pf.walk_shallow(fn):
                tgts = st.targets if isinstance(st, ast.Assign) else [st.target] if isinstance(st, (ast.AnnAssign, ast.AugAssign)) else []
                for tg in tgts:
                    if not (isinstance(tg, ast.Attribute) and tg.attr in FREE_FIELDS):
                        continue
                    cons = f'{cls.key(mname)}::{pf.nsrc(tg)}'
                    val = getattr(st, 'value', None)
                    if not (isinstance(st, ast.Assign) and isinstance(tg.value, ast.Name) and tg.value.id == 'self' and val is not None):
                        raise AnalysisError(f'{cons}: unrecognised write to a free-variable cache `{pf.nsrc(st)}`')
                    if cls.name == 'IR':
                        if isinstance(val, ast.Constant) and val.value is None and mname == '__init__':
                            ctx.ok('R11', cons, 'None')
                        elif isinstance(val, (ast.Set, ast.Dict)) or (isinstance(val, ast.Call) and pf.dotted(val.func) in ('set', 'frozenset')):
                            ctx.bad('R11', cons, f'IR.{mname} pre-populates self.{tg.attr} with `{pf.nsrc(val)}` for every node: IR.{FREE_FIELDS[tg.attr]} then never '
                                    f'computes the free variables, every shared sub-term gets the bind depth of its enclosing block', cls.mod.path, st.lineno)
                        else:
                            raise AnalysisError(f'{cons}: unrecognised initial value `{pf.nsrc(val)}`')
                        continue
                    if not cls.is_a('IR'):
                        raise AnalysisError(f'{cons}: free-variable cache written outside the value IR classes')
                    toks = _preset_tokens(cls, fn, val, cons)
                    u = bool(_returns_true(cls, 'uses_agg_capability'))
                    leaf_only = all(not lay.segs for lay in ic.layouts(cls))
                    pre = PRESET_FREE.get((cls.name, tg.attr))
                    if pre is not None and toks == pre[0]:
                        ctx.ok('R11', cons, {'exception': pre[1]}, nontrivial=False)
                        if pre[2]:
                            ctx.info(f'C35-R11 note {cls.name}: {pre[2]}')
                    elif leaf_only and toks == frozenset(['CAP'] if (u and tg.attr == '_free_vars') else []):
                        ctx.ok('R11', cons, {'leaf': True, 'value': sorted(toks)})
                    else:
                        ctx.bad('R11', cons, f'{cls.name}.{mname} pre-populates self.{tg.attr} = {_fmt(toks)}, so IR.{FREE_FIELDS[tg.attr]} never runs the full computation '
                                f'for this class: ' + ('the free variables of its children ' if not leaf_only else '') + ('and ' if (not leaf_only and u) else '')
                                + ('the agg_capability marker ' if u and 'CAP' not in toks else '') + 'never reach the bind-depth computation, a shared sub-term is let-bound '
                                'above a binder it depends on', cls.mod.path, st.lineno)


def _cache_field_stores(tree: ast.AST) -> List[ast.Attribute]:
    return [n for n in ast.walk(tree) if isinstance(n, ast.Attribute) and n.attr in FREE_FIELDS and isinstance(n.ctx, (ast.Store, ast.Del))]


def check_external_cache_writes(ctx: Ctx, t: ic.Table) -> None:
    """thorough: nothing outside hail/ir writes the free-variable caches (R11 reasons about every writer inside it)."""
    control = ast.parse('x._free_vars = set()\ndel y._free_agg_vars')
    ctx.need(len(_cache_field_stores(control)) == 2, 'positive control for the cache-field scan failed')
    n = 0
    for rel in pf.walk_py(['hail/python/hail'], exclude=['hail/python/hail/ir/', 'hail/python/hail/docs']):
        try:
            m = pf.load(rel)
        except AnalysisError:
            continue
        n += 1
        for a in _cache_field_stores(m.tree):
            raise AnalysisError(f'{rel}:{a.lineno}: `{pf.nsrc(a)}` is written outside hail/ir (not modelled)')
    ctx.ok('R11', 'hail/python/hail::no external writer of the free-variable caches', {'files': n}, nontrivial=False)
    ctx.unit('files_scanned_for_cache_writes', n)


def _preset_tokens(cls: ic.Cls, fn: pf.FuncDef, val: ast.AST, where: str) -> FrozenSet[str]:
    attrs = ic._init_attrs(fn)
    if isinstance(val, ast.Call) and pf.dotted(val.func) in ('set', 'frozenset') and not val.args:
        return frozenset()
    if isinstance(val, ast.Set):
        out = set()
        for x in val.elts:
            if _is_cap(x):
                out.add('CAP')
            elif isinstance(x, ast.Name) and len(attrs.get(x.id, ())) >= 1:
                out.add('A:' + sorted(attrs[x.id])[0])
            elif ic._self_attr(x) is not None:
                out.add(f'A:{ic._self_attr(x)}')
            else:
                raise AnalysisError(f'{where}: unrecognised element `{pf.nsrc(x)}`')
        return frozenset(out)
    raise AnalysisError(f'{where}: unrecognised value `{pf.nsrc(val)}`')


FLOW_METHOD = 'renderable_child_context_without_bindings'
Flow = Tuple[Optional[int], Optional[int], Optional[int]]


def _flow_of(where: str, fn: pf.FuncDef, atom) -> Flow:
    """Which component of the parent context (0 eval, 1 agg, 2 scan; None = not available) each component of the child context is,
    on the path selected by the test oracle."""
    params = [a.arg for a in fn.args.args]
    if len(params) != 3:
        raise AnalysisError(f'{where}: unrecognised signature')
    pc = params[2]
    env: Dict[str, int] = {}
    res: List[Flow] = []

    def visit(st: ast.stmt) -> None:
        if isinstance(st, ast.Assign) and len(st.targets) == 1 and isinstance(st.targets[0], (ast.Tuple, ast.List)) and isinstance(st.value, ast.Name) and st.value.id == pc:
            elts = st.targets[0].elts
            if len(elts) == 3 and all(isinstance(x, ast.Name) for x in elts):
                for k, x in enumerate(elts):
                    if x.id in env:  # type: ignore[attr-defined]
                        env[x.id] = -1  # type: ignore[attr-defined]  # bound twice (`_`): unusable
                    else:
                        env[x.id] = k  # type: ignore[attr-defined]
                return
        if isinstance(st, ast.Return) and st.value is not None:
            v = st.value
            if isinstance(v, ast.Name) and v.id == pc:
                res.append((0, 1, 2))
                return
            if isinstance(v, ast.Tuple) and len(v.elts) == 3:
                out: List[Optional[int]] = []
                for x in v.elts:
                    if isinstance(x, ast.Constant) and x.value is None:
                        out.append(None)
                    elif isinstance(x, ast.Name) and env.get(x.id, -1) >= 0:
                        out.append(env[x.id])
                    else:
                        raise AnalysisError(f'{where}: unrecognised context component `{pf.nsrc(x)}`')
                res.append((out[0], out[1], out[2]))
                return
        raise AnalysisError(f'{where}: unrecognised statement `{pf.nsrc(st)[:80]}`')

    r = ic.exec_block(fn.body, atom, visit)
    if r is None or r[0] != 'return' or not res:
        raise AnalysisError(f'{where}: does not return a context')
    return res[-1]


def _ctx_switch_atom(val: Dict[str, bool], where: str):
    def atom(e: ast.AST) -> bool:
        if isinstance(e, ast.Call) and isinstance(e.func, ast.Attribute) and pf.nsrc(e.func.value) == 'self' and len(e.args) == 1 and not e.keywords:
            if e.func.attr in ('renderable_uses_agg_context', 'uses_agg_context'):
                return val['AC']
            if e.func.attr in ('renderable_uses_scan_context', 'uses_scan_context'):
                return val['SC']
        raise AnalysisError(f'{where}: unrecognised test `{pf.nsrc(e)}`')
    return atom


SWITCH_VALS = ({'AC': False, 'SC': False}, {'AC': True, 'SC': False}, {'AC': False, 'SC': True})  # both at once is excluded by R6


def _generic_flows(t: ic.Table) -> Dict[Tuple[bool, bool], Flow]:
    base = t.get('BaseIR')
    fn = base.methods.get(FLOW_METHOD)
    if fn is None:
        raise AnalysisError(f'anchor vanished: BaseIR.{FLOW_METHOD}')
    w = base.key(FLOW_METHOD)
    return {(v['AC'], v['SC']): _flow_of(w, fn, _ctx_switch_atom(v, w)) for v in SWITCH_VALS}


def _comp_binders(t: ic.Table) -> Dict[int, str]:
    """Context component -> kind of bindings BaseIR.renderable_child_context extends it with."""
    base = t.get('BaseIR')
    fn = base.methods.get('renderable_child_context')
    if fn is None:
        raise AnalysisError('anchor vanished: BaseIR.renderable_child_context')
    w = base.key('renderable_child_context')
    kinds: Dict[str, str] = {}
    comps: Dict[str, int] = {}
    out: Dict[int, str] = {}
    for st in pf.walk_shallow(fn):
        if isinstance(st, ast.Assign) and len(st.targets) == 1:
            tg, v = st.targets[0], st.value
            if isinstance(tg, ast.Name) and isinstance(v, ast.Call) and isinstance(v.func, ast.Attribute) and pf.nsrc(v.func.value) == 'self':
                a = v.func.attr[len('renderable_'):] if v.func.attr.startswith('renderable_') else v.func.attr
                if a in BINDER_API:
                    kinds[tg.id] = a
            if isinstance(tg, (ast.Tuple, ast.List)) and len(tg.elts) == 3 and all(isinstance(x, ast.Name) for x in tg.elts):
                for k, x in enumerate(tg.elts):
                    comps[x.id] = k  # type: ignore[attr-defined]
    rets = [n for n in pf.walk_shallow(fn) if isinstance(n, ast.Return) and isinstance(n.value, ast.Tuple)]
    if len(rets) != 1 or len(rets[0].value.elts) != 3:  # type: ignore[union-attr]
        raise AnalysisError(f'{w}: unrecognised body (expected one `return _env_bind(..), _env_bind(..), _env_bind(..)`)')
    for k, x in enumerate(rets[0].value.elts):  # type: ignore[union-attr]
        if not (isinstance(x, ast.Call) and pf.dotted(x.func) == '_env_bind' and len(x.args) == 2 and all(isinstance(a, ast.Name) for a in x.args)):
            raise AnalysisError(f'{w}: unrecognised context component `{pf.nsrc(x)}`')
        c, b = x.args[0].id, x.args[1].id  # type: ignore[attr-defined]
        if c not in comps or b not in kinds:
            raise AnalysisError(f'{w}: unrecognised context component `{pf.nsrc(x)}`')
        if comps[c] != k:
            out[k] = f'<component {COMP_NAMES[comps[c]]} moved to position {COMP_NAMES[k]}>'
        else:
            out[k] = kinds[b]
    return out


def check_env_bind(ctx: Ctx, t: ic.Table) -> None:
    """R12: the child context is the parent's context extended with ALL non-empty binding kinds, built without mutating the parent's
    dictionaries (they are shared with the siblings and with the frames above)."""
    base = t.get('BaseIR')
    m = base.mod
    fn = base.methods.get('renderable_child_context')
    if fn is None:
        raise AnalysisError('anchor vanished: BaseIR.renderable_child_context')
    w = base.key('renderable_child_context')
    kinds: Dict[str, str] = {}
    for st in pf.walk_shallow(fn):
        if isinstance(st, ast.Assign) and len(st.targets) == 1 and isinstance(st.targets[0], ast.Name) and isinstance(st.value, ast.Call) and isinstance(st.value.func, ast.Attribute):
            a = st.value.func.attr
            a = a[len('renderable_'):] if a.startswith('renderable_') else a
            if a in BINDER_API and pf.nsrc(st.value.func.value) == 'self':
                kinds[st.targets[0].id] = a
    if sorted(kinds.values()) != sorted(BINDER_API):
        raise AnalysisError(f'{w}: unrecognised body ({kinds})')
    problems: List[str] = []
    for val in ic.valuations(sorted(kinds)):
        if not any(val.values()):
            continue
        ret: List[ast.AST] = []

        def atom(e: ast.AST, val=val) -> bool:
            if isinstance(e, ast.Name) and e.id in val:
                return val[e.id]
            raise AnalysisError(f'{w}: unrecognised test `{pf.nsrc(e)}`')

        def visit(st: ast.stmt) -> None:
            if isinstance(st, ast.Return) and st.value is not None:
                ret.append(st.value)
            elif not isinstance(st, (ast.Assign, ast.AnnAssign, ast.Pass)):
                raise AnalysisError(f'{w}: unrecognised statement `{pf.nsrc(st)[:60]}`')
        ic.exec_block(fn.body, atom, visit)
        if len(ret) != 1:
            raise AnalysisError(f'{w}: no return on the path {val}')
        bound = {a.id for c in ast.walk(ret[0]) if isinstance(c, ast.Call) and pf.dotted(c.func) == '_env_bind' and len(c.args) == 2 for a in [c.args[1]] if isinstance(a, ast.Name)}
        lost = sorted(kinds[b] for b, v in val.items() if v and b not in bound)
        if lost:
            problems.append(f'when {", ".join(kinds[b] + "(i) is " + ("non-empty" if v else "empty") for b, v in sorted(val.items()))} the returned context does not contain the '
                            f'{"/".join(lost)}: the names are free in the child (free_* removes them only in the parent) but missing from its context - bind_depth cannot place them '
                            f'(KeyError) or finds an outer binder of the same name (row, global, agg_capability, __rng_state) and lifts the let above this node')
    ctx.check(not problems, 'R12', w + '::all binding kinds', problems[0] if problems else '', m.path, fn.lineno)
    # _env_bind must be persistent
    try:
        eb = m.func('_env_bind')
    except AnalysisError:
        raise AnalysisError(f'anchor vanished: {m.rel}::_env_bind')
    we = f'{m.rel}::_env_bind'
    if len(eb.args.args) != 2:
        raise AnalysisError(f'{we}: unrecognised signature')
    envp, bp = eb.args.args[0].arg, eb.args.args[1].arg
    problems = []
    for val in ic.valuations([envp, bp]):
        # value of a local: ('alias', param) or ('fresh', frozenset of params whose entries it holds, last writer)
        loc: Dict[str, Tuple] = {envp: ('alias', envp), bp: ('alias', bp)}
        out: List[Tuple] = []

        def ev(e: ast.AST) -> Tuple:
            if isinstance(e, ast.Name) and e.id in loc:
                return loc[e.id]
            if isinstance(e, ast.Call) and isinstance(e.func, ast.Attribute) and e.func.attr == 'copy' and not e.args:
                v = ev(e.func.value)
                return ('fresh', frozenset({v[1]}) if v[0] == 'alias' else v[1])
            if isinstance(e, ast.Call) and pf.dotted(e.func) == 'dict' and len(e.args) == 1 and not e.keywords:
                v = ev(e.args[0])
                return ('fresh', frozenset({v[1]}) if v[0] == 'alias' else v[1])
            if isinstance(e, ast.Dict) and all(k is None for k in e.keys):
                acc: Set[str] = set()
                for x in e.values:
                    v = ev(x)
                    acc |= {v[1]} if v[0] == 'alias' else set(v[1])
                return ('fresh', frozenset(acc))
            if isinstance(e, ast.BinOp) and isinstance(e.op, ast.BitOr):
                a, b = ev(e.left), ev(e.right)
                return ('fresh', frozenset(({a[1]} if a[0] == 'alias' else set(a[1])) | ({b[1]} if b[0] == 'alias' else set(b[1]))))
            raise AnalysisError(f'{we}: unrecognised expression `{pf.nsrc(e)}`')

        def atom2(e: ast.AST, val=val) -> bool:
            if isinstance(e, ast.Name) and e.id in val:
                return val[e.id]
            raise AnalysisError(f'{we}: unrecognised test `{pf.nsrc(e)}`')

        def visit2(st: ast.stmt) -> None:
            if isinstance(st, ast.Assign) and len(st.targets) == 1 and isinstance(st.targets[0], ast.Name):
                loc[st.targets[0].id] = ev(st.value)
                return
            if isinstance(st, ast.Return) and st.value is not None:
                out.append(ev(st.value))
                return
            mut = None
            if isinstance(st, ast.Expr) and isinstance(st.value, ast.Call) and isinstance(st.value.func, ast.Attribute) and st.value.func.attr == 'update' and len(st.value.args) == 1:
                mut = (st.value.func.value, st.value.args[0])
            elif isinstance(st, ast.AugAssign) and isinstance(st.op, ast.BitOr):
                mut = (st.target, st.value)
            if mut is not None and isinstance(mut[0], ast.Name) and mut[0].id in loc:
                tgt, src = loc[mut[0].id], ev(mut[1])
                srcs = {src[1]} if src[0] == 'alias' else set(src[1])
                if tgt[0] == 'alias':
                    if tgt[1] == envp:
                        problems.append(f'`{pf.nsrc(st)}` adds the bindings to the parent\'s context dictionary in place: the dictionary is shared with the sibling children and the '
                                        f'frames above, so a name bound for one child (agg_capability under an AggFilter, row/global under a nested table operation) keeps its inner '
                                        f'depth after the traversal has left that child, e.g. t.aggregate(hl.struct(a=hl.agg.filter(t.idx > 3, hl.agg.count()), b=hl.agg.count())): '
                                        f'the second Count computes a bind depth below its own frame (stack[bind_depth] is out of range or not one of its ancestors)')
                    else:
                        raise AnalysisError(f'{we}: mutates its bindings argument')
                    loc[mut[0].id] = tgt
                else:
                    loc[mut[0].id] = ('fresh', frozenset(set(tgt[1]) | srcs))
                return
            raise AnalysisError(f'{we}: unrecognised statement `{pf.nsrc(st)[:60]}`')
        r = ic.exec_block(eb.body, atom2, visit2)
        if r is None or r[0] != 'return' or not out:
            raise AnalysisError(f'{we}: no return on the path {val}')
        res = out[-1]
        have = {res[1]} if res[0] == 'alias' else set(res[1])
        need = ({envp} if val[envp] else set()) | ({bp} if val[bp] else set())
        if not need <= have and not problems:
            problems.append(f'with {envp} {"non-empty" if val[envp] else "empty"} and {bp} {"non-empty" if val[bp] else "empty"} the result holds the entries of {sorted(have)} only: '
                            + ('the enclosing binders are dropped from the child context' if envp in need - have else 'the new bindings are dropped from the child context'))
    ctx.check(not problems, 'R12', we, problems[0] if problems else '', m.path, eb.lineno)


class _Term:
    __slots__ = ('child', 'comp', 'sub', 'src')

    def __init__(self, child: str, comp: int, sub, src: str):
        self.child, self.comp, self.sub, self.src = child, comp, sub, src


def _free_terms(where: str, e: ast.AST, env: Dict[str, ast.AST], ivar: Optional[str], depth: int = 0) -> List[_Term]:
    """A set expression built from `<child>.free_*` [.difference(S) | - S], set(), union / | .  <child> is `self.children[<ivar>]`
    (label '*') or `self.<attr>` (label attr).  S is `self.<binder>(<ivar>, ..)[.keys()]` -> ('binder', kind) or a set literal -> ('names', tokens)."""
    props = [p for p, _, _ in FREE_PROPS]
    if depth > 6:
        raise AnalysisError(f'{where}: expression too deep')
    if isinstance(e, ast.Name) and e.id in env:
        return _free_terms(where, env[e.id], env, ivar, depth + 1)
    if isinstance(e, ast.Call) and pf.dotted(e.func) in ('set', 'frozenset') and not e.args:
        return []
    if isinstance(e, ast.Set) and e.elts and all(_is_cap(x) for x in e.elts):
        return [_Term('<agg_capability>', -1, None, pf.nsrc(e))]
    if isinstance(e, ast.BinOp) and isinstance(e.op, ast.BitOr):
        return _free_terms(where, e.left, env, ivar, depth + 1) + _free_terms(where, e.right, env, ivar, depth + 1)
    if isinstance(e, ast.Call) and isinstance(e.func, ast.Attribute) and e.func.attr == 'union' and not e.keywords:
        out = _free_terms(where, e.func.value, env, ivar, depth + 1)
        for a in e.args:
            out += _free_terms(where, a, env, ivar, depth + 1)
        return out
    sub_e = None
    base = e
    if isinstance(e, ast.Call) and isinstance(e.func, ast.Attribute) and e.func.attr == 'difference' and len(e.args) == 1 and not e.keywords:
        base, sub_e = e.func.value, e.args[0]
    elif isinstance(e, ast.BinOp) and isinstance(e.op, ast.Sub):
        base, sub_e = e.left, e.right
    if sub_e is not None:
        inner = _free_terms(where, base, env, ivar, depth + 1)
        if len(inner) != 1 or inner[0].sub is not None:
            raise AnalysisError(f'{where}: unrecognised subtraction `{pf.nsrc(e)}`')
        inner[0].sub = _sub_of(where, sub_e, ivar)
        inner[0].src = pf.nsrc(e)
        return inner
    if isinstance(e, ast.Attribute) and e.attr in props:
        c = e.value
        if (ivar is not None and isinstance(c, ast.Subscript) and pf.dotted(c.value) == 'self.children' and isinstance(c.slice, ast.Name) and c.slice.id == ivar):
            return [_Term('*', props.index(e.attr), None, pf.nsrc(e))]
        a = ic._self_attr(c)
        if a is not None:
            return [_Term(a, props.index(e.attr), None, pf.nsrc(e))]
    raise AnalysisError(f'{where}: unrecognised free-variable expression `{pf.nsrc(e)}`')


def _sub_of(where: str, e: ast.AST, ivar: Optional[str]):
    x = e
    if isinstance(x, ast.Call) and isinstance(x.func, ast.Attribute) and x.func.attr == 'keys' and not x.args:
        x = x.func.value
    elif isinstance(x, ast.Call) and pf.dotted(x.func) in ('set', 'frozenset') and len(x.args) == 1:
        x = x.args[0]
    if (isinstance(x, ast.Call) and isinstance(x.func, ast.Attribute) and pf.nsrc(x.func.value) == 'self' and x.args
            and isinstance(x.args[0], ast.Name) and x.args[0].id == ivar):
        a = x.func.attr[len('renderable_'):] if x.func.attr.startswith('renderable_') else x.func.attr
        if a in BINDER_API:
            return ('binder', a)
    if isinstance(e, ast.Set):
        toks = set()
        for y in e.elts:
            if _is_cap(y):
                toks.add(ic.CAP)
            elif ic._self_attr(y) is not None:
                toks.add(f'A:{ic._self_attr(y)}')
            elif isinstance(y, ast.Constant) and isinstance(y.value, str):
                toks.add(f'S:{y.value}')
            else:
                raise AnalysisError(f'{where}: unrecognised name `{pf.nsrc(y)}` in a subtracted set')
        return ('names', frozenset(toks))
    raise AnalysisError(f'{where}: unrecognised subtracted set `{pf.nsrc(e)}`')


def _closure_terms(where: str, fn: ast.FunctionDef, val: Dict[str, bool]) -> List[_Term]:
    """vars_from_child(i) under a valuation of the context switches."""
    if len(fn.args.args) != 1:
        raise AnalysisError(f'{where}: unrecognised signature')
    ivar = fn.args.args[0].arg
    env: Dict[str, ast.AST] = {}
    out: List[List[_Term]] = []

    def visit(st: ast.stmt) -> None:
        if isinstance(st, (ast.Assert, ast.Pass)):
            return
        if isinstance(st, ast.Assign) and len(st.targets) == 1 and isinstance(st.targets[0], ast.Name):
            env[st.targets[0].id] = st.value
            return
        if isinstance(st, ast.Return) and st.value is not None:
            out.append(_free_terms(where, st.value, env, ivar))
            return
        raise AnalysisError(f'{where}: unrecognised statement `{pf.nsrc(st)[:80]}`')
    r = ic.exec_block(fn.body, _ctx_switch_atom(val, where), visit)
    if r is None or r[0] != 'return' or not out:
        raise AnalysisError(f'{where}: does not return a set')
    return out[-1]


def _prop_closure(where: str, fn: pf.FuncDef, field: str) -> ast.FunctionDef:
    run = _FreeRun(where, fn, field, {'N': True, 'L': False, 'U': False, 'E': False})
    run.run()
    if len(run.used_closures) != 1:
        raise AnalysisError(f'{where}: the per-child closure is not unique ({sorted(run.used_closures)})')
    return run.closures[next(iter(run.used_closures))]


WHY_TERM = ('a variable used by that child in that scope is missing from this node\'s free variables: the bind depth of this node and of every shared '
            'ancestor ignores the binder of that variable, and a second occurrence is let-bound above it (unbound / captured variable in the IR sent to the engine)')


def check_free_equations(ctx: Ctx, t: ic.Table) -> None:
    """R12: the free-variable equations are the adjoint of the child contexts: component k of a child's context that is taken from
    component P of the parent's context (renderable_child_context_without_bindings) and extended with the k-bindings
    (renderable_child_context) contributes  child.free_k - k-bindings(i)  to the parent's free_P - no more, no less."""
    flows = _generic_flows(t)
    binders = _comp_binders(t)
    base = t.get('BaseIR')
    ircls = t.get('IR')
    want_b = {0: 'bindings', 1: 'agg_bindings', 2: 'scan_bindings'}
    ctx.check(binders == want_b, 'R12', base.key('renderable_child_context') + '::component binders',
              f'the child context is extended with {binders}; the eval/agg/scan components must be extended with bindings/agg_bindings/scan_bindings '
              f'respectively (bind_depth looks free_vars up in component 0, free_agg_vars in 1, free_scan_vars in 2)', base.mod.path,
              base.methods['renderable_child_context'].lineno, detail=binders)
    closures: Dict[str, ast.FunctionDef] = {}
    # generic equations (class IR)
    for k, (prop, field, _) in enumerate(FREE_PROPS):
        fn = _ir_prop_fn(t, prop)
        cons = ircls.key(prop) + '::vars_from_child'
        clo = _prop_closure(ircls.key(prop), fn, field)
        closures[prop] = clo
        problems: List[str] = []
        for v in SWITCH_VALS:
            fl = flows[(v['AC'], v['SC'])]
            terms = _closure_terms(cons, clo, v)
            which = 'an aggregation-context child' if v['AC'] else 'a scan-context child' if v['SC'] else 'an ordinary child'
            exp = {j for j in range(3) if fl[j] == k}
            got = {}
            for tm in terms:
                if tm.child != '*' or tm.comp in got:
                    raise AnalysisError(f'{cons}: unrecognised term `{tm.src}`')
                got[tm.comp] = tm
            for j in sorted(exp):
                if j not in got:
                    problems.append(f'for {which} the {COMP_NAMES[j]} free variables of the child (child.{FREE_PROPS[j][0]}) are not included in {prop} although the '
                                    f'child\'s {COMP_NAMES[j]} context is this node\'s {COMP_NAMES[k]} context: {WHY_TERM}')
                elif got[j].sub != ('binder', binders.get(j)):
                    problems.append(f'for {which} `{got[j].src}` removes {got[j].sub[1] if got[j].sub else "nothing"} but the child\'s {COMP_NAMES[j]} context is extended with '
                                    f'{binders.get(j)}(i): ' + ('a name bound by this node for the child stays free (bind_depth looks it up in a context that does not have it)'
                                                                 if got[j].sub is None else 'the wrong names are removed'))
            for j, tm in got.items():
                if j in exp:
                    continue
                if fl[j] is None:
                    continue  # that component is unavailable to the child: its free set must be empty in a well-formed IR
                problems.append(f'for {which} `{tm.src}` is added to {prop}, but the child\'s {COMP_NAMES[j]} context is this node\'s {COMP_NAMES[fl[j]]} context: '  # type: ignore[index]
                                f'the variable is looked up in the wrong component of the context')
        if problems:
            ctx.bad('R12', cons, problems[0] + (f' (+{len(problems) - 1} more)' if len(problems) > 1 else ''), ircls.mod.path, clo.lineno)
        else:
            ctx.ok('R12', cons, {'flows': {f'agg={a},scan={s_}': list(f) for (a, s_), f in flows.items()}})

    # classes with their own child contexts / free-variable properties
    for cls in t.ir_classes():
        if not cls.is_a('IR'):
            continue
        own_flow = cls.resolve(FLOW_METHOD)
        own_props = {p: cls.resolve(p) for p, _, _ in FREE_PROPS}
        if (own_flow is None or own_flow[0].name == 'BaseIR') and all(r is None or r[0].name == 'IR' for r in own_props.values()):
            continue
        if cls.resolve('renderable_child_context')[0].name != 'BaseIR' or cls.resolve('child_context')[0].name != 'BaseIR':  # type: ignore[index]
            raise AnalysisError(f'{cls.key()}: overrides renderable_child_context itself (not modelled)')
        lays = ic.layouts(cls)
        if len(lays) != 1 or lays[0].n_fixed() is None or ic.renderable_index_map(cls, lays[0]) is not None:
            raise AnalysisError(f'{cls.key()}: custom free variables / child contexts on a variable child list (not modelled)')
        lay = lays[0]
        atoms = _all_atoms(cls, [FLOW_METHOD])
        for fl in _vals(atoms):
            pos_flow: Dict[ic.Pos, Flow] = {}
            label: Dict[ic.Pos, str] = {}
            for p, s in lay.positions():
                label[p] = s.name
                ac = _bool_method(t, cls, 'renderable_uses_agg_context', p, fl, lay)
                sc = _bool_method(t, cls, 'renderable_uses_scan_context', p, fl, lay)
                if own_flow is None or own_flow[0].name == 'BaseIR':
                    pos_flow[p] = flows[(ac, sc)]
                else:
                    w = own_flow[0].key(FLOW_METHOD)
                    ivar = own_flow[1].args.args[1].arg
                    scen = ic.Scenario(cls, p, dict(fl), lay)
                    for a in ic.collect_atoms(own_flow[1], ivar):
                        scen.flags.setdefault(a, False)
                    pos_flow[p] = _flow_of(w, own_flow[1], lambda e, scen=scen, ivar=ivar, w=w: ic.eval_test(scen, e, ivar, w))
            attr_pos = {}
            for p, s in lay.positions():
                for a in lay.attr_names(s):
                    attr_pos[a] = p
            for k, (prop, field, _) in enumerate(FREE_PROPS):
                owner, fn = own_props[prop]  # type: ignore[misc]
                found: Dict[Tuple[ic.Pos, int], Tuple[FrozenSet[str], str]] = {}
                if owner.name == 'IR':
                    for p, s in lay.positions():
                        ac = _bool_method(t, cls, 'renderable_uses_agg_context', p, fl, lay)
                        sc = _bool_method(t, cls, 'renderable_uses_scan_context', p, fl, lay)
                        for tm in _closure_terms(ircls.key(prop), closures[prop], {'AC': ac, 'SC': sc}):
                            keys = ic.binder_keys(t, cls, tm.sub[1], p, fl, lay) if tm.sub else frozenset()
                            found[(p, tm.comp)] = (keys, tm.src)
                    where = ircls.key(prop)
                    line, path = fn.lineno, owner.mod.path
                else:
                    where = owner.key(prop)
                    line, path = fn.lineno, owner.mod.path
                    env: Dict[str, ast.AST] = {}
                    rets: List[ast.AST] = []

                    def visit(st: ast.stmt) -> None:
                        if isinstance(st, ast.Assign) and len(st.targets) == 1 and isinstance(st.targets[0], ast.Name):
                            env[st.targets[0].id] = st.value
                        elif isinstance(st, ast.Return) and st.value is not None:
                            rets.append(st.value)
                        elif not isinstance(st, (ast.Assert, ast.Pass)):
                            raise AnalysisError(f'{where}: unrecognised statement `{pf.nsrc(st)[:80]}`')

                    def no_tests(e: ast.AST) -> bool:
                        raise AnalysisError(f'{where}: unrecognised test `{pf.nsrc(e)}`')
                    ic.exec_block(fn.body, no_tests, visit)
                    if len(rets) != 1:
                        raise AnalysisError(f'{where}: does not return a set')
                    own_terms = _free_terms(where, rets[0], env, None)
                    has_cap = any(tm.comp == -1 for tm in own_terms)
                    if prop == 'free_vars':
                        u = bool(_returns_true(cls, 'uses_agg_capability'))
                        ctx.check(has_cap == u or (has_cap and not u), 'R12', f'{cls.key(prop)}::agg_capability marker',
                                  f'{cls.name} overrides free_vars without adding BaseIR.agg_capability although uses_agg_capability() is True: the aggregation is not pinned '
                                  f'below the AggFilter/AggGroupBy/... that gives it meaning and is let-lifted out of it', path, line)
                    elif has_cap:
                        ctx.bad('R12', f'{cls.key(prop)}::agg_capability marker', f'{cls.name}.{prop} adds agg_capability, which is an eval-scope pseudo variable: '
                                f'bind_depth looks it up in the {COMP_NAMES[k]} context, where it is never bound', path, line)
                    for tm in own_terms:
                        if tm.comp == -1:
                            continue
                        if tm.child not in attr_pos:
                            raise AnalysisError(f'{where}: `{tm.src}`: self.{tm.child} is not a registered child')
                        if tm.sub is not None and tm.sub[0] != 'names':
                            raise AnalysisError(f'{where}: unrecognised subtraction in `{tm.src}`')
                        if (attr_pos[tm.child], tm.comp) in found:
                            raise AnalysisError(f'{where}: term `{tm.src}` appears twice')
                        found[(attr_pos[tm.child], tm.comp)] = (tm.sub[1] if tm.sub else frozenset(), tm.src)
                for p, _s in lay.positions():
                    for j in range(3):
                        cons = f'{cls.key(prop)}::{label[p]}.{FREE_PROPS[j][0]}'
                        src_comp = pos_flow[p][j]
                        if src_comp == k:
                            keys = ic.binder_keys(t, cls, binders[j], p, fl, lay)
                            if (p, j) not in found:
                                ctx.bad('R12', cons, f'{cls.name}.{prop} does not include {label[p]}.{FREE_PROPS[j][0]}' + (f' - {_fmt(keys)}' if keys else '') +
                                        f', although the {COMP_NAMES[j]} context of child `{label[p]}` is this node\'s {COMP_NAMES[k]} context '
                                        f'({(own_flow or (base, None))[0].name}.{FLOW_METHOD}): {WHY_TERM}', path, line)
                            elif found[(p, j)][0] != keys:
                                ctx.bad('R12', cons, f'{cls.name}.{prop}: `{found[(p, j)][1]}` removes {_fmt(found[(p, j)][0])} but the {COMP_NAMES[j]} context of child '
                                        f'`{label[p]}` is extended with {_fmt(keys)}: a bound name stays free or a free name is hidden from the bind-depth computation', path, line)
                            else:
                                ctx.ok('R12', cons, {'removes': sorted(keys)})
                        elif (p, j) in found and src_comp is not None:
                            ctx.bad('R12', cons, f'{cls.name}.{prop} includes `{found[(p, j)][1]}`, but the {COMP_NAMES[j]} context of child `{label[p]}` is this node\'s '
                                    f'{COMP_NAMES[src_comp]} context, not its {COMP_NAMES[k]} context: the variable is looked up in the wrong component', path, line)


# ---------------------------------------------------------------------------------------------------------------------------
# R10 / R13 / R14: the two renderer passes
# ---------------------------------------------------------------------------------------------------------------------------
A_CLS, P_CLS = 'CSEAnalysisPass', 'CSEPrintPass'
UID_FILE = 'hail/python/hail/utils/java.py'


class _Pass:
    """One renderer pass: its `__call__` with same-class / module-level helpers inlined, CFG, parent map, assignments."""

    def __init__(self, m: pf.Module, cls_name: str):
        self.cls_name = cls_name
        self.orig = m
        self.mod, self.inlined, self.skipped = ic.inline_all(m, cls_name, '__call__')
        self.fn = self.mod.func(f'{cls_name}.__call__')
        self.key = f'{m.rel}::{cls_name}.__call__'
        self.assign = pf.assignments(self.fn)
        self.cfg = pf.CFG(self.fn)
        self.conds = ic.path_conditions(self.fn)
        self.parent: Dict[int, ast.AST] = {}
        for par in ast.walk(self.fn):
            for ch in ast.iter_child_nodes(par):
                self.parent[id(ch)] = par
        self.selfname = self.fn.args.args[0].arg

    def stmt_of(self, node: ast.AST) -> ast.stmt:
        cur = node
        while not isinstance(cur, ast.stmt):
            cur = self.parent[id(cur)]
        return cur

    def node_of(self, st: ast.AST) -> pf.Node:
        ns = [n for n in self.cfg.nodes if n.ast is st]
        if len(ns) != 1:
            ns = self.cfg.node_of(st)
        if len(ns) != 1:
            raise AnalysisError(f'{self.key}: statement `{pf.nsrc(st)[:60]}` has {len(ns)} CFG nodes')
        return ns[0]

    def defs(self, name: str) -> List[ast.AST]:
        return self.assign.get(name, [])

    def lits(self, st: ast.stmt) -> List[Tuple[ast.AST, bool]]:
        out: List[Tuple[ast.AST, bool]] = []
        work = [x for test, pol in self.conds.get(id(st), []) for x in ic.literals(test, pol)]
        hops = 0
        while work:
            e, pol = work.pop(0)
            d = pf.single_def(self.fn, e.id) if isinstance(e, ast.Name) else None
            if d is not None and isinstance(d, (ast.BoolOp, ast.UnaryOp, ast.Compare, ast.Call, ast.Attribute)) and hops < 8:
                hops += 1
                work = ic.literals(d, pol) + work  # `ok = not (a or b)` ... `if ok:`
            else:
                out.append((e, pol))
        return out

    def reaching(self, st: ast.stmt, name: str) -> Optional[ast.AST]:
        """The value of the nearest assignment `name = ...` that structurally precedes `st` (previous siblings, then the
        enclosing statements' previous siblings); None if there is none or it is conditional."""
        cur: ast.AST = st
        while id(cur) in self.parent:
            par = self.parent[id(cur)]
            for fld in ('body', 'orelse', 'finalbody'):
                blk = getattr(par, fld, None)
                if isinstance(blk, list) and any(x is cur for x in blk):
                    i = next(k for k, x in enumerate(blk) if x is cur)
                    for prev in reversed(blk[:i]):
                        if isinstance(prev, ast.Assign) and len(prev.targets) == 1 and isinstance(prev.targets[0], ast.Name) and prev.targets[0].id == name:
                            return prev.value
                        if any(isinstance(n, ast.Name) and n.id == name and isinstance(n.ctx, ast.Store) for n in ast.walk(prev)):
                            return None
            if par is self.fn:
                break
            cur = par
        return None


def _namedtuple_fields(m: pf.Module, name: str) -> Optional[List[str]]:
    for n in ast.walk(m.tree):
        if (isinstance(n, ast.Assign) and len(n.targets) == 1 and isinstance(n.targets[0], ast.Name) and n.targets[0].id == name
                and isinstance(n.value, ast.Call) and pf.dotted(n.value.func) in ('namedtuple', 'collections.namedtuple') and len(n.value.args) == 2):
            spec = n.value.args[1]
            s = pf.const_str(spec)
            if s is not None:
                return s.replace(',', ' ').split()
            if isinstance(spec, (ast.List, ast.Tuple)) and all(pf.const_str(x) is not None for x in spec.elts):
                return [pf.const_str(x) for x in spec.elts]  # type: ignore[misc]
    return None


def _ctor_map(m: pf.Module, tuple_name: str, where: str) -> Tuple[Dict[str, ast.expr], ast.Call]:
    """field -> argument expression of the unique construction site of a namedtuple in the module."""
    fields = _namedtuple_fields(m, tuple_name)
    if fields is None:
        raise AnalysisError(f'{where}: namedtuple {tuple_name} not found')
    calls = [c for c in ast.walk(m.tree) if isinstance(c, ast.Call) and (pf.dotted(c.func) or '').split('.')[-1] == tuple_name]
    if len(calls) != 1:
        raise AnalysisError(f'{where}: expected exactly one construction site of {tuple_name}, found {len(calls)}')
    c = calls[0]
    if any(isinstance(a, ast.Starred) for a in c.args) or any(k.arg is None for k in c.keywords) or len(c.args) > len(fields):
        raise AnalysisError(f'{where}: unrecognised construction `{pf.nsrc(c)[:80]}`')
    out: Dict[str, ast.expr] = dict(zip(fields, c.args))
    for k in c.keywords:
        if k.arg not in fields or k.arg in out:
            raise AnalysisError(f'{where}: unrecognised keyword {k.arg} in `{pf.nsrc(c)[:80]}`')
        out[k.arg] = k.value  # type: ignore[index]
    return out, c


def _first_word(text: str) -> Optional[str]:
    t = text.lstrip()
    if not t.startswith('('):
        return None
    w = ''
    for ch in t[1:]:
        if ch.isalnum() or ch == '_':
            w += ch
        else:
            break
    return w or None


class _Emission:
    def __init__(self, node: ast.JoinedStr, word: str, parts: List, stmt: ast.stmt):
        self.node, self.word, self.parts, self.stmt = node, word, parts, stmt
        self.holes = [x for x in parts if not isinstance(x, str)]


def _emissions(t: ic.Table, ps: _Pass) -> List[_Emission]:
    """f-strings of the print pass that open an IR node: `(Let eval {name} `, `(AggLet {name} False `, `(Ref {name})`."""
    out = []
    for n in ast.walk(ps.fn):
        if not isinstance(n, ast.JoinedStr):
            continue
        parts: List = []
        for v in n.values:
            if isinstance(v, ast.Constant) and isinstance(v.value, str):
                parts.append(v.value)
            elif isinstance(v, ast.FormattedValue):
                if v.conversion != -1 or v.format_spec is not None:
                    raise AnalysisError(f'{ps.key}: formatted hole in `{pf.nsrc(n)}`')
                parts.append(v.value)
        if not parts or not isinstance(parts[0], str):
            continue
        w = _first_word(parts[0])
        if w is None or w not in t.classes:
            continue
        out.append(_Emission(n, w, parts, ps.stmt_of_expr(n) if hasattr(ps, 'stmt_of_expr') else ps.stmt_of(n)))
    return out


def _table_attr(ps: _Pass, e: ast.AST, tables: Set[str], depth: int = 0) -> Optional[Set[str]]:
    """The name-table attributes an expression may denote: `<x>.<T>` or a local all of whose definitions are None / `<x>.<T>`.
    None when it is not a name table; AnalysisError when it only sometimes is."""
    if isinstance(e, ast.Attribute) and e.attr in tables:
        return {e.attr}
    if isinstance(e, ast.Name) and depth < 3:
        got: Set[str] = set()
        other = False
        for d in ps.defs(e.id):
            if isinstance(d, ast.Constant) and d.value is None:
                continue
            r = _table_attr(ps, d, tables, depth + 1) if isinstance(d, ast.expr) else None
            if r is None:
                other = True
            else:
                got |= r
        if got and other:
            raise AnalysisError(f'{ps.key}: local `{e.id}` is only sometimes a table of lifted lets')
        return got or None
    return None


def _name_tables(ctx: Ctx, t: ic.Table, pa: _Pass, pp: _Pass) -> Tuple[Dict[str, str], List[_Emission], str]:
    """Dataflow from the binders the print pass emits back to the analysis-pass tables that hold their names.
    Returns ({print-pass table -> analysis-pass StackFrame attribute}, emissions, the local that carries the name)."""
    ems = [e for e in _emissions(t, pp) if e.word == 'Ref' or t.classes[e.word] in _binder_classes(t)]
    ctx.need(any(e.word != 'Ref' for e in ems), f'{pp.key}: no emitted let binder found')
    ptabs: Set[str] = set()
    carriers: Set[str] = set()
    for e in ems:
        if len(e.holes) != 1:
            raise AnalysisError(f'{pp.key}: `{pf.nsrc(e.node)}` has {len(e.holes)} holes (expected exactly the bound name)')
        h = e.holes[0]
        srcs = [h]
        if isinstance(h, ast.Name):
            carriers.add(h.id)
            srcs = pp.defs(h.id)
            ctx.need(srcs, f'{pp.key}: emitted name `{h.id}` is never assigned')
        for sx in srcs:
            if not (isinstance(sx, ast.Subscript) and isinstance(sx.value, ast.Attribute)):
                # a name made up by the print pass itself: recognise numbering by the size of a per-site container
                tp = _template(sx) if isinstance(sx, ast.expr) else None
                fields = _namedtuple_fields(pp.orig, 'BindingsStackFrame') or []
                site_len = [n for part in (tp or []) if not isinstance(part, str) for n in ast.walk(part)
                            if isinstance(n, ast.Call) and pf.dotted(n.func) == 'len' and len(n.args) == 1 and isinstance(n.args[0], ast.Attribute) and n.args[0].attr in fields]
                others = [part for part in (tp or []) if not isinstance(part, str) and not any(n in ast.walk(part) for n in site_len)]
                if tp is not None and site_len and not others:
                    ctx.bad('R10', f'{pp.key}::{pf.nsrc(e.node)}', f'the print pass names a lifted let `{pf.nsrc(sx)}`: numbered by the size of the binding site\'s own '
                            f'`{site_len[0].args[0].attr}`, so two nested binding sites both start at the first number and the inner let shadows the outer one (a Ref to the '  # type: ignore[attr-defined]
                            f'outer binding inside the inner scope reads the inner value)', pp.orig.path, e.node.lineno)
                raise AnalysisError(f'{pp.key}: emitted name comes from `{pf.nsrc(sx)[:60]}`, not from a table filled by the analysis pass')
            ptabs.add(sx.value.attr)
    if len(carriers) != 1:
        raise AnalysisError(f'{pp.key}: binder and reference names are carried by {sorted(carriers)} (expected one local)')
    m = pa.orig
    bsf, _ = _ctor_map(m, 'BindingsStackFrame', pp.key)
    bs, _ = _ctor_map(m, 'BindingSite', pa.key)
    out: Dict[str, str] = {}
    for tb, src in bsf.items():
        # every field of the print-pass frame that is filled, through the binding site, from a per-frame attribute of the analysis pass
        if isinstance(src, ast.Attribute) and src.attr in bs and isinstance(bs[src.attr], ast.Attribute) and pf.nsrc(bs[src.attr].value) == 'self':  # type: ignore[union-attr]
            out[tb] = bs[src.attr].attr  # type: ignore[union-attr]
    for tb in sorted(ptabs):
        if tb not in out:
            raise AnalysisError(f'{pp.key}: table `{tb}` is not a field of BindingsStackFrame filled from a StackFrame attribute of the analysis pass through BindingSite')
    return out, ems, next(iter(carriers))


def _frame_var(ps: _Pass, e: ast.AST, depth: int = 0) -> bool:
    """Is the expression one of the per-node stack frames (stack[...], x.make_child_frame(...), <Pass>.StackFrame(...))?"""
    if depth > 8:
        return False
    if isinstance(e, ast.Subscript):
        return _frame_list(ps, e.value, depth + 1)
    if isinstance(e, ast.Call) and isinstance(e.func, ast.Attribute) and e.func.attr in ('make_child_frame', 'StackFrame', 'make'):
        return True
    if isinstance(e, ast.Name):
        ds = ps.defs(e.id)
        return bool(ds) and all(isinstance(d, ast.expr) and _frame_var(ps, d, depth + 1) for d in ds)
    return False


def _frame_list(ps: _Pass, e: ast.AST, depth: int = 0) -> bool:
    if isinstance(e, ast.Name) and depth <= 8:
        ds = ps.defs(e.id)
        return bool(ds) and all(isinstance(d, (ast.List, ast.Tuple)) and d.elts and all(_frame_var(ps, x, depth + 1) for x in d.elts) for d in ds)
    return False


def _template(e: ast.AST) -> Optional[List]:
    """[str | hole expression] for an f-string, `'p' + str(x)`, or a constant."""
    if isinstance(e, ast.Constant) and isinstance(e.value, str):
        return [e.value]
    if isinstance(e, ast.JoinedStr):
        out: List = []
        for v in e.values:
            if isinstance(v, ast.Constant) and isinstance(v.value, str):
                out.append(v.value)
            elif isinstance(v, ast.FormattedValue) and v.conversion == -1 and v.format_spec is None:
                out.append(v.value)
            else:
                return None
        return out
    if isinstance(e, ast.BinOp) and isinstance(e.op, ast.Add):
        a, b = _template(e.left), _template(e.right)
        if a is not None and b is not None:
            return a + b
        return None
    if isinstance(e, ast.Call) and pf.dotted(e.func) in ('str', 'escape_id') and len(e.args) == 1 and not e.keywords:
        return [e]
    return None


class _Draw:
    """Classification of one hole of a generated name."""

    def __init__(self, kind: str, what: str, node: Optional[ast.stmt] = None, ref: Optional[str] = None, sub: FrozenSet[str] = frozenset()):
        self.kind, self.what, self.node, self.ref = kind, what, node, ref  # kind: const | site | counter
        self.sub = sub  # for site draws: {'index'} (position within one site / per-frame state) and / or {'depth'} (which site on the path)


def _classify_hole(ps: _Pass, tables: Set[str], e: ast.AST, at: ast.stmt, chain: List[ast.stmt], depth: int = 0) -> _Draw:
    w = ps.key
    if depth > 4:
        raise AnalysisError(f'{w}: name expression too deep')
    if isinstance(e, ast.Constant) and isinstance(e.value, (int, str)):
        return _Draw('const', repr(e.value))
    if isinstance(e, ast.Call) and pf.dotted(e.func) in ('str', 'int') and len(e.args) == 1:
        return _classify_hole(ps, tables, e.args[0], at, chain, depth + 1)
    if isinstance(e, ast.BinOp) and isinstance(e.op, (ast.Add, ast.Sub, ast.Mult)):
        a = _classify_hole(ps, tables, e.left, at, chain, depth + 1)
        b = _classify_hole(ps, tables, e.right, at, chain, depth + 1)
        if a.kind == 'const':
            a, b = b, a
        if b.kind == 'const':
            if a.kind == 'counter' and not isinstance(e.op, ast.Add):
                raise AnalysisError(f'{w}: counter used under `{pf.nsrc(e)}`')
            return a
        if a.kind == 'site' and b.kind == 'site':
            return _Draw('site', f'{a.what}, {b.what}', sub=a.sub | b.sub)
        raise AnalysisError(f'{w}: unrecognised name component `{pf.nsrc(e)}`')
    if isinstance(e, ast.Call) and pf.dotted(e.func) == 'len' and len(e.args) == 1 and not e.keywords:
        x = e.args[0]
        tb = _table_attr(ps, x, tables)
        if tb is not None:
            return _Draw('site', f'len() of the binding site\'s own table of lifted lets ({"/".join(sorted(tb))})', sub=frozenset({'index'}))
        if _frame_list(ps, x):
            return _Draw('site', f'the depth of the traversal stack (`{pf.nsrc(e)}`)', sub=frozenset({'depth'}))
        if isinstance(x, ast.Attribute) and _frame_var(ps, x.value):
            return _Draw('site', f'len() of a per-frame container (`{pf.nsrc(e)}`)', sub=frozenset({'index'}))
        raise AnalysisError(f'{w}: unrecognised name component `{pf.nsrc(e)}`')
    if isinstance(e, ast.Call) and pf.dotted(e.func) == 'next' and len(e.args) == 1 and not e.keywords and (pf.dotted(e.args[0]) or '').split('.')[0] == ps.selfname:
        return _Draw('counter', pf.dotted(e.args[0]) + '()', at, pf.dotted(e.args[0]))  # an iterator held by the pass: reading is incrementing
    if isinstance(e, ast.Call) and isinstance(e.func, ast.Attribute) and _frame_var(ps, e.func.value):
        return _Draw('site', f'a per-frame quantity (`{pf.nsrc(e)}`)', sub=frozenset({'depth' if 'depth' in e.func.attr else 'index'}))
    d = pf.dotted(e)
    if isinstance(e, ast.Attribute) and d is not None:
        root = d.split('.')[0]
        if root == ps.selfname:
            return _Draw('counter', d, at, d)
        if _frame_var(ps, ast.Name(id=root, ctx=ast.Load())):
            return _Draw('site', f'an attribute of a stack frame (`{d}`): one value per binding site / node, not per render',
                         sub=frozenset({'depth' if 'depth' in d.split('.')[-1] else 'index'}))
        raise AnalysisError(f'{w}: unrecognised name component `{d}`')
    if isinstance(e, ast.Name):
        ds = ps.defs(e.id)
        if any(isinstance(x, ast.AugAssign) for x in ds):
            return _Draw('counter', e.id, at, e.id)
        if len(ds) == 1 and isinstance(ds[0], ast.expr):
            st = ps.stmt_of(ds[0])
            chain.append(st)
            return _classify_hole(ps, tables, ds[0], st, chain, depth + 1)
        if ds and all(isinstance(x, ast.expr) for x in ds):
            kinds = [_classify_hole(ps, tables, x, ps.stmt_of(x), [], depth + 1) for x in ds]
            if all(k.kind == 'site' for k in kinds):
                return _Draw('site', kinds[0].what, sub=frozenset().union(*[k.sub for k in kinds]))
        raise AnalysisError(f'{w}: unrecognised name component `{e.id}`')
    raise AnalysisError(f'{w}: unrecognised name component `{pf.nsrc(e)}`')


def _int_const(e: ast.AST) -> Optional[int]:
    if isinstance(e, ast.Constant) and isinstance(e.value, int) and not isinstance(e.value, bool):
        return e.value
    if isinstance(e, ast.UnaryOp) and isinstance(e.op, ast.USub) and isinstance(e.operand, ast.Constant) and isinstance(e.operand.value, int):
        return -e.operand.value
    return None


def _counter_stores(scope: ast.AST, ref: str) -> List[Tuple[str, ast.stmt]]:
    """(kind, statement) for every store to the counter `ref` ('self.a' or a local name) in `scope`: init (constant), inc (+k, k>0), bad (anything else)."""
    out = []
    for st in ast.walk(scope):
        tgts: List[ast.AST] = []
        if isinstance(st, ast.Assign):
            tgts = list(st.targets)
        elif isinstance(st, (ast.AugAssign, ast.AnnAssign)):
            tgts = [st.target]
        elif isinstance(st, ast.Delete):
            tgts = list(st.targets)
        for tg in tgts:
            for x in ast.walk(tg):
                if isinstance(x, (ast.Name, ast.Attribute)) and pf.dotted(x) == ref and isinstance(getattr(x, 'ctx', None), (ast.Store, ast.Del)):
                    if isinstance(st, ast.AugAssign) and x is tg:
                        k = _int_const(st.value)
                        if isinstance(st.op, ast.Add) and k is not None and k > 0:
                            out.append(('inc', st))
                        elif isinstance(st.op, ast.Sub) and k is not None and k < 0:
                            out.append(('inc', st))
                        elif k is not None:
                            out.append(('noinc', st))
                        else:
                            out.append(('bad', st))
                    elif isinstance(st, (ast.Assign, ast.AnnAssign)) and x is tg and st.value is not None:
                        v = st.value
                        if isinstance(scope, (ast.FunctionDef, ast.AsyncFunctionDef)):
                            v = pf.expand_locals(scope, v)
                        if _int_const(v) is not None:
                            out.append(('init', st))
                        elif isinstance(v, ast.Call) and pf.dotted(v.func) in ('itertools.count', 'count') and all(_int_const(a) is not None for a in v.args) and not v.keywords:
                            out.append(('init', st))
                        elif (isinstance(v, ast.BinOp) and isinstance(v.op, ast.Add) and ((pf.dotted(v.left) == ref and (_int_const(v.right) or 0) > 0)
                                                                                        or (pf.dotted(v.right) == ref and (_int_const(v.left) or 0) > 0))):
                            out.append(('inc', st))
                        else:
                            out.append(('bad', st))
                    else:
                        out.append(('bad', st))
    return out


def _uid_prefix() -> Tuple[str, str]:
    """Constant prefix of the identifiers Env.get_uid() hands out to user-visible binders."""
    m = pf.load(UID_FILE)
    fn = m.func('Env.get_uid')
    rets = [n for n in pf.walk_shallow(fn) if isinstance(n, ast.Return) and n.value is not None]
    pre = set()
    for r in rets:
        tp = _template(r.value)
        if tp is None or not tp or not isinstance(tp[0], str) or not tp[0]:
            raise AnalysisError(f'{UID_FILE}::Env.get_uid: unrecognised name template `{pf.nsrc(r.value)}`')
        pre.add(tp[0])
    if len(pre) != 1:
        raise AnalysisError(f'{UID_FILE}::Env.get_uid: no unique name prefix')
    return next(iter(pre)), f'{UID_FILE}::Env.get_uid'


def _fixed_names(t: ic.Table) -> Set[str]:
    """String-literal variable names bound by IR nodes ('row', 'global', 'va', ...)."""
    out: Set[str] = set()
    envs = ic.env_method_keys()
    for kind in envs.values():
        for keys, _dv, _k in kind.values():
            out |= set(keys)
    for cls in _binder_classes(t):
        for lay in ic.layouts(cls)[:1]:
            for p, _ in _positions(cls, lay, {}):
                for f in BINDER_API:
                    try:
                        toks = ic.binder_keys(t, cls, f, p, {DV: False}, lay)
                    except AnalysisError:
                        continue
                    out |= {k[2:] for k in toks if k.startswith('S:')}
    return out


def _fold_class_consts(m: pf.Module, cls: ast.ClassDef, selfname: str, tp: List) -> List:
    """Replace holes `self.X` / `cls.X` / `<Class>.X` of a name template by the string X is bound to in the class body, when that is the
    only binding of an attribute called X in the whole module (no instance / class store, no setattr) - a class-level constant."""
    out: List = []
    for part in tp:
        val: Optional[str] = None
        e = part
        if isinstance(e, ast.Call) and pf.dotted(e.func) == 'str' and len(e.args) == 1:
            e = e.args[0]
        if isinstance(e, ast.Attribute) and isinstance(e.value, ast.Name) and e.value.id in (selfname, 'cls', cls.name):
            binds = [st for st in cls.body if isinstance(st, (ast.Assign, ast.AnnAssign))
                     and any(isinstance(tg, ast.Name) and tg.id == e.attr for tg in (st.targets if isinstance(st, ast.Assign) else [st.target]))]
            stores = [n for n in ast.walk(m.tree) if isinstance(n, ast.Attribute) and n.attr == e.attr and isinstance(n.ctx, (ast.Store, ast.Del))]
            dyn = [n for n in ast.walk(m.tree) if isinstance(n, ast.Call) and pf.dotted(n.func) in ('setattr', 'delattr', 'object.__setattr__')]
            if len(binds) == 1 and not stores and not dyn and binds[0].value is not None:
                val = pf.const_str(binds[0].value)
        if val is None:
            out.append(part)
        elif out and isinstance(out[-1], str):
            out[-1] += val
        else:
            out.append(val)
    merged: List = []
    for part in out:
        if isinstance(part, str) and merged and isinstance(merged[-1], str):
            merged[-1] += part
        else:
            merged.append(part)
    return merged


def check_fresh_names(ctx: Ctx, t: ic.Table, pa: _Pass, pp: _Pass) -> Dict[str, str]:
    """R10: every name bound by an emitted Let / AggLet is drawn from a generator that is injective over the whole render."""
    plumbing, ems, carrier = _name_tables(ctx, t, pa, pp)
    tables = set(plumbing.values())
    m = pa.orig
    a_cls = m.cls(A_CLS)
    # every mutation of a name table inside the analysis pass
    writers: List[ast.Assign] = []
    for n in ast.walk(pa.fn):
        if isinstance(n, ast.Call) and isinstance(n.func, ast.Attribute) and n.func.attr in ('update', 'setdefault', 'pop', 'popitem', 'clear', '__setitem__'):
            if _table_attr(pa, n.func.value, tables):
                raise AnalysisError(f'{pa.key}: table of lifted lets mutated through `{pf.nsrc(n)[:60]}` (not modelled)')
        if isinstance(n, ast.Assign):
            for tg in n.targets:
                if isinstance(tg, ast.Subscript) and _table_attr(pa, tg.value, tables):
                    if len(n.targets) != 1:
                        raise AnalysisError(f'{pa.key}: chained assignment into a table of lifted lets')
                    writers.append(n)
    for sub in ast.walk(a_cls):
        if isinstance(sub, (ast.FunctionDef,)) and sub.name != '__call__':
            for n in ast.walk(sub):
                if isinstance(n, ast.Assign):
                    for tg in n.targets:
                        if isinstance(tg, ast.Subscript) and isinstance(tg.value, ast.Attribute) and tg.value.attr in tables:
                            if sub.name not in [h for h, _ in pa.inlined]:
                                raise AnalysisError(f'{m.rel}::{A_CLS}.{sub.name}: writes a table of lifted lets outside __call__ (not modelled)')
                        if isinstance(tg, ast.Attribute) and tg.attr in tables and not (isinstance(n.value, ast.Dict) and not n.value.keys):
                            raise AnalysisError(f'{m.rel}::{A_CLS}.{sub.name}: `{pf.nsrc(n)[:60]}`: table of lifted lets not initialised empty')
    ctx.need(writers, f'{pa.key}: no statement registers a name for a lifted let')
    if any(isinstance(c, ast.Call) and (pf.dotted(c.func) in (A_CLS, 'type(self)', 'self.__class__')) for c in ast.walk(a_cls)):
        raise AnalysisError(f'{m.rel}::{A_CLS}: the pass instantiates itself (per-recursion pass objects are not modelled)')
    uid_prefix, uid_where = _uid_prefix()
    fixed = _fixed_names(t)
    for wst in writers:
        cons = f'{pa.key}::{pf.nsrc(wst.targets[0])} = <name>'
        chain: List[ast.stmt] = [wst]
        val: ast.AST = wst.value
        hops = 0
        while isinstance(val, ast.Name) and hops < 4:
            ds = pa.defs(val.id)
            if len(ds) != 1 or not isinstance(ds[0], ast.expr):
                raise AnalysisError(f'{cons}: the name `{val.id}` has {len(ds)} definitions')
            st = pa.stmt_of(ds[0])
            chain.append(st)
            val = ds[0]
            hops += 1
        tp = _template(val)
        if tp is None:
            raise AnalysisError(f'{cons}: unrecognised name expression `{pf.nsrc(val)[:80]}`' + (f' (helpers not inlined: {pa.skipped})' if pa.skipped else ''))
        tp = _fold_class_consts(m, a_cls, pa.selfname, tp)
        at = chain[-1]
        draws: List[Tuple[ast.AST, _Draw]] = []
        sub_chains: List[List[ast.stmt]] = []
        for part in tp:
            if isinstance(part, str):
                continue
            ch: List[ast.stmt] = []
            draws.append((part, _classify_hole(pa, tables, part, at, ch)))
            sub_chains.append(ch)
        line = wst.lineno
        src = pf.nsrc(val)
        counters = [(h, d, ch) for (h, d), ch in zip(draws, sub_chains) if d.kind == 'counter']
        sites = [d for _, d in draws if d.kind == 'site']
        if not counters:
            subs = frozenset().union(*[d.sub for d in sites]) if sites else frozenset()
            if subs == {'index', 'depth'}:
                raise AnalysisError(f'{cons}: name `{src}` combines a site depth with an index within the site (injectivity not decided)')
            what = sites[0].what if sites else 'no varying component at all'
            if 'index' not in subs:
                ctx.bad('R10', cons, f'the name of a lifted let is `{src}`: it varies only with {what}, so all lets lifted to one binding site get the same name: the second '
                        f'`(Let eval <name> ..)` shadows the first and every `(Ref <name>)` meant for the first shared sub-term reads the second, e.g. '
                        f'hl.struct(a=(x + 1) * (x + 1), b=(x + 2) * (x + 2)) renders b as a function of x + 2 only because both sums are bound under one name', m.path, line)
                continue
            ctx.bad('R10', cons, f'the name of a lifted let is `{src}`: it is numbered by {what}, not drawn from a counter shared by all binding sites of the render. '
                    f'Two nested binding sites therefore hand out the same name (both start at the first number): the inner `(Let eval {tp[0] if isinstance(tp[0], str) else ""}1 ..)` '
                    f'shadows the outer one and a `(Ref ..1)` to the outer binding placed inside the inner scope silently reads the inner value, e.g. '
                    f'hl.bind(lambda c: a.map(lambda x: (x + 1) * (x + 1) + (c * c + c * c)), 3): c*c is bound outside the StreamMap, x+1 inside, under the same name',
                    m.path, line)
            continue
        if len(counters) > 1 or sites:
            raise AnalysisError(f'{cons}: name `{src}` mixes several varying components (not modelled)')
        hole, draw, ch = counters[0]
        ref = draw.ref or ''
        # (iv) injective formatting with a reserved prefix
        if not (isinstance(tp[0], str) and tp[0] and tp.index(hole) == 1 and all(isinstance(x, str) for x in tp[2:])):
            raise AnalysisError(f'{cons}: unrecognised name template `{src}` (expected a constant prefix followed by the counter)')
        prefix = tp[0]
        problems: List[str] = []
        if prefix.startswith(uid_prefix) or uid_prefix.startswith(prefix):
            problems.append(f'generated names `{prefix}<n>` are not disjoint from the identifiers `{uid_prefix}<n>` that {uid_where} hands to user-visible binders (hl.bind, lambdas): '
                            f'a lifted let can shadow (or be shadowed by) a user binding of the same name')
        clash = sorted(x for x in fixed if x.startswith(prefix) and x[len(prefix):].isdigit())
        if clash:
            problems.append(f'generated names `{prefix}<n>` can equal the fixed variable name(s) {clash}')
        # (i)-(iii) the counter
        if '.' in ref:
            scope_stores = []
            for f in a_cls.body:
                if isinstance(f, ast.FunctionDef):
                    for kind, st in _counter_stores(f, ref):
                        scope_stores.append((f.name, kind, st))
            attr = ref.split('.')[-1]
            for n in ast.walk(m.tree):
                if isinstance(n, ast.Attribute) and n.attr == attr and isinstance(n.ctx, (ast.Store, ast.Del)) and pf.dotted(n) != ref:
                    raise AnalysisError(f'{cons}: `{pf.nsrc(n)}` may alias the counter {ref} (not modelled)')
            inits = [x for x in scope_stores if x[1] == 'init' and x[0] == '__init__']
            if not inits and not any(x[1] == 'init' for x in scope_stores):
                raise AnalysisError(f'{cons}: counter {ref} is never initialised in {A_CLS}')
            for fname, kind, st in scope_stores:
                if kind in ('bad',):
                    raise AnalysisError(f'{cons}: unrecognised store to the counter `{pf.nsrc(st)}`')
                if kind in ('init', 'noinc') and fname not in ('__init__', '__call__') and fname not in [h for h, _ in pa.inlined]:
                    raise AnalysisError(f'{cons}: counter {ref} is reset in {A_CLS}.{fname}, which is not inlined into __call__')
        stores = _counter_stores(pa.fn, ref)
        if any(k == 'bad' for k, _ in stores):
            raise AnalysisError(f'{cons}: unrecognised store to the counter {ref}')
        incs = [pa.node_of(st) for k, st in stores if k == 'inc']
        wnode = pa.node_of(wst)
        for k, st in stores:
            if k in ('init', 'noinc'):
                rn = pa.node_of(st)
                if pa.cfg.path_avoiding(wnode, lambda x, rn=rn: x is rn, lambda x: False) is not None:
                    problems.append(f'the counter {ref} is ' + ('reset' if k == 'init' else 'not advanced') + f' by `{pf.nsrc(st)}` while the traversal is still handing out names: '
                                    f'a later binding site re-draws a number that an enclosing site already used, and the inner let shadows the outer one')
        is_iter = draw.what.endswith('()')
        if is_iter:
            ok_iter = '.' in ref and all(k == 'init' and isinstance(getattr(st, 'value', None), ast.Call) for _f, k, st in scope_stores) and scope_stores
            if not ok_iter:
                raise AnalysisError(f'{cons}: `next({ref})`: {ref} is not initialised exactly with itertools.count(..)')
            incs = [pa.node_of(draw.node)] if draw.node is not None else [wnode]
        elif '.' in ref and any(k == 'init' and isinstance(getattr(st, 'value', None), ast.Call) for _f, k, st in scope_stores):
            raise AnalysisError(f'{cons}: {ref} is an iterator but is formatted into the name directly')
        if not incs:
            problems.append(f'the counter {ref} is never incremented in {A_CLS}.__call__: every lifted let gets the same name')
        else:
            full = chain + ch
            read = pa.node_of(draw.node) if draw.node is not None else wnode
            nodes = [pa.node_of(st) for st in full]
            # between two executions of the write there is an execution of each definition on the chain ...
            for a_, b_ in zip(nodes, nodes[1:]):
                if a_ is b_:
                    continue
                if pa.cfg.path_avoiding(a_, lambda x, a_=a_: x is a_, lambda x, b_=b_: x is b_) is not None:
                    problems.append(f'`{pf.nsrc(a_.ast)[:60]}` can run twice without `{pf.nsrc(b_.ast)[:60]}` running in between: the same name is registered for two lifted lets')
                    break
            else:
                # ... and between two reads of the counter there is an increment
                if not is_iter and pa.cfg.path_avoiding(read, lambda x: x is read, lambda x: any(x is i for i in incs)) is not None:
                    problems.append(f'the counter {ref} can be read twice (`{pf.nsrc(read.ast)[:60]}`) without being incremented in between: two lifted lets get the same name')
        if problems:
            ctx.bad('R10', cons, problems[0] + (f' (+{len(problems) - 1} more)' if len(problems) > 1 else ''), m.path, line)
        else:
            ctx.ok('R10', cons, {'template': f'{prefix}<{ref}>', 'user_uid_prefix': uid_prefix, 'inlined': pa.inlined, 'tables': plumbing})
    return plumbing


# ---------------------------------------------------------------------------------------------------------------------------
# R13 (let order): the lets lifted to one binding site are emitted in the order in which their bodies were completed
# ---------------------------------------------------------------------------------------------------------------------------

class _Ord:
    """Order of a sequence relative to the completion order of the lets of one binding site: kind 'C' (completion order), 'rev'
    (its reverse) or 'sorted' (re-ordered by a key; `node` is the sorted(..) call); `over` says what is iterated - the let bodies
    ('elems'), the keys of a dict of let bodies ('keys') or its (key, body) pairs ('items')."""

    def __init__(self, kind: str, over: str, node: Optional[ast.Call] = None, text: str = ''):
        self.kind, self.over, self.node, self.text = kind, over, node, text

    def flipped(self, text: str) -> '_Ord':
        if self.kind == 'sorted':
            return self
        return _Ord('rev' if self.kind == 'C' else 'C', self.over, None, text if self.kind == 'C' else '')


def _mentions(e: ast.AST, is_base) -> bool:
    return any(is_base(x) for x in ast.walk(e))


def _order_term(fn: pf.FuncDef, e: ast.AST, is_base, ckind: str, where: str, depth: int = 0) -> Optional[_Ord]:
    """The order in which `e` yields the contents of the container recognised by `is_base` (None: `e` is not derived from it).
    Order-preserving views (list / tuple / iter / copy / [:] / dict views), reversals and sorted(..) are recognised; any other
    expression over the container is declined."""
    if depth > 6:
        raise AnalysisError(f'{where}: expression over the let bodies too deep')
    if is_base(e):
        return _Ord('C', 'keys' if ckind == 'dict' else 'elems')
    if isinstance(e, ast.Name):
        ds = pf.assignments(fn).get(e.id, [])
        if len(ds) == 1 and isinstance(ds[0], ast.expr):
            return _order_term(fn, ds[0], is_base, ckind, where, depth + 1)
        if any(isinstance(d, ast.expr) and _mentions(d, is_base) for d in ds):
            raise AnalysisError(f'{where}: local `{e.id}` is only sometimes derived from the let bodies')
        return None
    if not _mentions(e, is_base):
        if any(isinstance(x, ast.Name) and _order_term(fn, x, is_base, ckind, where, depth + 1) is not None for x in ast.walk(e)):
            raise AnalysisError(f'{where}: unrecognised expression over the let bodies `{pf.nsrc(e)[:60]}`')
        return None
    if isinstance(e, ast.Call):
        d = pf.dotted(e.func) or ''
        if d in ('list', 'tuple', 'iter') and len(e.args) == 1 and not e.keywords:
            return _order_term(fn, e.args[0], is_base, ckind, where, depth + 1)
        if d == 'reversed' and len(e.args) == 1 and not e.keywords:
            inner = _order_term(fn, e.args[0], is_base, ckind, where, depth + 1)
            return inner.flipped(pf.nsrc(e)) if inner is not None else None
        if d == 'sorted' and len(e.args) == 1:
            inner = _order_term(fn, e.args[0], is_base, ckind, where, depth + 1)
            if inner is not None:
                return _Ord('sorted', inner.over, e, pf.nsrc(e))
        if isinstance(e.func, ast.Attribute) and not e.args and not e.keywords:
            inner = _order_term(fn, e.func.value, is_base, ckind, where, depth + 1)
            if inner is not None:
                if e.func.attr == 'copy':
                    return inner
                if e.func.attr in ('values', 'keys', 'items') and inner.over == 'keys':
                    return _Ord(inner.kind, {'values': 'elems', 'keys': 'keys', 'items': 'items'}[e.func.attr], inner.node, inner.text)
    if isinstance(e, ast.Subscript) and isinstance(e.slice, ast.Slice):
        inner = _order_term(fn, e.value, is_base, ckind, where, depth + 1)
        if inner is not None and inner.over != 'keys':
            lo, hi, step = e.slice.lower, e.slice.upper, e.slice.step
            if lo is None and hi is None and (step is None or _int_const(step) == 1):
                return inner
            if lo is None and hi is None and _int_const(step) == -1:
                return inner.flipped(pf.nsrc(e))
    raise AnalysisError(f'{where}: unrecognised expression over the let bodies `{pf.nsrc(e)[:60]}`')


def _emission_orders(fn: pf.FuncDef, is_base, ckind: str, where: str) -> List[Tuple[_Ord, ast.AST]]:
    """(order, statement) for every place in `fn` where the contents of the container are written out one after the other: a
    `for` loop whose body emits something computed from the loop variable, an index loop over range(len(container)), or
    `<out>.extend(chain.from_iterable(<container>))` / `<out>.extend(s for b in <container> for s in b)`.  In-place `.reverse()`
    of the container before that is a reversal; `.sort(..)` and every other use that is not len(..) is declined."""
    out: List[Tuple[_Ord, ast.AST]] = []
    flips: List[str] = []
    used: Set[int] = set()

    def emits(body: Sequence[ast.stmt], names: Set[str]) -> bool:
        for st in body:
            for n in ast.walk(st):
                if isinstance(n, ast.Call) and isinstance(n.func, ast.Attribute) and n.func.attr in ('extend', 'append', 'write') and any(pf.names_in(a) & names for a in n.args):
                    return True
                if isinstance(n, ast.AugAssign) and pf.names_in(n.value) & names:
                    return True
        return False

    def mark(e: ast.AST) -> None:
        used.update(id(x) for x in ast.walk(e))

    for st in pf.walk_shallow(fn):
        if id(st) in used:
            continue
        if isinstance(st, ast.For):
            tnames = {n.id for n in ast.walk(st.target) if isinstance(n, ast.Name)}
            it = st.iter
            rng = isinstance(it, ast.Call) and pf.dotted(it.func) == 'range' and len(it.args) == 1 and not it.keywords
            if rng:
                a0 = pf.expand_locals(fn, it.args[0])
                if isinstance(a0, ast.Call) and pf.dotted(a0.func) == 'len' and len(a0.args) == 1 and _order_term(fn, a0.args[0], is_base, ckind, where) is not None:
                    subs = [n for b in st.body for n in ast.walk(b) if isinstance(n, ast.Subscript) and _mentions(n.value, is_base) and pf.names_in(n.slice) & tnames]
                    if not subs:
                        mark(it)
                        continue  # only counts the lets (closing parentheses)
                    if ckind == 'dict':
                        raise AnalysisError(f'{where}: a dict of let bodies is indexed by position')
                    for sx in subs:
                        if not is_base(sx.value):
                            raise AnalysisError(f'{where}: unrecognised indexed access `{pf.nsrc(sx)[:60]}`')
                        if isinstance(sx.slice, ast.Name):
                            out.append((_Ord('C', 'elems'), st))
                        elif (isinstance(sx.slice, ast.UnaryOp) and isinstance(sx.slice.op, ast.Invert) and isinstance(sx.slice.operand, ast.Name)) \
                                or pf.nsrc(sx.slice).replace(' ', '') in {f'-{v}-1' for v in tnames} | {f'-1-{v}' for v in tnames} | {f'-({v}+1)' for v in tnames}:
                            out.append((_Ord('rev', 'elems', None, pf.nsrc(sx)), st))
                        else:
                            raise AnalysisError(f'{where}: unrecognised indexed access `{pf.nsrc(sx)[:60]}`')
                    mark(st)
                    continue
            wrapped = isinstance(it, ast.Call) and pf.dotted(it.func) == 'enumerate' and len(it.args) == 1 and not it.keywords
            term = _order_term(fn, it.args[0] if wrapped else it, is_base, ckind, where)  # type: ignore[attr-defined]
            if term is None:
                continue
            mark(it)
            if emits(st.body, tnames):
                out.append((term, st))
                for b in st.body:
                    mark(b)
            else:
                raise AnalysisError(f'{where}: loop over the let bodies `{pf.nsrc(st.iter)[:60]}` emits nothing recognisable')
        elif isinstance(st, ast.Call) and isinstance(st.func, ast.Attribute) and st.func.attr in ('extend', 'writelines') and len(st.args) == 1 and _mentions(st.args[0], is_base):
            a = st.args[0]
            src_e: Optional[ast.AST] = None
            if isinstance(a, ast.Call) and (pf.dotted(a.func) or '').endswith('chain.from_iterable') and len(a.args) == 1:
                src_e = a.args[0]
            elif isinstance(a, ast.Call) and (pf.dotted(a.func) or '').split('.')[-1] == 'chain' and len(a.args) == 1 and isinstance(a.args[0], ast.Starred):
                src_e = a.args[0].value
            elif isinstance(a, (ast.GeneratorExp, ast.ListComp)) and len(a.generators) == 2 and not any(g.ifs for g in a.generators) \
                    and isinstance(a.generators[0].target, ast.Name) and pf.nsrc(a.generators[1].iter) == a.generators[0].target.id and pf.nsrc(a.elt) == pf.nsrc(a.generators[1].target):
                src_e = a.generators[0].iter
            if src_e is None:
                raise AnalysisError(f'{where}: unrecognised emission `{pf.nsrc(st)[:70]}`')
            term = _order_term(fn, src_e, is_base, ckind, where)
            if term is None or term.over != 'elems':
                raise AnalysisError(f'{where}: unrecognised emission `{pf.nsrc(st)[:70]}`')
            out.append((term, st))
            mark(st)
        elif isinstance(st, ast.Call) and isinstance(st.func, ast.Attribute) and is_base(st.func.value) and st.func.attr in ('reverse', 'sort'):
            if st.func.attr == 'sort':
                raise AnalysisError(f'{where}: the let bodies are sorted in place by `{pf.nsrc(st)[:60]}` (key over rendered text: not modelled)')
            flips.append(pf.nsrc(st))
            mark(st)
    # every other use must be harmless (len(..), truth test)
    for n in pf.walk_shallow(fn):
        if is_base(n) and id(n) not in used:
            par_ok = False
            for p in pf.walk_shallow(fn):
                if isinstance(p, ast.Call) and pf.dotted(p.func) in ('len', 'bool') and any(a is n for a in p.args):
                    par_ok = True
                if isinstance(p, (ast.If, ast.While, ast.IfExp)) and p.test is n:
                    par_ok = True
                if isinstance(p, ast.UnaryOp) and isinstance(p.op, ast.Not) and p.operand is n:
                    par_ok = True
            if not par_ok:
                raise AnalysisError(f'{where}: the let bodies are used in a way that is not modelled (`{pf.nsrc(n)}` outside a recognised loop / len())')
    if len(flips) % 2:
        out = [(o.flipped(flips[0]), st) for o, st in out]
    return out


def _let_name_expr(pp: _Pass, pcls: ast.ClassDef, e: ast.AST, tables: Set[str], depth: int = 0) -> bool:
    """Is `e` the name of a lifted let: a local all of whose definitions read a table of lifted lets (`c.lifted_lets[id(child)]`), or a
    frame attribute that is only ever assigned such a local (or None)?"""
    if depth > 3:
        return False
    if isinstance(e, ast.Subscript) and isinstance(e.value, ast.Attribute) and e.value.attr in tables:
        return True
    if isinstance(e, ast.Name):
        ds = pp.defs(e.id)
        return bool(ds) and all(isinstance(d, ast.expr) and _let_name_expr(pp, pcls, d, tables, depth + 1) for d in ds)
    if isinstance(e, ast.Attribute):
        vals = []
        for fn_ in [pp.fn] + [f for f in ast.walk(pcls) if isinstance(f, ast.FunctionDef) and f.name != '__call__']:
            for st in ast.walk(fn_):
                if isinstance(st, (ast.Assign, ast.AnnAssign)) and st.value is not None:
                    tgs = st.targets if isinstance(st, ast.Assign) else [st.target]
                    if any(isinstance(tg, ast.Attribute) and tg.attr == e.attr for tg in tgs):
                        vals.append((fn_, st.value))
        real = [(f, v) for f, v in vals if not (isinstance(v, ast.Constant) and v.value is None)]
        return bool(real) and all(f is pp.fn and _let_name_expr(pp, pcls, v, tables, depth + 1) for f, v in real)
    return False


def _names_allocated_at_sighting(pa: _Pass) -> Optional[str]:
    """How the analysis pass hands out the names of lifted lets: if every statement that registers a name keys it by a node that
    was just fetched from its parent's child list (`child = node.children[i]` ... `lets[id(child)] = uid`), names are allocated when a
    node is SIGHTED from a parent (before / instead of traversing it), not when the node is completed.  Returns a description, or
    None when some name is registered for another node (allocation order not modelled)."""
    bs, _ = _ctor_map(pa.orig, 'BindingSite', pa.key)
    tables = {v.attr for v in bs.values() if isinstance(v, ast.Attribute) and pf.nsrc(v.value) == 'self'}
    writers = [n for n in ast.walk(pa.fn) if isinstance(n, ast.Assign) and len(n.targets) == 1 and isinstance(n.targets[0], ast.Subscript)
               and _table_attr(pa, n.targets[0].value, tables)]
    if not writers:
        return None
    descr = []
    for w in writers:
        k = w.targets[0].slice  # type: ignore[attr-defined]
        if not (isinstance(k, ast.Call) and pf.dotted(k.func) == 'id' and len(k.args) == 1 and isinstance(k.args[0], ast.Name)):
            return None
        ds = pa.defs(k.args[0].id)
        if not (len(ds) == 1 and isinstance(ds[0], ast.Subscript) and isinstance(ds[0].value, ast.Attribute) and ds[0].value.attr == 'children'):
            return None
        descr.append(f'`{pf.nsrc(w)}` with `{k.args[0].id} = {pf.nsrc(ds[0])}`')
    return '; '.join(descr)


ORDER_WHY = ('let bodies are completed in post-order, so a let may only refer to lets completed before it; emitted in another order, '
             '`(Let b (.. (Ref a) ..) (Let a ..` references a before it is bound')


def check_let_order(ctx: Ctx, t: ic.Table, pa: _Pass, pp: _Pass) -> None:
    """R13 (let order).  Three structural facts, each necessary for "every lifted binding is placed where all variables it uses are in scope":
      (a) a let body is put into the site's container when it is COMPLETE (no frame is pushed afterwards in the same step; the frame that
          owns the builder is popped), so the container is filled in completion order - not when the traversal of the lifted node starts;
      (b) it is put at the END of the container (append / insertion into an insertion-ordered dict under a fresh name);
      (c) the container is written out in that order: the composition of the expression passed at the call site and the loop of the
          emitting method is the identity - not a reversal, not a re-ordering by the NAMES (names are allocated when the analysis pass
          sights a node for the second time, which is not a dependency order)."""
    m = pp.orig
    cons = f'{m.rel}::{P_CLS}::let order'
    pcls = pp.mod.cls(P_CLS)
    bsf, _ = _ctor_map(m, 'BindingsStackFrame', pp.key)
    site_tables = {f for f, v in bsf.items() if isinstance(v, ast.Attribute) and f != 'depth' and f.endswith('lifted_lets')}
    empties: Dict[str, str] = {}
    for f, v in bsf.items():
        if isinstance(v, ast.List) and not v.elts:
            empties[f] = 'list'
        elif isinstance(v, ast.Dict) and not v.keys:
            empties[f] = 'dict'
        elif isinstance(v, ast.Call) and not v.args and not v.keywords and (pf.dotted(v.func) or '').split('.')[-1] in ('list', 'dict', 'OrderedDict', 'deque'):
            empties[f] = {'list': 'list', 'deque': 'deque'}.get((pf.dotted(v.func) or '').split('.')[-1], 'dict')
    nested = {f.name: f for c in pcls.body if isinstance(c, ast.ClassDef) for f in c.body if isinstance(f, ast.FunctionDef)}
    inlined_helpers = {h for h, _ in pp.inlined}

    # ---- (c) emission: which container is written out, and in which order --------------------------------------------------------
    found: Dict[str, List[Tuple[_Ord, ast.AST, str]]] = {}
    for F, ckind in empties.items():
        def is_field(e: ast.AST, F=F) -> bool:
            return isinstance(e, ast.Attribute) and e.attr == F and isinstance(e.ctx, ast.Load)
        res: List[Tuple[_Ord, ast.AST, str]] = []
        # written out by a method of a nested class that receives it as an argument
        handled: Set[int] = set()
        for c in ast.walk(pp.fn):
            if isinstance(c, ast.Call) and isinstance(c.func, ast.Attribute) and c.func.attr in nested and any(_mentions(pf.expand_locals(pp.fn, a), is_field) for a in list(c.args) + [k.value for k in c.keywords] if not isinstance(a, ast.Starred)):
                callee = nested[c.func.attr]
                static = 'staticmethod' in pf.decorator_names(callee)
                params = [a.arg for a in callee.args.args][0 if static else 1:]
                for i, a in enumerate(c.args):
                    handled.update(id(x) for x in ast.walk(a))
                    for nm in [x for x in ast.walk(a) if isinstance(x, ast.Name) and isinstance(x.ctx, ast.Load)]:
                        dd = pf.single_def(pp.fn, nm.id)  # the defining expression of a local that expand_locals folds into the argument
                        if dd is not None and isinstance(dd, ast.expr) and _mentions(dd, is_field):
                            handled.update(id(x) for x in ast.walk(dd))
                    if not isinstance(a, ast.Starred):
                        a = pf.expand_locals(pp.fn, a)
                    if not _mentions(a, is_field):
                        continue
                    if isinstance(a, ast.Starred) or i >= len(params):
                        raise AnalysisError(f'{cons}: cannot bind `{pf.nsrc(a)[:40]}` to a parameter of {callee.name}')
                    par = params[i]
                    site = _order_term(pp.fn, a, is_field, ckind, cons)
                    if site is None:
                        raise AnalysisError(f'{cons}: unrecognised argument `{pf.nsrc(a)[:60]}`')
                    handled.update(id(x) for x in ast.walk(a))
                    inner_kind = ckind if (site.kind != 'sorted' and site.over == ('keys' if ckind == 'dict' else 'elems') and isinstance(a, (ast.Attribute, ast.Name))) else 'list'
                    if any(isinstance(n, ast.Name) and n.id == par and isinstance(n.ctx, ast.Store) for n in ast.walk(callee)):
                        raise AnalysisError(f'{cons}: {callee.name} re-assigns its parameter `{par}`')
                    for o, st in _emission_orders(callee, lambda e, par=par: isinstance(e, ast.Name) and e.id == par and isinstance(e.ctx, ast.Load), inner_kind, f'{cons} ({callee.name})'):
                        if site.kind == 'sorted':
                            comp = _Ord('sorted', site.over if o.over == 'elems' else o.over, site.node, site.text) if o.kind != 'sorted' else o
                        elif site.kind == 'rev':
                            comp = o.flipped(site.text)
                            if site.over != ('keys' if ckind == 'dict' else 'elems') and o.over == 'elems':
                                comp.over = site.over
                        else:
                            comp = o if site.over in ('keys', 'elems') and isinstance(a, (ast.Attribute, ast.Name)) else _Ord(o.kind, site.over if o.over == 'elems' else o.over, o.node, o.text)
                        res.append((comp, st, f'{P_CLS}.StackFrame.{callee.name}' if callee.name in nested else callee.name))
                for k in c.keywords:
                    if _mentions(k.value, is_field):
                        raise AnalysisError(f'{cons}: let bodies passed by keyword to {callee.name} (not modelled)')
        # written out by the pass itself
        def is_field_here(e: ast.AST, F=F, handled=handled) -> bool:
            return isinstance(e, ast.Attribute) and e.attr == F and isinstance(e.ctx, ast.Load) and id(e) not in handled
        mutators = {id(n.func.value) for n in ast.walk(pp.fn) if isinstance(n, ast.Call) and isinstance(n.func, ast.Attribute) and is_field(n.func.value)
                    and n.func.attr in ('append', 'insert', 'appendleft', 'setdefault')}
        stores = {id(n.value) for n in ast.walk(pp.fn) if isinstance(n, ast.Subscript) and isinstance(n.ctx, (ast.Store, ast.Del)) and is_field(n.value)}
        try:
            for o, st in _emission_orders(pp.fn, lambda e: is_field_here(e) and id(e) not in mutators and id(e) not in stores, ckind, cons):
                res.append((o, st, f'{P_CLS}.__call__'))
        except AnalysisError:
            if res or any(True for _ in mutators):
                raise
        if res:
            found[F] = res
    if len(found) != 1:
        raise AnalysisError(f'{cons}: unrecognised let emission ({len(found)} containers of the binding site are written out)')
    F, emis = next(iter(found.items()))
    ckind = empties[F]

    def is_F(e: ast.AST) -> bool:
        return isinstance(e, ast.Attribute) and e.attr == F

    problems: List[str] = []
    # ---- (a) + (b) insertions ----------------------------------------------------------------------------------------------------
    n_ins = 0
    key_is_name = True
    in_call = {id(n) for n in ast.walk(pp.fn)}
    for fn_ in [f for f in ast.walk(pcls) if isinstance(f, ast.FunctionDef)]:
        if fn_.name in inlined_helpers:
            continue
        for n in ast.walk(fn_):
            ins: Optional[Tuple[ast.AST, Optional[ast.AST]]] = None  # (value, key)
            if isinstance(n, ast.Call) and isinstance(n.func, ast.Attribute) and is_F(n.func.value):
                meth = n.func.attr
                if meth == 'append' and len(n.args) == 1 and ckind in ('list', 'deque'):
                    ins = (n.args[0], None)
                elif (meth == 'insert' and len(n.args) == 2 and _int_const(n.args[0]) == 0) or (meth == 'appendleft' and len(n.args) == 1):
                    problems.append(f'`{pf.nsrc(n)[:60]}` puts a completed let in front of the lets completed before it')
                    n_ins += 1
                    continue
                elif meth in ('values', 'keys', 'items', 'copy', '__len__', 'get', '__iter__'):
                    continue
                elif meth in ('reverse', 'sort') and fn_ is not pp.fn:
                    raise AnalysisError(f'{cons}: `{pf.nsrc(n)[:60]}` outside {P_CLS}.__call__ (not modelled)')
                elif meth in ('reverse', 'sort'):
                    continue  # handled as part of the emission order
                else:
                    raise AnalysisError(f'{cons}: unrecognised mutation `{pf.nsrc(n)[:60]}`')
            elif isinstance(n, ast.Assign) and any(isinstance(tg, ast.Subscript) and is_F(tg.value) for tg in n.targets):
                if len(n.targets) != 1 or ckind != 'dict' or isinstance(n.targets[0].slice, ast.Slice):  # type: ignore[attr-defined]
                    raise AnalysisError(f'{cons}: unrecognised store `{pf.nsrc(n)[:60]}`')
                ins = (n.value, n.targets[0].slice)  # type: ignore[attr-defined]
            elif isinstance(n, (ast.AugAssign, ast.Delete, ast.AnnAssign)) and any(is_F(x) for x in ast.walk(n)):
                raise AnalysisError(f'{cons}: unrecognised mutation `{pf.nsrc(n)[:60]}`')
            elif isinstance(n, ast.Assign) and any(is_F(tg) for tg in n.targets):
                raise AnalysisError(f'{cons}: the container of let bodies is replaced by `{pf.nsrc(n)[:60]}`')
            if ins is None:
                continue
            n_ins += 1
            val, key = ins
            if id(n) not in in_call:
                raise AnalysisError(f'{cons}: let bodies are registered in {fn_.name}, which is not inlined into {P_CLS}.__call__')
            st = pp.stmt_of(n)
            if key is not None:
                if isinstance(key, ast.Constant):
                    raise AnalysisError(f'{cons}: let bodies stored under the constant key `{pf.nsrc(key)}`')
                key_is_name = key_is_name and _let_name_expr(pp, pcls, key, site_tables)
            # (a) complete when registered
            loop = st
            while id(loop) in pp.parent and not isinstance(loop, ast.While):
                loop = pp.parent[id(loop)]
            if not isinstance(loop, ast.While):
                raise AnalysisError(f'{cons}: `{pf.nsrc(st)[:60]}` is not inside the traversal loop')
            heads = [x for x in pp.cfg.nodes if x.ast is loop.test]
            if len(heads) != 1:
                raise AnalysisError(f'{cons}: traversal loop head not found in the CFG')
            head = heads[0]
            s_node = pp.node_of(st)

            def is_push(x: pf.Node) -> bool:
                return any(isinstance(c.func, ast.Attribute) and c.func.attr in ('append', 'extend') and isinstance(c.func.value, ast.Name) and _frame_list(pp, c.func.value)
                           for c in pf.node_calls(x))

            def is_pop(x: pf.Node) -> bool:
                return any(isinstance(c.func, ast.Attribute) and c.func.attr == 'pop' and isinstance(c.func.value, ast.Name) and _frame_list(pp, c.func.value) and not c.args
                           for c in pf.node_calls(x))

            pth = pp.cfg.path_avoiding(s_node, is_push, lambda x: x is head)
            if pth is not None:
                problems.append(f'`{pf.nsrc(st)[:70]}` registers the let body and then pushes a frame (`{pf.nsrc(pth[-1].ast)[:40]}`) in the same step: the body is registered when the '
                                f'traversal of the lifted node STARTS, so the lets of a site are ordered by first visit (pre-order) and the let of an outer shared node precedes the let of a shared '
                                f'node nested in it, e.g. x = a + 1; y = x * x; y + y renders (Let y (.. (Ref x) ..) (Let x ..')
                continue
            if isinstance(val, ast.Attribute) and isinstance(val.value, ast.Name) and _frame_var(pp, val.value):
                fdefs = pp.defs(val.value.id)
                top = all(isinstance(d, ast.Subscript) and _int_const(d.slice) == -1 for d in fdefs)
                popped = pp.cfg.path_avoiding(s_node, lambda x: x is head, is_pop) is None
                if not (top and popped):
                    raise AnalysisError(f'{cons}: `{pf.nsrc(st)[:60]}`: cannot show that the frame owning the builder is finished (top of the stack and popped in the same step)')
            elif isinstance(val, ast.Name):
                vd = pp.defs(val.id)
                if not (vd and all(isinstance(d, ast.List) for d in vd)):
                    raise AnalysisError(f'{cons}: `{pf.nsrc(st)[:60]}`: registered value is not a builder list built in the same step')
            else:
                raise AnalysisError(f'{cons}: `{pf.nsrc(st)[:60]}`: unrecognised registered value')
    if n_ins == 0:
        raise AnalysisError(f'{cons}: unrecognised let emission (nothing is ever put into `{F}`)')
    # ---- (c) verdict on the emission order ---------------------------------------------------------------------------------------
    line = emis[0][1].lineno if hasattr(emis[0][1], 'lineno') else pp.fn.lineno
    for o, st, where in emis:
        if o.kind == 'C':
            continue
        if o.kind == 'rev':
            problems.append(f'{where} emits the lets in the order `{o.text}`')
            continue
        call = o.node
        assert call is not None
        keyf = next((k.value for k in call.keywords if k.arg == 'key'), None)
        if any(k.arg not in ('key', 'reverse') for k in call.keywords):
            raise AnalysisError(f'{cons}: unrecognised `{pf.nsrc(call)[:60]}`')
        by_name = False
        if o.over == 'keys' and ckind == 'dict' and key_is_name:
            by_name = keyf is None or not any(is_F(x) for x in ast.walk(keyf))
            if keyf is not None and by_name:
                # the key function must depend on the name only: a lambda over its parameter, or a named function / method (not a bound method of the container)
                if isinstance(keyf, ast.Lambda):
                    free = {x.id for x in ast.walk(keyf.body) if isinstance(x, ast.Name)} - {a.arg for a in keyf.args.args}
                    by_name = not any(isinstance(x, ast.Name) and x.id in free and x.id not in ('int', 'len', 'str') and not x.id[:1].isupper() for x in ast.walk(keyf.body))
                elif isinstance(keyf, ast.Attribute) and isinstance(keyf.value, ast.Name) and not keyf.value.id[:1].isupper() and keyf.value.id not in ('self', 'cls'):
                    by_name = False
        elif o.over == 'items' and ckind == 'dict' and key_is_name:
            if keyf is None:
                by_name = True
            elif isinstance(keyf, ast.Lambda) and len(keyf.args.args) == 1:
                p = keyf.args.args[0].arg
                uses = [x for x in ast.walk(keyf.body) if isinstance(x, ast.Name) and x.id == p]
                subs = [x for x in ast.walk(keyf.body) if isinstance(x, ast.Subscript) and isinstance(x.value, ast.Name) and x.value.id == p and _int_const(x.slice) == 0]
                by_name = bool(uses) and len(uses) == len(subs)
            elif isinstance(keyf, ast.Call) and (pf.dotted(keyf.func) or '').split('.')[-1] == 'itemgetter' and len(keyf.args) == 1 and _int_const(keyf.args[0]) == 0:
                by_name = True
        if not by_name:
            raise AnalysisError(f'{cons}: {where} emits the lets in the order `{o.text[:70]}` (a re-ordering by something other than the let names: not modelled)')
        alloc = _names_allocated_at_sighting(pa)
        if alloc is None:
            raise AnalysisError(f'{cons}: {where} emits the lets ordered by name (`{o.text[:60]}`) and the order in which the analysis pass allocates names is not modelled')
        problems.append(f'{where} emits the lets ordered by their NAMES (`{o.text[:80]}`), not in completion order. Names are allocated by the analysis pass when a node is sighted from its '
                        f'parent ({alloc}: on the second sighting), not when it is completed, so name order is not a dependency order: for x = a + 1; y = x * 2; (y * y) - x the second sighting of y comes before the '
                        f'second sighting of x, y gets the smaller name and `(Let <y> (.. (Ref <x>) ..) (Let <x> ..` references <x> outside its binding (same for s1 = agg.sum(q); s1 + s1 + agg.max(q): '
                        f'the Let of the aggregation is placed outside the AggLet of its argument)')
    ctx.check(not problems, 'R13', cons, (problems[0] if problems else '') + (f' (+{len(problems) - 1} more)' if len(problems) > 1 else '') + ': ' + ORDER_WHY, m.path, line,
              detail={'container': F, 'kind': ckind, 'insertions': n_ins, 'emitted_by': sorted({w for _, _, w in emis})})


KINDS = ('value', 'agg', 'scan')


def _bind_depth_expr(ps: _Pass, e: ast.AST, at: ast.stmt) -> bool:
    """Is `e` the bind depth of the node under consideration: a local assigned from `<frame>.bind_depth()`, or `<c>.depth` where
    <c> is the bindings-stack frame selected by that depth (`c = bindings_stack[bind_depth]`; the frame's depth is its key)."""
    if isinstance(e, ast.Name):
        ds = ps.defs(e.id)
        return bool(ds) and all(isinstance(d, ast.Call) and isinstance(d.func, ast.Attribute) and d.func.attr == 'bind_depth' for d in ds)
    if isinstance(e, ast.Attribute) and e.attr == 'depth' and isinstance(e.value, ast.Name):
        ds = ps.defs(e.value.id)
        return bool(ds) and all(isinstance(d, ast.Subscript) and _bind_depth_expr(ps, d.slice, at) for d in ds)
    return False


def _canon(ps: _Pass, e: ast.AST, pol: bool, at: ast.stmt):
    """Canonical literal: ('CMP', op) bind depth <op> min_value_binding_depth; ('SCAN', b); ('IN', table, key, b);
    ('EFFECT', receiver, b); ('STREAM', receiver, b); ('TRUE',) for tautologies; ('?', text, b) otherwise."""
    flip = {'<': '>', '>': '<', '<=': '>=', '>=': '<=', '==': '==', '!=': '!='}
    neg = {'<': '>=', '>=': '<', '>': '<=', '<=': '>', '==': '!=', '!=': '=='}
    names = {ast.Lt: '<', ast.LtE: '<=', ast.Gt: '>', ast.GtE: '>=', ast.Eq: '==', ast.NotEq: '!='}
    if isinstance(e, ast.Compare) and len(e.ops) == 1:
        l, r, op = e.left, e.comparators[0], e.ops[0]
        lm = isinstance(l, ast.Attribute) and l.attr == 'min_value_binding_depth'
        rm = isinstance(r, ast.Attribute) and r.attr == 'min_value_binding_depth'
        if type(op) in names and ((rm and _bind_depth_expr(ps, l, at)) or (lm and _bind_depth_expr(ps, r, at))):
            o = names[type(op)]
            if lm:
                o = flip[o]
            return ('CMP', o if pol else neg[o])
        if isinstance(l, ast.Attribute) and l.attr == 'min_binding_depth' and _bind_depth_expr(ps, r, at) and isinstance(op, ast.LtE) and pol:
            return ('TRUE',)  # bind_depth() starts from min_binding_depth and only takes maxima
        if isinstance(op, (ast.In, ast.NotIn)) and isinstance(l, ast.Call) and pf.dotted(l.func) == 'id' and len(l.args) == 1:
            tb = r.attr if isinstance(r, ast.Attribute) else r.id if isinstance(r, ast.Name) else None
            if tb is not None:
                return ('IN', tb, pf.nsrc(l.args[0]), pol if isinstance(op, ast.In) else not pol)
    if isinstance(e, ast.Attribute) and e.attr == 'scan_scope':
        return ('SCAN', pol)
    if isinstance(e, ast.Call) and isinstance(e.func, ast.Attribute) and e.func.attr == 'is_effectful' and not e.args:
        return ('EFFECT', pf.nsrc(e.func.value), pol)
    if isinstance(e, ast.Attribute) and e.attr == 'is_stream':
        return ('STREAM', pf.nsrc(e.value), pol)
    return ('?', pf.nsrc(e), pol)


def _canon_lits(ps: _Pass, st: ast.stmt) -> List[Tuple]:
    return [_canon(ps, e, pol, st) for e, pol in ps.lits(st)]


REGION = {'value': frozenset({('=', False), ('=', True), ('>', False), ('>', True)}), 'agg': frozenset({('<', False)}), 'scan': frozenset({('<', True)})}


def _region(lits: Sequence[Tuple]) -> FrozenSet[Tuple[str, bool]]:
    """The cases (bind depth <,=,> min_value_binding_depth ; scan_scope) in which all comparison / scan literals hold."""
    holds = {'<': {'<': True, '=': False, '>': False}, '<=': {'<': True, '=': True, '>': False}, '>': {'<': False, '=': False, '>': True},
             '>=': {'<': False, '=': True, '>': True}, '==': {'<': False, '=': True, '>': False}, '!=': {'<': True, '=': False, '>': True}}
    out = set()
    for o in '<=>':
        for sc in (False, True):
            if all(holds[x[1]][o] for x in lits if x[0] == 'CMP') and all(x[1] == sc for x in lits if x[0] == 'SCAN'):
                out.add((o, sc))
    return frozenset(out)


def _kind(lits: Sequence[Tuple]) -> Optional[str]:
    """value / agg / scan when the path condition selects exactly that scope; 'odd:<cases>' when it compares the right quantities
    but selects another set of cases; None when it does not constrain them."""
    if not any(x[0] in ('CMP', 'SCAN') for x in lits):
        return None
    reg = _region(lits)
    for k, r in REGION.items():
        if reg == r:
            return k
    return 'odd:' + ', '.join(f'bind depth {o} min_value_binding_depth{" and scan_scope" if sc else " and not scan_scope"}' for o, sc in sorted(reg))


def _odd(ctx: Ctx, ps: _Pass, k: Optional[str], st: ast.stmt) -> bool:
    """Report a statement whose path condition selects a set of cases that is none of the three scopes."""
    if k is None:
        raise AnalysisError(f'{ps.key}: cannot classify the scope of `{pf.nsrc(st)}` from its path condition')
    if k.startswith('odd:'):
        ctx.bad('R13', f'{ps.key}::{pf.nsrc(st)[:70]}', f'`{pf.nsrc(st)}` runs exactly when [{k[4:] or "never"}], which is none of the three scopes the passes must agree on '
                f'(value: bind depth >= min_value_binding_depth; agg: below it and not scan_scope; scan: below it and scan_scope): a node in the remaining case is recorded, '
                f'looked up or emitted in the wrong scope (Let instead of AggLet or vice versa), or not recognised as shared', ps.orig.path, st.lineno)
        return True
    return False


WHY_KIND = {
    'value': 'a node whose bind depth is at or below the enclosing value scope is bound by a plain Let',
    'agg': 'a node bound above the enclosing aggregation scope (scan_scope False) must be bound by an AggLet in the aggregation scope',
    'scan': 'a node bound above the enclosing scan scope (scan_scope True) must be bound by an AggLet in the scan scope',
}


def _head_template(cls: ic.Cls) -> str:
    """head_str as text with `{attr}` holes."""
    r = cls.resolve_nonroot('head_str')
    if r is None:
        raise AnalysisError(f'{cls.key("head_str")}: not found')
    rets = [n for n in pf.walk_shallow(r[1]) if isinstance(n, ast.Return) and n.value is not None]
    if len(rets) != 1:
        raise AnalysisError(f'{cls.key("head_str")}: unrecognised body')
    tp = _template(rets[0].value)
    if tp is None:
        raise AnalysisError(f'{cls.key("head_str")}: unrecognised template')
    out = ''
    for x in tp:
        if isinstance(x, str):
            out += x
            continue
        while isinstance(x, ast.Call) and pf.dotted(x.func) in ('escape_id', 'str') and len(x.args) == 1:
            x = x.args[0]
        a = ic._self_attr(x)
        if a is None:
            raise AnalysisError(f'{cls.key("head_str")}: unrecognised hole `{pf.nsrc(x)}`')
        out += '{' + a + '}'
    return out


def check_lift_decisions(ctx: Ctx, t: ic.Table, pa: _Pass, pp: _Pass, plumbing: Dict[str, str]) -> None:
    """R13: marking, look-up (analysis pass) and emission (print pass) classify a node into value / agg / scan scope by the same
    test, use the matching visited set and table of lifted lets, and emit the matching binder.
    R14: only nodes that may be evaluated once-for-all are ever marked (not effectful, not streams); all tables are keyed by identity."""
    m = pa.orig
    tables = set(plumbing.values())
    n_before = sum(1 for f in ctx.findings if f.rule == 'R13')
    # ---- analysis pass: marks -------------------------------------------------------------------------------------------
    marks: Dict[str, Set[str]] = {}
    mark_stmts: List[Tuple[ast.stmt, ast.Call, List[Tuple]]] = []
    for n in ast.walk(pa.fn):
        if (isinstance(n, ast.Expr) and isinstance(n.value, ast.Call) and isinstance(n.value.func, ast.Attribute) and n.value.func.attr == 'add'
                and isinstance(n.value.func.value, ast.Attribute) and n.value.func.value.attr.endswith('visited')):
            lits = _canon_lits(pa, n)
            k = _kind(lits)
            mark_stmts.append((n, n.value, lits))
            if _odd(ctx, pa, k, n):
                continue
            marks.setdefault(k, set()).add(n.value.func.value.attr)  # type: ignore[arg-type]
    # ---- analysis pass: look-ups ------------------------------------------------------------------------------------------
    looks: Dict[str, Set[Tuple[str, str]]] = {}
    look_keys: Set[str] = set()
    for n in ast.walk(pa.fn):
        if isinstance(n, ast.Assign) and len(n.targets) == 1 and isinstance(n.targets[0], ast.Name) and isinstance(n.value, ast.Attribute) and n.value.attr in tables:
            lits = _canon_lits(pa, n)
            k = _kind(lits)
            ins = [x for x in lits if x[0] == 'IN' and x[3]]
            if len(ins) != 1:
                raise AnalysisError(f'{pa.key}: `{pf.nsrc(n)}` is not guarded by exactly one membership test')
            look_keys.add(ins[0][2])
            if _odd(ctx, pa, k, n):
                continue
            looks.setdefault(k, set()).add((ins[0][1], n.value.attr))  # type: ignore[arg-type]
    a_line = pa.fn.lineno
    n_odd = sum(1 for f in ctx.findings if f.rule == 'R13') - n_before
    for k in KINDS:
        cons = f'{pa.key}::{k} scope'
        if n_odd:
            break  # already reported at the statement that selects the wrong cases
        mk, lk = marks.get(k, set()), looks.get(k, set())
        if not mk or not lk:
            raise AnalysisError(f'{pa.key}: no {"marking" if not mk else "look-up"} statement recognised for the {k} scope')
        if len(mk) != 1 or len(lk) != 1:
            ctx.bad('R13', cons, f'nodes of the {k} scope are marked in {sorted(mk) or "no visited set"} and looked up in {sorted(lk) or "no (visited set, table) pair"}: '
                    f'{WHY_KIND[k]}; without exactly one visited set and one table for this scope a second occurrence is not recognised or is bound in another scope',
                    m.path, a_line)
            continue
        vset, (lset, ltab) = next(iter(mk)), next(iter(lk))
        if vset != lset:
            ctx.bad('R13', cons, f'a first occurrence in the {k} scope is recorded in `{vset}` but a later occurrence is looked up in `{lset}` (and lifted into `{ltab}`): '
                    f'{WHY_KIND[k]} - the node is either never shared or shared with an occurrence of another scope (the AggLet lands in the wrong scope)', m.path, a_line)
        else:
            ctx.ok('R13', cons, {'visited': vset, 'table': ltab})
    dup = [tb for tb in tables if sum(1 for k in KINDS for (_v, x) in looks.get(k, set()) if x == tb) > 1]
    ctx.check(not dup, 'R13', f'{pa.key}::one table per scope', f'the table(s) {dup} receive the lifted lets of more than one scope: the print pass cannot tell a Let from an AggLet',
              m.path, a_line)
    # ---- R14: guard of the marks, identity keys -----------------------------------------------------------------------------------
    for st, call, lits in mark_stmts:
        arg = call.args[0] if len(call.args) == 1 else None
        if not (isinstance(arg, ast.Call) and pf.dotted(arg.func) == 'id' and len(arg.args) == 1 and isinstance(arg.args[0], ast.Name)):
            continue  # reported by the key check below
        who = arg.args[0].id
        cons = f'{pa.key}::{pf.nsrc(call.func.value).split(".")[-1]}.add guard'  # type: ignore[attr-defined]
        eff = ('EFFECT', who, False) in lits
        stream = ('STREAM', who, False) in lits
        unknown = [x for x in lits if x[0] == '?']
        if eff and stream:
            ctx.ok('R14', cons, {'guard': 'not effectful, not a stream'})
        elif unknown and not (eff or stream):
            raise AnalysisError(f'{pa.key}: unrecognised guard {unknown} of `{pf.nsrc(st)}`')
        else:
            missing = ([] if eff else ['is_effectful()']) + ([] if stream else ['is_stream'])
            ctx.bad('R14', cons, f'`{pf.nsrc(st)}` is reached without `{who}` having been tested for {" / ".join(missing)}: '
                    + ('a shared effectful node (ConsoleLog, TableWrite, NDArrayWrite, Die ...) is let-bound and evaluated once instead of once per occurrence; '
                       if not eff else '')
                    + ('a shared stream-typed node is let-bound, but a stream can be consumed only once and cannot be the value of a Let; ' if not stream else '')
                    + 'the rendered IR no longer means what the inlined IR means', m.path, st.lineno)
        # the key is the node whose bind depth selected the frame
        idx = call.func.value.value  # type: ignore[attr-defined]
        if isinstance(idx, ast.Name):
            idx = pf.resolve_expr(pa.fn, idx)
        if isinstance(idx, ast.Subscript) and isinstance(idx.slice, ast.Name):
            bd = pa.reaching(st, idx.slice.id)
            nd = pa.reaching(st, who)
            if bd is None or nd is None:
                nds = [d for d in pa.defs(who) if isinstance(d, ast.expr)]
                nd = nds[0] if len(nds) == 1 else None
                if bd is None or nd is None:
                    raise AnalysisError(f'{pa.key}: cannot resolve `{idx.slice.id}` / `{who}` at `{pf.nsrc(st)}`')
            ok = (isinstance(bd, ast.Call) and isinstance(bd.func, ast.Attribute) and bd.func.attr == 'bind_depth' and isinstance(nd, ast.Attribute) and nd.attr == 'node'
                  and pf.nsrc(nd.value) == pf.nsrc(bd.func.value))
            ctx.check(ok, 'R14', f'{pa.key}::{pf.nsrc(call.func.value).split(".")[-1]}.add key',  # type: ignore[attr-defined]
                      f'`{pf.nsrc(st)}` records `{who}` = `{pf.nsrc(nd)}` under the bind depth `{pf.nsrc(bd)}`: the recorded node must be the node of the frame whose bind depth '
                      f'was computed, otherwise a different node is recognised as "seen before" at that depth', m.path, st.lineno)
    for ps in (pa, pp):
        vt = tables | set(plumbing) | {x for k in KINDS for x in marks.get(k, set())}
        keys: Dict[str, int] = {}
        for n in ast.walk(ps.fn):
            key = None
            if isinstance(n, ast.Subscript) and _table_attr(ps, n.value, vt):
                key = n.slice
            elif isinstance(n, ast.Compare) and len(n.ops) == 1 and isinstance(n.ops[0], (ast.In, ast.NotIn)) and _table_attr(ps, n.comparators[0], vt):
                key = n.left
            if key is not None:
                keys[pf.nsrc(key)] = keys.get(pf.nsrc(key), 0) + 1
        cons = f'{ps.key}::table keys'
        if not keys:
            raise AnalysisError(f'{cons}: no access to the tables of lifted lets found')
        if len(keys) == 1:
            ctx.ok('R14', cons, keys)
        else:
            major = max(keys, key=lambda x: keys[x])
            ctx.bad('R14', cons, f'the tables of lifted lets / visited sets are read under `{major}` ({keys[major]} places) but also under {sorted(set(keys) - {major})}: the name (or the '
                    f'"seen before" fact) of one node is applied to another node - a Ref to the wrong let, or a let that is referenced but never emitted', m.path, ps.fn.lineno)
    if len(look_keys) == 1:
        lk = next(iter(look_keys))
        wkeys = {pf.nsrc(n.targets[0].slice) for n in ast.walk(pa.fn) if isinstance(n, ast.Assign) and isinstance(n.targets[0], ast.Subscript) and _table_attr(pa, n.targets[0].value, tables)}
        ctx.check(wkeys == {f'id({lk})'}, 'R14', f'{pa.key}::lifted let key', f'a second occurrence of `{lk}` is recognised by id({lk}) but the name is registered under {sorted(wkeys)}: '
                  f'the print pass looks the name up under the id of the node it is about to render and finds another node\'s name (or none)', m.path, pa.fn.lineno)
    else:
        raise AnalysisError(f'{pa.key}: look-ups use several key variables {sorted(look_keys)}')

    # ---- print pass ---------------------------------------------------------------------------------------------------------------
    ems = [e for e in _emissions(t, pp) if e.word != 'Ref']
    label_var = None
    label_kind: Dict[str, str] = {}
    label_tab: Dict[str, str] = {}
    for n in ast.walk(pp.fn):
        if isinstance(n, ast.Assign) and len(n.targets) == 1 and isinstance(n.targets[0], ast.Name) and pf.const_str(n.value) is not None:
            lits = _canon_lits(pp, n)
            k = _kind(lits)
            ins = [x for x in lits if x[0] == 'IN' and x[3] and x[1] in plumbing]
            if k is None or len(ins) != 1:
                continue
            if _odd(ctx, pp, k, n):
                continue
            if label_var not in (None, n.targets[0].id):
                raise AnalysisError(f'{pp.key}: several scope label variables')
            label_var = n.targets[0].id
            lab = pf.const_str(n.value)
            if lab in label_kind and (label_kind[lab] != k or label_tab[lab] != ins[0][1]):
                raise AnalysisError(f'{pp.key}: label {lab!r} assigned under two different conditions')
            label_kind[lab] = k  # type: ignore[index]
            label_tab[lab] = ins[0][1]  # type: ignore[index]
    if label_var is None or len(label_kind) < 3:
        raise AnalysisError(f'{pp.key}: scope labels not recognised ({label_kind})')
    if sorted(label_kind.values()) != sorted(KINDS):
        ctx.bad('R13', f'{pp.key}::scope classification', f'the print pass distinguishes the scopes {label_kind} (expected one label for each of value / agg / scan, decided by '
                f'bind depth >= min_value_binding_depth and scan_scope exactly as in the analysis pass): a let registered by the analysis pass for the missing scope is '
                f'referenced but never emitted, or emitted as the wrong kind of binder', m.path, pp.fn.lineno)
        return

    def labels_at(st: ast.stmt) -> Set[str]:
        poss = set(label_kind)
        for e, pol in pp.lits(st):
            if (isinstance(e, ast.Compare) and len(e.ops) == 1 and isinstance(e.left, ast.Name) and e.left.id == label_var and isinstance(e.ops[0], (ast.Eq, ast.NotEq))
                    and pf.const_str(e.comparators[0]) is not None):
                eq = isinstance(e.ops[0], ast.Eq) == pol
                lab = pf.const_str(e.comparators[0])
                poss = {x for x in poss if (x == lab) == eq}
        return poss

    name_tab: Dict[str, Set[str]] = {}
    vis_tab: Dict[str, Set[str]] = {}
    for n in ast.walk(pp.fn):
        if isinstance(n, ast.Assign) and len(n.targets) == 1 and isinstance(n.targets[0], ast.Name):
            v = n.value
            if isinstance(v, ast.Subscript) and isinstance(v.value, ast.Attribute) and v.value.attr in plumbing:
                ls = labels_at(n)
                if len(ls) != 1:
                    raise AnalysisError(f'{pp.key}: `{pf.nsrc(n)}` is not under exactly one scope label')
                name_tab.setdefault(next(iter(ls)), set()).add(v.value.attr)
            elif isinstance(v, ast.Attribute) and v.attr.endswith('visited'):
                ls = labels_at(n)
                if len(ls) != 1:
                    raise AnalysisError(f'{pp.key}: `{pf.nsrc(n)}` is not under exactly one scope label')
                vis_tab.setdefault(next(iter(ls)), set()).add(v.attr)
    em_by: Dict[str, List[_Emission]] = {}
    for e in ems:
        ls = labels_at(e.stmt)
        if len(ls) != 1:
            raise AnalysisError(f'{pp.key}: `{pf.nsrc(e.node)}` is not under exactly one scope label')
        em_by.setdefault(next(iter(ls)), []).append(e)
    want_head = {'Let': _head_template(t.get('Let')), 'AggLet': _head_template(t.get('AggLet'))}
    for lab, k in sorted(label_kind.items(), key=lambda x: KINDS.index(x[1])):
        cons = f'{pp.key}::{k} scope'
        problems: List[str] = []
        nt = name_tab.get(lab, set())
        if nt != {label_tab[lab]}:
            problems.append(f'a node found in `{label_tab[lab]}` takes its name from {sorted(nt)}: the Ref / binder carries another let\'s name (or a KeyError)')
        elif len(looks.get(k, ())) == 1 and plumbing[label_tab[lab]] != next(iter(looks[k]))[1]:
            problems.append(f'the print pass reads the {k}-scope names from `{label_tab[lab]}`, which is filled from the analysis pass\'s `{plumbing[label_tab[lab]]}`, but the analysis pass '
                            f'registers {k}-scope lets in `{next(iter(looks[k]))[1]}`: lets are emitted in the wrong scope')
        es = em_by.get(lab, [])
        if len(es) != 1:
            problems.append(f'{len(es)} binder templates are emitted for this scope')
        else:
            e = es[0]
            want_cls = 'Let' if k == 'value' else 'AggLet'
            text = ''.join(x if isinstance(x, str) else '{name}' for x in e.parts)
            want = f'({want_cls} ' + want_head[want_cls].replace('{is_scan}', str(k == 'scan')) + ' '
            if text != want:
                problems.append(f'emits `{text}` for a lifted let of the {k} scope, expected `{want}` ({want_cls}.head_str; {WHY_KIND[k]})')
        if len(vis_tab.get(lab, set())) != 1:
            problems.append(f'uses the emitted-already sets {sorted(vis_tab.get(lab, set()))} for this scope (expected exactly one)')
        if problems:
            ctx.bad('R13', cons, problems[0] + (f' (+{len(problems) - 1} more)' if len(problems) > 1 else ''), m.path, (em_by.get(lab) or [ems[0]])[0].node.lineno)
        else:
            ctx.ok('R13', cons, {'label': lab, 'table': label_tab[lab], 'emits': ''.join(x if isinstance(x, str) else '{name}' for x in em_by[lab][0].parts)})
    allv = [next(iter(v)) for v in vis_tab.values() if len(v) == 1]
    ctx.check(len(set(allv)) == len(allv), 'R13', f'{pp.key}::one emitted-set per scope', f'two scopes share an emitted-already set {allv}: a node lifted in two scopes of the same '
              f'binding site is emitted only once and the other Ref is unbound', m.path, pp.fn.lineno)



# ---------------------------------------------------------------------------------------------------------------------------
# R15: blocks (children no let may be lifted out of)
# ---------------------------------------------------------------------------------------------------------------------------
LAZY_CHILDREN = {
    'If': (frozenset({1, 2}), 'only one of cnsq / altr is evaluated: a let lifted above the If evaluates a sub-term of the branch that is not taken (an out-of-bounds '
                              'index or division raises although the inlined IR does not; a Recur shared by both branches leaves tail position and the loop is rejected)'),
}


def check_new_block(ctx: Ctx, t: ic.Table) -> None:
    # (a) relational nodes: no value let crosses a Table / Matrix / BlockMatrix boundary
    for root in ('TableIR', 'MatrixIR', 'BlockMatrixIR'):
        rc = t.get(root)
        cons = rc.key('renderable_new_block')
        ctx.check(_returns_true(rc, 'renderable_new_block') is True, 'R15', cons,
                  f'{root}.renderable_new_block must be True for every child: a value let lifted above a relational node is evaluated outside the per-row / per-entry '
                  f'scope its variables (row, va, sa, g, ...) live in', rc.mod.path, rc.methods['renderable_new_block'].lineno if 'renderable_new_block' in rc.methods else rc.node.lineno)
        for cls in t.ir_classes():
            if cls.is_a(root):
                r = cls.resolve('renderable_new_block')
                if r is None or r[0].name != root:
                    raise AnalysisError(f'{cls.key("renderable_new_block")}: relational class overrides renderable_new_block (not modelled)')
    # (b) nodes that open an aggregation scope, (c) lazily evaluated children
    for cls in t.ir_classes():
        if not cls.is_a('IR'):
            continue
        opens = not bool(_returns_true(cls, 'uses_agg_capability'))
        lazy = LAZY_CHILDREN.get(cls.name)
        if cls not in _binder_classes(t) and lazy is None:
            continue
        atoms = _all_atoms(cls, ['renderable_new_block'])
        for lay in ic.layouts(cls)[:1]:
            verdict: Dict[str, Tuple[bool, bool, str]] = {}
            for fl in _vals(atoms):
                for p, label in (ic.renderable_positions(cls, lay) if ic.renderable_index_map(cls, lay) is not None else _positions(cls, lay, fl)):
                    binds_cap = ic.CAP in ic.binder_keys(t, cls, 'bindings', p, fl, lay)
                    must = (opens and binds_cap) or (lazy is not None and p[0] == 'c' and p[1] in lazy[0])
                    if not must:
                        continue
                    nb = _bool_method(t, cls, 'renderable_new_block', p, fl, lay)
                    old = verdict.get(label, (True, binds_cap, ''))
                    verdict[label] = (old[0] and nb, binds_cap, label)
            for label, (ok, cap, _l) in verdict.items():
                cons = f'{cls.key("renderable_new_block")}::{label}'
                d = cls.resolve('renderable_new_block')
                if opens and cap:
                    why = (f'{cls.name} opens an aggregation scope for child `{label}` (it binds agg_capability there and does not itself use an enclosing one): unless the child is a '
                           f'new block, a sub-term of an aggregator argument without free variables (min_binding_depth inherited from above) is lifted into an AggLet above '
                           f'{cls.name}, i.e. into an outer aggregation scope that may not exist')
                else:
                    why = lazy[1]  # type: ignore[index]
                ctx.check(ok, 'R15', cons, f'{cls.name}.renderable_new_block is False for child `{label}`: {why}', d[0].mod.path if d else cls.mod.path, d[1].lineno if d else cls.node.lineno)


def run(ctx: Ctx) -> None:
    ctx.explanation = ('Symbolic evaluation of every binder metadata method of the IR class table over all child positions x flag valuations, '
                       'then sibling comparison (bound_variables / head_str / bindings / context switches / agg_capability / renderer passes); path '
                       'evaluation of the free-variable properties and child contexts; dataflow / CFG analysis of the two renderer passes (name '
                       'freshness, scope classification, guards, depths).')
    ctx.rule('R1', 'value IR: bound_variables == names bound by renderable_(agg_|scan_)bindings, and includes super().bound_variables', 20)
    ctx.rule('R2', 'every name bound for a child is rendered by head_str', 40)
    ctx.rule('R3', 'bound names are rendered through escape_id (frozen exceptions: uid-only names)', 40)
    ctx.rule('R4', 'binder methods: every child index they test exists in the registered child list', 55)
    ctx.rule('R5', 'the child positions a node binds names for are the positions the engine binds names for (Binds.scala childEnv*)', 35)
    ctx.rule('R6', 'agg/scan context switches and agg/scan bindings are mirror images under is_scan', 9)
    ctx.rule('R7', 'nodes that evaluate children in the agg/scan context reference agg_capability', 8)
    ctx.rule('R8', 'renderer passes and BaseIR wrappers consume the metadata consistently; binder depths are frame depths', 16)
    ctx.rule('R9', 'index remapping and direct overrides of the child-index API are compatible with renderable_child_context', 4)
    ctx.rule('R10', 'names of lifted lets are drawn from one strictly increasing per-render counter under a reserved prefix', 1)
    ctx.rule('R11', 'IR.free_vars/free_agg_vars/free_scan_vars: every non-cached path yields the union over all children (+ agg_capability when uses_agg_capability()); caches only hold that', 8)
    ctx.rule('R12', 'free-variable equations are the adjoint of the child contexts (generic closures and classes with their own contexts); child contexts carry every binding kind and are persistent', 18)
    ctx.rule('R13', 'marking, look-up and emission classify value / agg / scan scope identically and use matching tables and binders; lets are emitted in completion order', 9)
    ctx.rule('R14', 'only non-effectful non-stream nodes are marked for lifting; each pass keys its tables by the node whose bind depth it computed', 9)
    ctx.rule('R15', 'children that must be blocks are blocks: relational nodes, aggregation-scope openers, lazily evaluated branches', 9)
    ctx.rule('R16', 'per child: the scope (eval / agg / scan) names are bound in and the context switch agree with the engine (Binds.scala Bindings / AggEnv)', 100)
    ctx.assume('binder names at the frozen raw-rendered sites are Env.get_uid() identifiers (construction sites listed in RAW_RENDERED)')
    ctx.assume('the Scala IR parser reads binder names in the order head_str emits them (argument order is not compared)')
    t = ic.load_table()
    ctx.unit('files', len(ic.MODULES))
    ctx.unit('ir_classes', len(t.ir_classes()))
    ctx.unit('binder_classes', len(_binder_classes(t)))
    # every group of rules runs even when an earlier one declines: a decline (exit 2) must not hide a violation another rule can establish
    declined: List[AnalysisError] = []

    def attempt(fn, *args):
        try:
            return fn(ctx, t, *args)
        except AnalysisError as e:
            declined.append(e)
            return None

    for chk in (check_bound_variables, check_head, check_binder_methods, check_typing_position, check_scala_positions, check_scala_scopes, check_context_switch,
                check_capability, check_wrappers, check_renderer, check_depths, check_child_context, check_free_props, check_free_equations, check_env_bind, check_new_block):
        attempt(chk)
    m = t.modules['renderer.py']
    try:
        pa, pp = _Pass(m, A_CLS), _Pass(m, P_CLS)
    except AnalysisError as e:
        declined.append(e)
    else:
        ctx.unit('renderer_helpers_inlined', len(pa.inlined) + len(pp.inlined))
        plumbing = attempt(check_fresh_names, pa, pp)
        attempt(check_let_order, pa, pp)
        if plumbing is not None:
            attempt(check_lift_decisions, pa, pp, plumbing)
    if ctx.tier == 'thorough':
        attempt(check_raw_sites)
        attempt(check_external_cache_writes)
    if declined:
        raise AnalysisError('; '.join(str(e) for e in declined[:3]) + (f' (+{len(declined) - 3} more)' if len(declined) > 3 else ''))
