"""C36 Front-end types agree with the IR it emits.

Four mechanisms by which the type the front end reports can differ from the type implied by the IR it sends, each decided from parsed
source only (python `ast`; a small tokenizer + parser for the Scala `typ` members, engines/typerules.py):

  R7  BINDER VARIABLES.  Wherever the expression front end creates a bound variable (`construct_variable(name, T)`, `construct_expr(ir.Ref(name, T),
      T)`, `ir.Ref(name, T)`) and emits an IR node that binds `name` (StreamFold/StreamScan zero, Let/AggLet value, StreamMap/Filter/FlatMap/Zip
      element, AggExplode, AggArrayPerElement, AggFold, ArraySort, NDArrayMap(2), StreamZipJoin(Producers), StreamAgg(Scan), TailLoop params), T must be
      the type of the value the node binds to that name AT THE EMISSION, on every path.  The binder metadata (which parameter names the variable,
      which child types it, in which children it is in scope) is extracted from renderable_bindings & co of the IR classes; the functions are
      analysed by a path-sensitive def-use interpreter (engines/typerules.Flow): `x = coerce(x)` is a new definition, so a variable typed from the
      old definition - and every callback result computed from it - must have been rebuilt after the re-assignment.  Calls into same-class /
      base-class methods (`_ir_lambda_method`), module helpers, closures and lambdas are followed, so a refactor into a helper is seen through.
  R9  a Ref built for a bound variable carries the same type as the expression wrapping it.
  R8  RELATIONAL TYPING RULES, PYTHON vs ENGINE.  `_compute_type` of every Table / Matrix IR node and the Scala `typ` of the same case class are
      translated into one normal form over ordered struct operations (concat, key-select, drop, rename, insert, per-component projections,
      `copy(key = ...)`) in which row_type is NOT interchangeable with key_type ++ value_type; every component (global, row, key, col, entry) of
      every node that both sides translate is compared, under every valuation of the node flags (`product`, `joinType`).  Untranslated
      components are listed in the evidence, never reported.  Python's deep type check re-runs the same rule, so only this comparison sees a
      front-end rule that drifted from the engine's.
  R10 the python struct primitives those rules are written with keep the field order the algebra (and TStruct.scala) assume: decided from the
      syntax tree of each helper as an order term (ordered union of fields(self) and fields(other), filter over self, iteration over the given
      names, order-preserving rename); no code is evaluated on sample values.
  R11 STATIC INDEX DOMAIN.  GetTupleElement(o, idx) is typed by python as `o.typ.types[idx]` (python subscription: negative idx wraps around) and by
      the engine through TTuple.fieldIndex (declared indices 0..n-1 only; rule read from InferType.scala).  Every construction site of such a node in the
      front end must be reached with idx >= 0 only: decided by a path-sensitive lower-bound analysis over linear forms in len(...) symbols (guards,
      `if i < 0: i += len(x)` normalisation, range / enumerate variables, constants, helper parameters at their call sites).
  R12 CHILDREN AGREE.  TableUnion / TableMultiWayZipJoin / MatrixUnionRows / MatrixUnionCols are typed from their first child on both sides, and the engine's
      TypeCheck demands that the children agree on rowType / key / globalType / entryType / ... (obligations READ from TypeCheck.scala), which python never
      checks.  Every emitting front-end function (Table.union, multi_way_zip_join, MatrixTable.union_rows / union_cols) is abstractly executed path by path
      over agreement facts: equality guards, any()/all()/len(set()) == 1 forms, re-assignment through table methods with known preserved components, and the
      `unify` rebuild (`L[i] = t.select(**F[i])`, with F filled uniformly from ONE unify_exprs result per field, checked for success).  A type-blind guard
      (names / lengths only) establishes nothing; a test or call that is not understood makes the path undecided (exit 2), never a violation.
  R5  REBUILD PATH.  `ir.subst` / `IR.map_ir` (MatrixTable.aggregate_rows) call `node.copy(*new_children)` on every node; copy must rebuild the
      same class (or a base class) and put its k-th argument back at child position k - armed only where the rebuilt node is actually constructed
      (if the constructor's own @typecheck_method is certain to reject the misplaced argument the instance is a diagnostic).

Diagnostics (INFO, never violations - see _Diag):
  R1-R3  environments / flag passed by `_compute_type` to each child (consulted only under deep_typecheck=True, which nothing in the repository
         enables), R4 ttable/tmatrix env methods, R6 copy arity / constructor signature mismatches (map_ir raises TypeError), children that
         `_compute_type` never types.
Does not decide: typing rules of value-IR nodes (return types; child-type demands of the engine such as Int32 indices or MakeArray element agreement),
BlockMatrix shape rules, multi-writers (MatrixMultiWrite: nothing is reported), relational binders of table.py (TableMapPartitions /
TableGen names), `_eq`, `_handle_randomness`, literal typing (C32), requiredness (not represented in python types).
"""
from __future__ import annotations

import ast
from typing import Dict, FrozenSet, List, Optional, Sequence, Set, Tuple

from engines import irclasses as ic
from engines import pyfacts as pf
from engines import typerules as tr
from engines.common import AnalysisError, Ctx

META = dict(
    category='other',
    text='Static comparison of what the front end reports with what it emits, on six fronts: (R11) static tuple indices stay in the engine\'s domain at every '
         'construction site; (R12) children of union-like nodes are made to agree (obligations read from TypeCheck.scala) on every path of every emitting function; (R7/R9) path-sensitive def-use analysis of every '
         'binder-emitting function of hail/expr: the type a bound variable is created with equals the type of the value the emitted IR binds to that name '
         '(binder metadata extracted from the IR classes); (R8/R10) the python _compute_type of every Table/Matrix IR node and the Scala typ of the same node '
         'are translated to one normal form over ordered struct operations and compared per component; (R5) the rebuild path map_ir/subst -> copy puts '
         'every child back in place. Necessary conditions; typing rules of value-IR nodes are not decided, hence "other".',
    note='Trusted: CPython ast; engines/irclasses.py, engines/typerules.py (own Scala subset parser, fail-closed: untranslated components are listed, never '
         'reported). Assumptions are printed in the evidence (fresh-name inserts, joinKey = key length, X._ir identified with X, element-type preserving '
         'conversions, ordered semantics of TStruct.scala primitives). Environment handling in _compute_type (R1-R4) and crashing copies (R6) are INFO only: '
         'they cannot make a reported type differ from the IR sent.',
    technique='static analysis: class table + binder metadata extraction + path-sensitive def-use interpretation with helper inlining; cross-language '
              'normal-form comparison of typing rules (python ast vs parsed Scala subset); constructor/copy signature binding',
    design_ref='DESIGN.md §3 C36',
)

ABSTRACT = {
    'BaseApplyAggOp': 'abstract base of ApplyAggOp / ApplyScanOp (context switches are defined by the subclasses); never constructed',
}
RELATIONAL = ('TableIR', 'MatrixIR', 'BlockMatrixIR')
BINDER_API = ('bindings', 'agg_bindings', 'scan_bindings')


class _Diag:
    """Diagnostics that are *not* armed as rules: they concern (a) environments, which IR.compute_type consults only when
    deep_typecheck=True (Ref/Recur._compute_type) - no caller in the repository, its tests or its configuration enables it - or
    (b) failures that make the front end raise before any IR is sent.  Neither can make a reported type differ from the type of
    the IR that is sent, so they are printed as INFO and counted, never reported as violations."""

    def __init__(self, ctx: Ctx):
        self.ctx = ctx
        self.checked: Dict[str, int] = {}
        self.flagged: List[str] = []

    def ok(self, rule: str, construct: str, detail=None, nontrivial: bool = True) -> None:
        self.checked[rule] = self.checked.get(rule, 0) + 1

    def bad(self, rule: str, construct: str, message: str, file: str = '', line: int = 0, extra=None) -> None:
        self.checked[rule] = self.checked.get(rule, 0) + 1
        self.flagged.append(f'{rule} {construct}')
        self.ctx.info(f'[diagnostic {rule}, not a violation] {construct}: {message}')

    def check(self, cond, rule: str, construct: str, message: str, file: str = '', line: int = 0, detail=None, extra=None) -> bool:
        (self.ok if cond else self.bad)(rule, construct, message if not cond else detail)
        return bool(cond)

    def finish(self, label: str) -> None:
        for r, n in sorted(self.checked.items()):
            self.ctx.unit(f'diagnostic_{label}_{r}', n)
        self.ctx.extra_cov.setdefault('diagnostics_flagged', []).extend(self.flagged)


def _fmt(tokens) -> str:
    return '{' + ', '.join(sorted(tokens)) + '}'


def _atoms(cls: ic.Cls) -> List[str]:
    return ic.flag_atoms(cls, list(BINDER_API))


def _required(t: ic.Table, cls: ic.Cls, pos, lay: ic.Layout) -> Tuple[FrozenSet[str], FrozenSet[str]]:
    ev: Set[str] = set()
    ag: Set[str] = set()
    for fl in ic.valuations(_atoms(cls)):
        ev |= ic.named(ic.binder_keys(t, cls, 'bindings', pos, fl, lay))
        ag |= ic.named(ic.binder_keys(t, cls, 'agg_bindings', pos, fl, lay))
        ag |= ic.named(ic.binder_keys(t, cls, 'scan_bindings', pos, fl, lay))
    return frozenset(ev), frozenset(ag)


def _cmp_env(got: FrozenSet[str], want: FrozenSet[str], envs) -> Tuple[Optional[str], bool]:
    """(problem, wider).  Caller-chosen names must agree exactly; implicit names (env methods / literals) must be within the bound set."""
    g_names = {x for x in got if x.startswith(('A:', 'EACH:'))}
    w_names = {x for x in want if x.startswith(('A:', 'EACH:'))}
    if g_names != w_names:
        return f'is typed with {_fmt(g_names)} in scope but the node binds {_fmt(w_names)} for it', False
    wider = False
    decided = False
    for kind, methods in envs.items():
        g = ic.expand_env([x for x in got if x.startswith(('S:', 'ENV:'))], methods)
        w = ic.expand_env([x for x in want if x.startswith(('S:', 'ENV:'))], methods)
        if g is None or w is None:
            continue
        decided = True
        if not g <= w:
            return f'is typed with the implicit names {_fmt(x[2:] for x in g)} in scope but the node binds only {_fmt(x[2:] for x in w)} for it', False
        wider = wider or g != w
    if not decided:
        raise AnalysisError(f'environment methods in {_fmt(got | want)} exist in neither ttable nor tmatrix')
    return None, wider


def _render_pos(cls: ic.Cls, call: ic.TypingCall):
    m = ic.renderable_index_map(cls, call.layout)
    if m is None:
        return call.pos
    if call.pos[0] != 'in' or call.pos[1] not in m:
        raise AnalysisError(f'{cls.key()}: cannot map child {call.recv} to a renderable index')
    return ('c', m[call.pos[1]])


def _switches(t: ic.Table, cls: ic.Cls, call: ic.TypingCall) -> bool:
    from rules.c35 import _bool_method  # same evaluator as C35-R6
    pos = _render_pos(cls, call)
    res = False
    for meth in ('renderable_uses_agg_context', 'renderable_uses_scan_context'):
        r = cls.resolve_nonroot(meth)
        if r is None:
            continue
        atoms = []
        for s in r[1].body:
            if isinstance(s, ast.Return) and s.value is not None:
                ic.collect_atoms_expr(s.value, r[1].args.args[1].arg, atoms)
        for fl in ic.valuations(atoms):
            res = res or _bool_method(t, cls, meth, pos, fl, call.layout)
    return res


def check_typing(ctx: Ctx, t: ic.Table, envs) -> None:
    d = _Diag(ctx)
    n_methods = 0
    for cls in t.ir_classes():
        tc = ic.typing_calls(t, cls)
        if tc is None:
            raise AnalysisError(f'{cls.key()}: no _compute_type through the MRO')
        owner, fn, calls = tc
        if owner is cls:
            n_methods += 1
        value_parent = cls.is_a('IR')
        # untyped children: information only
        typed = {c.seg.name for c in calls}
        for lay in ic.layouts(cls):
            for s in lay.segs:
                if s.name not in typed:
                    ctx.info(f'{cls.name}._compute_type never types child `{s.name}` (lazy .typ only; not deep-typechecked)')
                    typed.add(s.name)
        for call in calls:
            recv = call.recv
            cons = f'{cls.key("_compute_type")}::{recv}'
            line = call.node.lineno
            # R3 call shape
            probs = list(call.problems)
            if call.flag is not None and not (isinstance(call.flag, ast.Name) and call.flag.id == 'deep_typecheck'):
                probs.append(f'passes `{pf.nsrc(call.flag)}` where the deep_typecheck flag is expected')
            if probs:
                d.bad('R3', cons, f'`{pf.nsrc(call.node)}` {"; ".join(probs)}: the child is typed with a flag as its environment and the requested '
                        f'deep check is not propagated', owner.mod.path, line)
            else:
                d.ok('R3', cons, call.meth)
            if call.meth != 'compute_type':
                ctx.info(f'{cls.name}._compute_type calls {recv}.{call.meth}(...) directly (result not cached in the child; not a typing difference)')
            if call.env is None:
                continue
            # R1 environments
            if cls.name in ABSTRACT:
                d.ok('R1', cons, {'abstract': ABSTRACT[cls.name]}, nontrivial=False)
                continue
            want_ev, want_ag = _required(t, cls, call.pos, call.layout)
            p1, wider1 = _cmp_env(ic.named(call.env), want_ev, envs)
            p2, wider2 = _cmp_env(ic.named(call.agg or frozenset()), want_ag, envs)
            if p1:
                d.bad('R1', cons, f'child `{recv}` {p1} (evaluation scope; `{pf.nsrc(call.node.args[0])}`): with deep_typecheck=True a reference to a '
                        f'bound name fails `assert self.name in env`, or a name bound for another child is accepted', owner.mod.path, line)
            elif p2:
                d.bad('R1', cons + '::agg', f'child `{recv}` {p2} (aggregation/scan scope; `{pf.nsrc(call.node.args[1])}`): with deep_typecheck=True an '
                        f'aggregated reference to the bound name fails `assert self.name in env`', owner.mod.path, line)
            else:
                d.ok('R1', cons, {'eval': sorted(ic.named(call.env)), 'agg': sorted(ic.named(call.agg or frozenset()))})
                if wider1 or wider2:
                    ctx.info(f'{cls.name}: the renderer binds a wider implicit environment for `{recv}` than _compute_type types it under '
                             f'(typing {sorted(ic.named(call.env))}, bound {sorted(want_ev)})')
            # R2 context switch
            if value_parent:
                sw = _switches(t, cls, call)
                env_from_env = 'PARENT:env' in call.env
                env_from_agg = 'PARENT:agg_env' in call.env
                agg_none = call.agg == frozenset({'NONE'})
                if sw:
                    ok = not env_from_env and agg_none
                    msg = (f'child `{recv}` is evaluated in the aggregation/scan context (renderable_uses_*_context) but is typed as '
                           f'`{pf.nsrc(call.node)}`: it must be typed in agg_env with no aggregation environment, otherwise record fields are '
                           f'looked up in the wrong scope')
                else:
                    ok = not env_from_agg
                    msg = (f'child `{recv}` is not declared to use the aggregation/scan context but is typed in agg_env (`{pf.nsrc(call.node)}`): '
                           f'typing and rendering disagree on the scope of this child')
                d.check(ok, 'R2', cons, msg, owner.mod.path, line, detail={'switches': sw})
    ctx.unit('compute_type_methods', n_methods)
    d.finish('typing')
    # ABSTRACT table: really never constructed
    for name in ABSTRACT:
        for m in t.modules.values():
            for c in ast.walk(m.tree):
                if isinstance(c, ast.Call) and isinstance(c.func, ast.Name) and c.func.id == name:
                    raise AnalysisError(f'{name} is listed as abstract but is constructed at {m.rel}:{c.lineno}')


def check_env_methods(ctx: Ctx, envs) -> None:
    d = _Diag(ctx)
    for kind, methods in envs.items():
        for name, (k1, k2, cons) in methods.items():
            d.check(k1 == k2, 'R4', cons, f'{name}() returns keys {_fmt(k1)} with types but {_fmt(k2)} with default_value: the renderer (default_value) and '
                      f'the type checker see different implicit variables')
        order = [('global_env', 'row_env'), ('global_env', 'col_env'), ('row_env', 'entry_env'), ('col_env', 'entry_env')]
        for a, b in order:
            if a in methods and b in methods:
                d.check(methods[a][0] <= methods[b][0], 'R4', f'{methods[b][2]}::contains {a}', f'{b} keys {_fmt(methods[b][0])} do not contain {a} keys {_fmt(methods[a][0])}')

    d.finish('env')


# ---------------------------------------------------------------------------------------------------------------------------
# copy
# ---------------------------------------------------------------------------------------------------------------------------

def _ctor(t: ic.Table, cls: ic.Cls) -> pf.FuncDef:
    r = cls.resolve('__init__')
    if r is None:
        raise AnalysisError(f'{cls.key()}: no constructor')
    return r[1]


def _bind_call(fn: pf.FuncDef, call: ast.Call, where: str) -> Tuple[Dict[str, ast.expr], List[ast.expr], List[str]]:
    """Bind a constructor call to its signature.  Returns (param -> expr, exprs bound to *vararg, problems)."""
    a = fn.args
    pos_params = [x.arg for x in a.posonlyargs + a.args][1:]
    n_req = len(pos_params) - len(a.defaults)
    bound: Dict[str, ast.expr] = {}
    extra: List[ast.expr] = []
    problems: List[str] = []
    i = 0
    for arg in call.args:
        if isinstance(arg, ast.Starred):
            if a.vararg is None:
                raise AnalysisError(f'{where}: starred argument to a constructor without *args')
            extra.append(arg)
            i = len(pos_params)
            continue
        if i < len(pos_params):
            bound[pos_params[i]] = arg
            i += 1
        elif a.vararg is not None:
            extra.append(arg)
        else:
            problems.append(f'passes {len(call.args)} positional arguments but the constructor takes {len(pos_params)}')
            break
    kwonly = [x.arg for x in a.kwonlyargs]
    for kw in call.keywords:
        if kw.arg is None:
            raise AnalysisError(f'{where}: **kwargs in constructor call')
        if kw.arg in bound:
            problems.append(f'passes `{kw.arg}` twice')
        elif kw.arg in pos_params or kw.arg in kwonly or a.kwarg is not None:
            bound[kw.arg] = kw.value
        else:
            problems.append(f'passes unknown keyword `{kw.arg}`')
    for p in pos_params[:n_req]:
        if p not in bound:
            problems.append(f'does not supply the required parameter `{p}`')
    for p, d in zip(kwonly, a.kw_defaults):
        if d is None and p not in bound:
            problems.append(f'does not supply the required keyword-only parameter `{p}`')
    return bound, extra, problems


class View:
    """What part of copy's arguments an expression denotes."""

    def __init__(self, kind: str, arg=None):
        self.kind = kind  # param | all | first | rest | init | last | group | none
        self.arg = arg

    def __repr__(self) -> str:
        return f'{self.kind}:{self.arg}' if self.arg is not None else self.kind


def _views(fn: pf.FuncDef, where: str):
    params = [a.arg for a in fn.args.args[1:]]
    var = fn.args.vararg.arg if fn.args.vararg else None
    local: Dict[str, View] = {}
    lens: Dict[str, str] = {}  # local int name -> attribute whose len it holds

    def len_attr(e: ast.AST) -> Optional[str]:
        if isinstance(e, ast.Call) and pf.dotted(e.func) == 'len' and len(e.args) == 1:
            return ic._self_attr(e.args[0])
        if isinstance(e, ast.Name) and e.id in lens:
            return lens[e.id]
        return None

    def view(e: ast.AST) -> Optional[View]:
        if isinstance(e, ast.Starred):
            return view(e.value)
        if isinstance(e, ast.Name):
            if e.id in local:
                return local[e.id]
            if e.id in params:
                return View('param', params.index(e.id))
            if e.id == var:
                return View('all')
            return None
        if isinstance(e, ast.Subscript) and isinstance(e.value, ast.Name) and e.value.id == var:
            s = e.slice
            if isinstance(s, ast.Constant) and isinstance(s.value, int) and s.value >= 0:
                return View('index', s.value)
            if isinstance(s, ast.UnaryOp) and isinstance(s.op, ast.USub) and isinstance(s.operand, ast.Constant) and s.operand.value == 1:
                return View('last')
            if isinstance(s, ast.Slice) and s.step is None:
                lo, hi = s.lower, s.upper
                if lo is None and isinstance(hi, ast.UnaryOp) and isinstance(hi.op, ast.USub) and isinstance(hi.operand, ast.Constant) and hi.operand.value == 1:
                    return View('init')
                if hi is None and isinstance(lo, ast.Constant) and lo.value == 1:
                    return View('rest')
                if lo is None and hi is not None and len_attr(hi):
                    return View('group', len_attr(hi))
                if hi is None and isinstance(lo, ast.UnaryOp) and isinstance(lo.op, ast.USub) and len_attr(lo.operand):
                    return View('group', len_attr(lo.operand))
            raise AnalysisError(f'{where}: unrecognised slice of the copy arguments `{pf.nsrc(e)}`')
        if isinstance(e, (ast.ListComp, ast.GeneratorExp)) and len(e.generators) == 1:
            it = e.generators[0].iter
            if isinstance(it, ast.Call) and pf.dotted(it.func) == 'zip':
                vs = [view(x) for x in it.args]
                vs = [v for v in vs if v is not None]
                if len(vs) == 1:
                    return vs[0]
            return view(it)
        return None

    for st in pf.walk_shallow(fn):
        if isinstance(st, ast.Assign) and len(st.targets) == 1 and isinstance(st.targets[0], ast.Name):
            la = len_attr(st.value)
            if la:
                lens[st.targets[0].id] = la
    for st in fn.body:
        if isinstance(st, ast.Assign) and len(st.targets) == 1 and isinstance(st.targets[0], ast.Name):
            v = view(st.value)
            if v is not None:
                local[st.targets[0].id] = v
    return view, params, var


def _returned_calls(cls: ic.Cls, fn: pf.FuncDef, where: str) -> List[Tuple[str, ast.Call]]:
    """(class name, constructor call) for every return of copy."""
    out: List[Tuple[str, ast.Call]] = []
    assigns: Dict[str, List[ast.expr]] = {}
    for st in pf.walk_shallow(fn):
        if isinstance(st, ast.Assign) and len(st.targets) == 1 and isinstance(st.targets[0], ast.Name):
            assigns.setdefault(st.targets[0].id, []).append(st.value)

    def cls_of(f: ast.AST) -> Optional[str]:
        if isinstance(f, ast.Name):
            vals = assigns.get(f.id, [])
            if vals and pf.nsrc(vals[0]) == 'self.__class__':
                return cls.name
            if not vals:
                return f.id
        return None

    for st in pf.walk_shallow(fn):
        if isinstance(st, ast.Return):
            v = st.value
            if isinstance(v, ast.Name) and v.id in assigns:
                calls = [x for x in assigns[v.id] if isinstance(x, ast.Call)]
                if len(calls) != 1:
                    raise AnalysisError(f'{where}: unrecognised returned value `{pf.nsrc(v)}`')
                v = calls[0]
            if not isinstance(v, ast.Call):
                raise AnalysisError(f'{where}: copy returns `{pf.nsrc(v) if v is not None else None}` (not a constructor call)')
            name = cls_of(v.func)
            if name is None:
                raise AnalysisError(f'{where}: unrecognised constructor `{pf.nsrc(v.func)}`')
            out.append((name, v))
    if not out:
        raise AnalysisError(f'{where}: copy has no return')
    return out


def _child_kinds(t: ic.Table, cls: ic.Cls) -> Dict[str, str]:
    """constructor parameter -> declared kind from @typecheck_method(...) (IR / TableIR / MatrixIR / BlockMatrixIR), where declared."""
    out: Dict[str, str] = {}
    for c in cls.mro:
        if '__init__' in c.methods:
            for d in c.methods['__init__'].decorator_list:
                if isinstance(d, ast.Call) and pf.dotted(d.func) == 'typecheck_method':
                    for kw in d.keywords:
                        if kw.arg:
                            names = {n.id for n in ast.walk(kw.value) if isinstance(n, ast.Name)}
                            for k in RELATIONAL + ('IR',):
                                if k in names:
                                    out[kw.arg] = k
            break
    return out


KINDS = ('IR', 'TableIR', 'MatrixIR', 'BlockMatrixIR')


def _declared(fn: pf.FuncDef) -> Dict[str, Tuple[str, Set[str]]]:
    """parameter -> (shape, kinds) from @typecheck_method(...): shape 'scalar' for K / nullable(K), 'seq' for sequenceof(..)/tupleof(..)."""
    out: Dict[str, Tuple[str, Set[str]]] = {}
    for dec in fn.decorator_list:
        if isinstance(dec, ast.Call) and pf.dotted(dec.func) in ('typecheck_method', 'typecheck'):
            for kw in dec.keywords:
                if kw.arg is None:
                    continue
                v = kw.value
                kinds = {n.id for n in ast.walk(v) if isinstance(n, ast.Name) and n.id in KINDS}
                if isinstance(v, ast.Name):
                    shape = 'scalar'
                elif isinstance(v, ast.Call) and pf.dotted(v.func) == 'nullable' and len(v.args) == 1 and isinstance(v.args[0], ast.Name):
                    shape = 'scalar'
                elif isinstance(v, ast.Call) and pf.dotted(v.func) in ('sequenceof', 'tupleof'):
                    shape = 'seq'
                else:
                    shape = 'other'
                out[kw.arg] = (shape, kinds)
    return out


def _typecheck_rejects(t: ic.Table, cls: ic.Cls, dcls: ic.Cls, bound: Dict[str, ast.expr], view, lays: List[ic.Layout]) -> List[str]:
    """Reasons why the constructor call in copy is certain to be rejected by the constructor's @typecheck_method
    (sequence passed where a single node is declared or vice versa; a child of one IR family passed where another is declared)."""
    dctor = _ctor(t, dcls)
    decl = _declared(dctor)
    own = _declared(_ctor(t, cls))
    out: List[str] = []
    for prm, e in bound.items():
        if prm not in decl:
            continue
        shape, kinds = decl[prm]
        v = view(e)
        if isinstance(e, (ast.ListComp, ast.List, ast.Tuple, ast.GeneratorExp)) or (v is not None and v.kind in ('all', 'init', 'rest', 'group')):
            arg_shape = 'seq'
        elif v is not None and v.kind in ('param', 'index', 'last'):
            arg_shape = 'scalar'
        else:
            continue
        if kinds and shape in ('scalar', 'seq') and arg_shape != shape:
            out.append(f'{dcls.name}.__init__ declares `{prm}` as a {"single node" if shape == "scalar" else "sequence"} ({"/".join(sorted(kinds))}) but copy passes '
                       f'`{pf.nsrc(e)[:60]}`, a {"sequence" if arg_shape == "seq" else "single node"}: typecheck_method raises TypeError')
            continue
        # family of the child that is passed
        if v is not None and v.kind in ('param', 'index') and shape == 'scalar' and len(kinds) == 1:
            j = v.arg
            for lay in lays:
                if lay.n_fixed() is not None and j < len(lay.segs):
                    src = own.get(lay.segs[j].name)
                    if src and len(src[1]) == 1 and src[1] != kinds:
                        out.append(f'{cls.name} registers child #{j} as {next(iter(src[1]))} but {dcls.name}.__init__ declares `{prm}` as {next(iter(kinds))}: '
                                   f'typecheck_method raises TypeError')
    return out


def check_copy(ctx: Ctx, t: ic.Table) -> None:
    d = _Diag(ctx)
    for cls in t.ir_classes():
        if not cls.is_a('IR'):
            continue
        r = cls.resolve_nonroot('copy')
        if r is None:
            ctx.info(f'{cls.name} defines no copy (IR.map_ir raises NotImplementedError on it)')
            continue
        owner, fn = r
        where = owner.key('copy')
        cons = cls.key('copy')
        lays = ic.layouts(cls)
        view, params, var = _views(fn, where)
        n_def = len(fn.args.defaults)
        # ---- R6: arity ------------------------------------------------------------------------------------------
        problems: List[str] = []
        for lay in lays:
            n = lay.n_fixed()
            if n is None:
                if var is None:
                    problems.append(f'takes the fixed parameters ({", ".join(params)}) but the constructor registers the variable-length child list {lay}; '
                                    f'IR.map_ir calls self.copy(*new_children)')
            else:
                lo = len(params) - n_def
                n_max = n
                n_min = n - sum(1 for s in lay.segs if s.kind == 'opt')
                for k in range(n_min, n_max + 1):
                    if not (lo <= k and (var is not None or k <= len(params))):
                        problems.append(f'takes {"*" + var if var else "(" + ", ".join(params) + ")"} but the constructor can register {k} children {lay}; '
                                        f'IR.map_ir calls self.copy(*new_children) -> TypeError')
                        break
        rets = _returned_calls(cls, fn, where)
        bound_all = []
        for name, call in rets:
            if name not in t.classes:
                raise AnalysisError(f'{where}: returns an unknown class {name}')
            dcls = t.get(name)
            b, extra, probs = _bind_call(_ctor(t, dcls), call, where)
            problems += [f'`{pf.nsrc(call)[:90]}` {p} -> TypeError' for p in probs]
            bound_all.append((dcls, call, b, extra))
        if problems:
            d.bad('R6', cons, f'{cls.name}.copy ' + problems[0] + (f' (+{len(problems) - 1} more)' if len(problems) > 1 else '') +
                  ' [map_ir/subst raises before any IR is sent]', owner.mod.path, fn.lineno)
            continue  # placement (R5) is moot when copy cannot be executed with the registered children
        d.ok('R6', cons)
        # ---- R5: class and placement ------------------------------------------------------------------------------
        problems = []
        notes = []
        raises: List[str] = []
        for dcls, call, b, extra in bound_all:
            raises += _typecheck_rejects(t, cls, dcls, b, view, lays)
            if dcls is not cls and not (dcls in cls.mro and dcls.name not in ic.ROOTS):
                problems.append(f'returns a {dcls.name}, which is neither {cls.name} nor one of its base classes: the rebuilt node has a different type than the one reported')
                continue
            dlays = ic.layouts(dcls)
            kinds = _child_kinds(t, dcls)
            used: Set[int] = set()
            for dlay in dlays[:1]:
                positions = dlay.positions()
                segs = dlay.segs
                for idx, (pos, seg) in enumerate(positions):
                    e = b.get(seg.name)
                    if e is None and extra and seg.kind == 'star':
                        e = extra[0] if len(extra) == 1 else None
                    if e is None:
                        if seg.kind == 'opt':
                            continue
                        ctor_params = {a.arg for a in _ctor(t, dcls).args.args} | ({_ctor(t, dcls).args.vararg.arg} if _ctor(t, dcls).args.vararg else set())
                        if seg.name not in ctor_params:
                            notes.append(f'child `{seg.name}` of {dcls.name} is built inside its constructor')
                            continue
                        raise AnalysisError(f'{where}: child `{seg.name}` of {dcls.name} is not bound by `{pf.nsrc(call)[:80]}`')
                    v = view(e)
                    want: Optional[str]
                    if seg.kind == 'star':
                        if len(segs) == 1:
                            want = 'all'
                        elif idx == 0 and len(segs) == 2 and segs[1].kind != 'star':
                            want = 'init'
                        elif idx == len(segs) - 1 and len(segs) == 2 and segs[0].kind != 'star':
                            want = 'rest'
                        else:
                            want = 'group'
                    else:
                        want = None
                    if v is None:
                        if kinds.get(seg.name) in RELATIONAL:
                            notes.append(f'child `{seg.name}` ({kinds[seg.name]}) is rebuilt from `{pf.nsrc(e)}` rather than from the argument; map_ir never replaces relational children')
                            continue
                        problems.append(f'child `{seg.name}` of the rebuilt node is `{pf.nsrc(e)}`, not one of copy\'s arguments: the rewritten child that map_ir/subst '
                                        f'passes is dropped')
                        continue
                    if v.kind == 'param':
                        used.add(v.arg)
                        has_star = any(s.kind == 'star' for s in segs)
                        if seg.kind == 'star':
                            if not (len(segs) == 1 and len(params) == 1):
                                problems.append(f'the variable-length child group `{seg.name}` is rebuilt from the single parameter `{params[v.arg]}`')
                        elif has_star:
                            raise AnalysisError(f'{where}: fixed parameter used in a variable-length layout')
                        elif v.arg != idx:
                            problems.append(f'parameter #{v.arg} `{params[v.arg]}` is put back as child #{idx} `{seg.name}` (children are passed positionally by '
                                            f'map_ir): the rebuilt node has its children permuted')
                    else:
                        if seg.kind == 'star':
                            if want == 'group':
                                if not (v.kind == 'group' and v.arg in dlay.attrs.get(seg.name, set())):
                                    problems.append(f'child group `{seg.name}` is rebuilt from {v} of the arguments')
                            elif v.kind != want:
                                problems.append(f'child group `{seg.name}` is rebuilt from the `{v.kind}` part of the arguments, expected `{want}`')
                        elif not any(s.kind == 'star' for s in segs):
                            # fixed child list rebuilt from *args: args[k] must go back to child k (args[-1] is the last child)
                            got_idx = v.arg if v.kind == 'index' else (len(segs) - 1 if v.kind == 'last' else None)
                            if got_idx != idx:
                                problems.append(f'child `{seg.name}` (#{idx}) is rebuilt from `{v}` of the arguments: the rebuilt node has its children permuted')
                        else:
                            if idx == len(segs) - 1 and segs[0].kind == 'star':
                                ok = v.kind == 'last'
                            elif idx == 0:
                                ok = v.kind == 'index' and v.arg == 0
                            else:
                                raise AnalysisError(f'{where}: child `{seg.name}` in the middle of a variable-length layout {dlay}')
                            if not ok:
                                problems.append(f'child `{seg.name}` (#{idx}) is rebuilt from `{v}` of the arguments, expected {"the last" if idx else "the first"} argument')
        if problems and raises:
            # the constructor's own @typecheck_method rejects the misplaced argument: map_ir/subst raises, nothing different is sent
            d.bad('R5', cons, f'{cls.name}.copy: ' + problems[0] + (f' (+{len(problems) - 1} more)' if len(problems) > 1 else '') +
                  f' [never sent: {raises[0]}]', owner.mod.path, fn.lineno)
        elif problems:
            ctx.bad('R5', cons, f'{cls.name}.copy: ' + problems[0] + (f' (+{len(problems) - 1} more)' if len(problems) > 1 else ''), owner.mod.path, fn.lineno)
        else:
            ctx.ok('R5', cons, {'returns': sorted({d.name for d, _, _, _ in bound_all}), 'notes': notes})
        for n in notes:
            ctx.info(f'{cls.name}.copy: {n}')
    d.finish('copy')


# ---------------------------------------------------------------------------------------------------------------------------
# R7 / R9: binder variables are typed from the value the emitted node binds them to
# ---------------------------------------------------------------------------------------------------------------------------

def check_binders(ctx: Ctx, t: ic.Table) -> None:
    results, notes, stats = tr.analyse_binders(t)
    ctx.unit('binder_ir_classes', stats['binder_classes'])
    ctx.unit('binder_root_functions', stats['roots'])
    ctx.unit('expr_files', stats['files'])
    undecided: List[str] = []
    for n in notes:
        ctx.info(f'binder table: {n}')
    for g in stats['roots_given_up']:
        ctx.info(f'[R7 not decided] {g}')
        undecided.append(g)
    for key, r in sorted(results.items()):
        rule = 'R9' if key.endswith('::Ref/construct_expr') else 'R7'
        if r.bad:
            ctx.bad(rule, key, r.bad[0] + (f' (+{len(r.bad) - 1} more path(s))' if len(r.bad) > 1 else ''), r.file, r.line)
        elif r.ok and not r.undecided:
            ctx.ok(rule, key, {'paths_checked': r.ok, 'paths_without_reference': r.unref})
        elif r.undecided:
            undecided.append(f'{key}: {r.undecided[0]}')
            ctx.info(f'[{rule} not decided] {key}: {r.undecided[0]}')
        else:
            undecided.append(f'{key}: the bound name is never referenced by a variable created in this function')
    ctx.extra_cov['binder_sites_not_decided'] = undecided


# ---------------------------------------------------------------------------------------------------------------------------
# R8: python _compute_type vs scala typ for the relational nodes
# ---------------------------------------------------------------------------------------------------------------------------

# node classes that exist on one side only, each with the reason why that is not a typing disagreement
PYTHON_ONLY = {
    'JavaTable': 'handle to a table that already lives in the backend (its type was reported by the backend); rendered as a reference',
}


def check_relational(ctx: Ctx, t: ic.Table) -> None:
    results, one_sided = tr.compare_relational(t)
    for o in one_sided:
        name = o.split(' ')[0]
        if '(python only)' in o and name not in PYTHON_ONLY:
            raise AnalysisError(f'IR node {name} exists only in the python front end: there is no engine typing rule to compare its _compute_type with')
        ctx.info(f'relational node on one side only: {o}' + (f' - {PYTHON_ONLY[name]}' if name in PYTHON_ONLY else ' - never sent by the front end'))
    untranslated: List[str] = []
    n_nodes = 0
    for res in results:
        if res.skipped:
            untranslated.append(f'{res.node}: {res.skipped}')
            continue
        n_nodes += 1
        by_comp: Dict[str, List[Tuple[str, str, str, Dict[str, bool]]]] = {}
        for comp, st, a, b, val in res.components:
            by_comp.setdefault(comp, []).append((st, a, b, val))
        for comp, rows in by_comp.items():
            uniform = len({(st, a, b) for st, a, b, _ in rows}) == 1
            for st, a, b, val in (rows[:1] if uniform else rows):
                suffix = '' if uniform or not val else ' [' + ', '.join(f'{k}={v}' for k, v in sorted(val.items())) + ']'
                cons = f'{res.py_key}::{comp}{suffix}'
                if st == 'skip':
                    untranslated.append(f'{res.node}.{comp}{suffix}: {a or b}')
                elif st == 'ok':
                    ctx.ok('R8', cons, {'normal_form': a})
                else:
                    ctx.bad('R8', cons,
                            f'the front end types the `{comp}` of {res.node} as  {a}  but the engine ({res.sc_where}) types it as  {b}' + suffix +
                            f'; {tr.witness(a, b)}. Everything derived from the node (Table.row.dtype, field order, result decoding) uses the front-end type',
                            res.file, res.line)
        for n in (res.notes if any(st != 'skip' for _, st, _, _, _ in res.components) else []):
            ctx.info(f'{res.node}: constructor parameter matched by position: {n}')
    for name, holds, detail in tr.struct_primitive_checks():
        ctx.check(holds, 'R10', f'{tr.TYPES_PY}::tstruct.{name}', f'tstruct.{name} no longer has the ordered semantics the typing rules (and the engine) rely on: {detail}. '
                  f'Every _compute_type built on it (key_type / value_type / joins / renames) reports a field order the engine does not produce',
                  pf.load(tr.TYPES_PY).path, 0, detail=detail)
    ctx.unit('relational_nodes_compared', n_nodes)
    ctx.extra_cov['relational_untranslated'] = untranslated
    for u in untranslated:
        ctx.info(f'[R8 not compared] {u}')


# ---------------------------------------------------------------------------------------------------------------------------
# R11: static tuple indices stay inside the engine's domain;  R12: children of union-like nodes are made to agree before emission
# ---------------------------------------------------------------------------------------------------------------------------

def check_index_domain(ctx: Ctx, t: ic.Table, undecided: List[str]) -> None:
    sites, nodes, n_files = tr.index_domain_sites(t, thorough=ctx.tier == 'thorough')
    ctx.unit('index_typed_ir_classes', len(nodes))
    ctx.unit('index_emission_files', n_files)
    for s in sorted(sites, key=lambda x: x.key):
        n = s.node
        if s.status == 'ok':
            ctx.ok('R11', s.key, {'why': s.detail})
        elif s.status == 'bad':
            ctx.bad('R11', s.key,
                    f'`{s.call_txt}` is {s.detail}. For a negative `{n.param}` in [-n, 0) python\'s {n.cls.name}._compute_type `{n.py_rule}` silently wraps around '
                    f'(the front end reports the type of element n+{n.param} and assign_type agrees with itself), but the engine types the node by {n.engine_rule}: '
                    f'the IR that is sent has no type at all (key not found), so the reported type is not the type of the IR', s.file, s.line)
        else:
            undecided.append(f'R11 {s.key}: {s.detail}')
            ctx.info(f'[R11 not decided] {s.key}: {s.detail}')


def check_children_agree(ctx: Ctx, t: ic.Table, undecided: List[str]) -> None:
    results, nodes, notes, n_fn = tr.children_agreement_sites(t, thorough=ctx.tier == 'thorough')
    ctx.unit('agreement_nodes', len(nodes))
    ctx.unit('agreement_emitting_functions', n_fn)
    ctx.extra_cov['agreement_obligations'] = {n.cls.name: n.comps for n in nodes}
    for n in notes:
        ctx.info(f'children agreement: {n}')
    emitted = {r.key.split('::')[2].split('.')[0] for r in results}
    for n in nodes:
        if n.cls.name not in emitted:
            ctx.info(f'{n.cls.name}: the engine demands agreement on {n.comps} but no front-end function outside hail/ir emits the node')
    for r in sorted(results, key=lambda x: x.key):
        if r.status == 'ok':
            ctx.ok('R12', r.key)
        elif r.status == 'bad':
            ctx.bad('R12', r.key, r.msg, r.file, r.line)
        else:
            undecided.append(f'R12 {r.key}: {r.msg}')
            ctx.info(f'[R12 not decided] {r.key}: {r.msg}')


def run(ctx: Ctx) -> None:
    ctx.explanation = ('R7/R9: def-use interpretation of every binder-emitting front-end function against the binder metadata of the IR classes. '
                       'R11: lower-bound analysis of the static index at every GetTupleElement construction. R12: path-by-path agreement facts for the children '
                       'of union-like relational nodes against the obligations read from TypeCheck.scala. '
                       'R8/R10: python _compute_type vs scala typ of each relational node in a common ordered-struct normal form. '
                       'R5: constructor/copy signature binding for the rebuild path used by map_ir/subst. '
                       'Environment handling of _compute_type is analysed for diagnostics only (deep_typecheck-only).')
    ctx.rule('R5', 'copy rebuilds the same class with argument k back at child position k (instances where the rebuilt IR is sent without an exception)', 95)
    ctx.assume('IR.compute_type(env, agg_env, deep_typecheck) consults env only when deep_typecheck is true (Ref._compute_type); R1-R3 are about that mode')
    ctx.assume('IR.map_ir passes all children positionally to copy and replaces only value-IR children (base_ir.IR.map_ir)')
    t = ic.load_table()
    envs = ic.env_method_keys()
    ctx.unit('files', len(ic.MODULES) + 2)
    ctx.unit('ir_classes', len(t.ir_classes()))
    check_typing(ctx, t, envs)
    check_env_methods(ctx, envs)
    check_copy(ctx, t)
    ctx.rule('R7', 'every variable created for a binder IR node (fold/scan accumulator, map/filter/zip element, let/bind value, agg explode, loop parameter) '
                   'is typed, on every path, from the same definition of the value that the emitted node binds to that name; references are rebuilt after a '
                   're-assignment (coercion / widening) of that value', 41)
    ctx.rule('R9', 'a Ref built for a bound variable carries the same type as the expression that wraps it', 7)
    ctx.rule('R8', 'python _compute_type and scala typ of the same Table / Matrix IR node denote the same ordered field lists and keys (per component)', 247)
    ctx.rule('R10', 'the python struct primitives the typing rules are written with (tstruct._concat/_insert_field(s)/_drop_fields/_select_fields/_rename) '
                    'produce the field ORDER the comparison algebra and the engine assume: the syntax tree of each helper is read into an order term '
                    '(fields(self) then fields(other); comprehension over self with a membership filter; iteration over the GIVEN names; order-preserving rename) - '
                    'nothing is evaluated on concrete values', 6)
    ctx.assume('R8/R10: TStruct.scala `++`, typeAfterSelect, filterSet, appendKey, structInsert, rename have the ordered semantics of the algebra (read, not re-derived); '
               'types of value-IR children (typeof(newRow), ...) are atoms common to both sides')
    ctx.assume('R7: an Expression X and X._ir are identified (X._ir.typ == X.dtype is the property itself, assumed for sub-expressions); cast_expr(e, T) has type T; '
               'hl.array / hl.set / toStream / toArray keep the element type; a value re-assigned through any other call is a new definition whose type may differ')
    ctx.assume('R8: inserting a field is compared as appending it (fresh-name assumption: TStruct.appendKey asserts absence, tstruct._insert_field would replace in place)')
    ctx.assume('R8: TableJoin is only emitted with joinKey == len(left key) == len(right key) (Table.join; the private _join_key parameter is not used in the repository)')
    ctx.assume('R8: requiredness of fields is not represented by the python types and is not compared; BlockMatrix nodes (shape arithmetic) are not compared')
    ctx.assume('R8: constructor parameters correspond by camelCased name, else by position')
    ctx.rule('R11', 'every front-end construction of an IR node that python types by subscripting a tuple type with an int parameter (GetTupleElement) is reached '
                    'only with a non-negative index: python wraps negative indices around, the engine looks the index up among the declared field indices', 13)
    ctx.rule('R12', 'before the front end emits a node whose children the engine requires to agree (TableUnion, TableMultiWayZipJoin, MatrixUnionRows, '
                    'MatrixUnionCols: components read from TypeCheck.scala) it has established that agreement on every path - by an equality guard on a type '
                    'expression that determines the component, or by rebuilding every child through one unified projection', 12)
    ctx.assume('R11: tuple types the front end can denote have declared indices 0..n-1 (ttuple renders without indices; TTuple.fieldIndex maps declared index -> '
               'position); an index >= n makes python\'s own subscription raise before anything is sent')
    ctx.assume('R12: Table.select(**fields) yields key fields first, then the given fields in keyword order, each with the type of its expression; '
               'unify_exprs returns expressions of ONE common type when its last result is True; hl.missing(T) has type T; deduplicate(ids, ...) renames only '
               'members of ids; MatrixTable.select_rows / rename leave the components they do not mention unchanged')
    check_binders(ctx, t)
    check_relational(ctx, t)
    undecided: List[str] = []
    check_index_domain(ctx, t, undecided)
    check_children_agree(ctx, t, undecided)
    ctx.extra_cov['sites_not_decided_R11_R12'] = undecided
    if undecided:
        # every other rule has reported; an emission this analysis cannot decide must not pass silently
        raise AnalysisError(f'{len(undecided)} emission site(s) not decided - {undecided[0]}')
