"""C37 Statistical tests return correct values - PARTIAL claim: the clauses whose truth is visible in the SHAPE of the code.

The four engine tests (hail/stats/package.scala: hardyWeinbergTest, chiSquaredTest, contingencyTableTest, fisherExactTest; LeveneHaldane.scala),
their registration (expr/ir/functions/MathFunctions.scala) and the Python wrappers (hail/expr/functions.py, aggregators.py) are parsed
(engines/c37facts.py: Scala subset parser; CPython ast) and executed ABSTRACTLY over symbolic inputs into normal forms: rational functions with
Fraction coefficients over the inputs and over uninterpreted applications of library routines (ChiSquare.cumulative, HypergeometricDistribution.*,
uniroot, log / exp, stream elements), conditions as formulas over sign-normalised comparison atoms, conditionals as decision tables.  Each rule compares
such a normal form with the normal form of the mathematical definition written ONCE below (SPEC_*), or decides a truth table / dataflow fact.
No repository code is run and no concrete input is evaluated; concrete numbers appear only in messages and in the known-finding demonstrations.

  R1  validity guards: on every returning path of each test the count arguments satisfy exactly "all counts >= 0" (truth table over the sign atoms of
      the fatal-guards preceding the return; an early return before the guard, a dropped disjunct, `<` for `<=` are all seen); min_cell_count >= 0
  R2  chi-squared: statistic == n (ad - bc)^2 / ((a+b)(c+d)(a+c)(b+d)) as a rational function; p-value == ChiSquare upper tail, exactly 1 degree of
      freedom, not log (through the pchisqtail overloads); odds ratio == ad / bc; array slot j carries the field chisqStruct declares at position j
  R3  contingency dispatch: chi-squared exactly when all four cells >= min_cell_count, else Fisher; arguments forwarded in an order under which every
      returned field is invariant (the group {id, (b c), (a d), (a d)(b c)} is COMPUTED from the SPEC: chi^2, ad/bc, margins)
  R4  Fisher: the four returned fields equal R's fisher.test (2x2, conditional MLE) under one of the equivalent hypergeometric parametrisations
      (N, {K, n}, x = a | d): support bounds, density normalisation, `less` = P(X <= x), `greater` = P(X >= x), `two.sided` = sum of densities
      <= observed * relErr (any literal 1 <= relErr <= 1.001 found in the code), ncp = 0 / +inf limits, MLE and confidence bounds (alpha = 1 - conf one-sided
      with 0 / +inf at the open end, (1 - conf) / 2 two-sided), array order == fetStruct order; NaN is returned only for tables with a zero margin;
      the 4-argument overload called by the engine passes odds ratio 1, confidence 0.95, "two.sided"
  R5  p-value range: the value stored in a p_value slot is a library CDF / tail, a constant in [0, 1], clamped, or a normalised sum that provably omits
      at least half of its pivot term; an UNCLAMPED floating-point sum of normalised terms whose selection can be the whole family is reported
      (two genuine findings today: Fisher two-sided, LeveneHaldane.rightMidP - see known_findings.json)
  R6  Hardy-Weinberg: n = sum of counts, nA = nHet + 2 min(nHomRef, nHomVar), LeveneHaldane(n, nA), het_freq_hwe = mean / n, p = rightMidP(nHet) if oneSided
      else exactMidP(nHet), order == hweStruct.  LeveneHaldane: the recurrences pRU / pLU have step +-2 and ratio P(k+-2)/P(k) DERIVED from the pmf
      definition (factorial quotients), start at the mode with 1.0; mode = parity + 2 round((x - parity)/2) with x = 1 + root of (ratio = 1); normaliser =
      sum of both streams minus the doubly counted mode; constructor wiring; probability / interval / rightMidP / exactMidP / mean equal their definitions
      (relative truncations `takeWhile(_ > c)` with every coefficient of c <= 1e-15 are treated as exact and listed in the evidence)
  R7  wiring: registry name -> Scala routine, argument types and order, result struct and slot order; Python wrapper name, argument order, typecheck
      types, tstruct fields / order / types, defaults (one_sided=False only); the aggregator forwards counts of 0 / 1 / 2 alternate alleles and one_sided;
      variant_qc passes (hom_ref, AC[1] - 2 hom_var, hom_var) and stores the one-sided result in p_value_excess_het

R5's structural criterion.  A p-value computed as (sum of selected terms u_i) / N with N = sum of ALL u_i is <= 1 mathematically; rounding can push it above 1 only
when the omitted mass can be smaller than the rounding error.  (i) selection by POSITION (slices, index filters) or by magnitude with the pivot fully counted and a
tolerance >= 1 can select everything -> no margin -> must be clamped (reported otherwise).  (ii) LEMMA (pivot-excluding selection, exactMidP): if the terms greater
than a pivot u_p (itself a term of the family) are dropped and ties get weight <= 1/2, the omitted mass is >= u_p / 2 while the selected mass is <= (#terms) u_p, so the
quotient is <= min(1 - u_p / 2N, #terms u_p / N) < 1 - 1e-10 for any support of Int size: bounded away from 1 by construction, accepted.
A clamp min(X, 1) / max(X, 0) at the root of a p-value is looked through when the value is compared with its definition (R4 / R6), so the repair of an R5 finding is
not reported as a deviation.

NOT decided (stated in META and in the evidence): accuracy of jdistlib / commons-math special functions and of Hail's own log-space arithmetic, the root
finder (uniroot is an uninterpreted symbol), floating-point rounding, overflow of Int arithmetic (read over Z), summation order, the `practical ranges`.
"""
from __future__ import annotations

import ast
import itertools
from fractions import Fraction
from typing import Any, Dict, List, Optional, Sequence, Tuple

from engines import c37facts as S
from engines import pyfacts as pf
from engines.common import AnalysisError, Ctx, short

META = dict(
    category='other',
    text='Partial claim. Decided: the algebraic / structural clauses of C37 - validity guards (truth tables), the chi-squared statistic and odds ratio as '
         'rational functions, tail direction and degrees of freedom, contingency dispatch, the Fisher parametrisation / support / alternative dispatch / '
         'confidence-level plumbing against R\'s definition, the Levene-Haldane recurrences derived from the pmf, mid-p definitions, result-struct order and '
         'the registry / Python wiring; and the structural half of "p-values lie in [0, 1]" (is the slot a library tail, clamped, or an unclamped sum). '
         'NOT decided: numerical accuracy (library special functions, log-space arithmetic, root finding, rounding, truncation below 1e-15, Int overflow), '
         'hence "other".',
    note='Scala is read through engines/c37facts.py (own tokenizer + subset parser + symbolic interpreter, fail-closed). Trusted: that engine, CPython ast, '
         'engines/polysym.Poly; library routines are uninterpreted symbols assumed to implement their documented distribution function with values in [0, 1] '
         '(ChiSquare.cumulative, HypergeometricDistribution.cumulativeProbability = P(X <= k), upperCumulativeProbability = P(X >= k)). Tables with a zero '
         'margin (where the code returns NaN by design) are outside the valid inputs of the p-value clause. SPEC_* in the module is the definition compared against.',
    technique='static analysis: abstract execution of the parsed Scala routines over symbolic inputs into rational-function / decision-table normal forms with '
              'uninterpreted library symbols, compared with the normal form of the mathematical definition; truth tables over sign atoms; factorial-quotient '
              'derivation of recurrence ratios; dataflow classification of p-value slots; cross-language signature comparison',
    design_ref='DESIGN.md §3 C37',
)

PK = 'hail/hail/src/is/hail/stats/package.scala'
LHF = 'hail/hail/src/is/hail/stats/LeveneHaldane.scala'
MF = 'hail/hail/src/is/hail/expr/ir/functions/MathFunctions.scala'
PYF = 'hail/python/hail/expr/functions.py'
AGG = 'hail/python/hail/expr/aggregators/aggregators.py'

# ======================================================================================
# SPEC - the mathematical definitions, written once
# ======================================================================================

# Pearson's chi-squared test of independence for the table [[c1, c2], [c3, c4]] (no continuity correction):
#   X^2 = n (c1 c4 - c2 c3)^2 / ((c1+c2)(c3+c4)(c1+c3)(c2+c4)),  p = P(chi^2_1 > X^2) (upper tail, ONE degree of freedom), sample odds ratio c1 c4 / (c2 c3).
SPEC_CHISQ_FIELDS = ['p_value', 'odds_ratio']
SPEC_CHISQ = '''
def chisq(c1: Int, c2: Int, c3: Int, c4: Int) = {
  val a = c1.toDouble
  val b = c2.toDouble
  val c = c3.toDouble
  val d = c4.toDouble
  val n = a + b + c + d
  val x2 = n * (a * d - b * c) * (a * d - b * c) / ((a + b) * (c + d) * (a + c) * (b + d))
  Array(ChiSquare.cumulative(x2, 1.0, false, false), (a * d) / (b * c))
}
'''

# Fisher's exact test for a 2x2 table as defined by R's stats::fisher.test (conditional MLE; Fisher 1935, R Core).  X = count of the observed cell follows,
# given the margins, the (non-central) hypergeometric distribution with population N, K "successes", n draws and odds ratio ncp on the support lo..hi;
#   less: P_ncp(X <= x)   greater: P_ncp(X >= x)   two.sided: sum of the densities that do not exceed the observed density (times relErr >= 1)
#   ncp = 0 / +inf are the limits (point mass at lo / hi); ncp = 1 is the central distribution (library CDF / upper tail);
#   estimate: root of E_ncp[X] = x; confidence bounds: roots of the tail probabilities = alpha, alpha = 1 - conf (one-sided, other bound 0 / +inf) or (1 - conf)/2.
# The observed cell and the orientation of the margins are parameters (OBS, KCOL): the hypergeometric family is symmetric in K <-> n, and centring on the
# opposite cell shifts X by a constant; centring on a neighbouring cell inverts the odds ratio and is NOT equivalent without swapping the tails.
SPEC_FISHER_FIELDS = ['p_value', 'odds_ratio', 'ci_95_lower', 'ci_95_upper']
SPEC_FISHER = '''
def fisher(c1: Int, c2: Int, c3: Int, c4: Int, oddsRatio: Double, confidenceLevel: Double, alternative: String, x: Int, K: Int, n: Int, relErr: Double) = {
  val N = c1 + c2 + c3 + c4
  val lo = math.max(0, n - (N - K))
  val hi = math.min(n, K)
  val H = new HypergeometricDistribution(null, N, K, n)
  val support = (lo to hi).toArray
  val eps = 2.220446e-16
  def dn(ncp: Double) = {
    val e = support.zipWithIndex.map { case (s, i) => H.logProbability(s) + math.log(ncp) * i }
    val w = e.map(t => math.exp(t - e.max))
    w.map(t => t / w.sum)
  }
  def lower(q: Int, ncp: Double) =
    if (ncp == 1d) H.cumulativeProbability(q)
    else if (ncp == 0d) (if (q >= lo) 1d else 0d)
    else if (ncp == Double.PositiveInfinity) (if (q >= hi) 1d else 0d)
    else dn(ncp).zipWithIndex.filter { case (_, i) => support(i) <= q }.map { case (p, _) => p }.sum
  def upper(q: Int, ncp: Double) =
    if (ncp == 1d) H.upperCumulativeProbability(q)
    else if (ncp == 0d) (if (q <= lo) 1d else 0d)
    else if (ncp == Double.PositiveInfinity) (if (q <= hi) 1d else 0d)
    else dn(ncp).zipWithIndex.filter { case (_, i) => support(i) >= q }.map { case (p, _) => p }.sum
  def mean(ncp: Double) =
    if (ncp == 0d) lo.toDouble
    else if (ncp == Double.PositiveInfinity) hi.toDouble
    else dn(ncp).zipWithIndex.map { case (p, i) => p * support(i) }.sum
  def estimate(y: Double) =
    if (y == lo) 0.0
    else if (y == hi) Double.PositiveInfinity
    else if (mean(1.0) > y) uniroot(t => mean(t) - y, 0.0, 1.0).getOrElse(Double.NaN)
    else if (mean(1.0) < y) 1.0 / uniroot(t => mean(1 / t) - y, eps, 1d).getOrElse(Double.NaN)
    else 1.0
  def lowerBound(alpha: Double) =
    if (x == lo) 0.0
    else if (upper(x, 1d) > alpha) uniroot(t => upper(x, t) - alpha, 0d, 1d).getOrElse(Double.NaN)
    else if (upper(x, 1d) < alpha) 1.0 / uniroot(t => upper(x, 1 / t) - alpha, eps, 1d).getOrElse(Double.NaN)
    else 1.0
  def upperBound(alpha: Double) =
    if (x == hi) Double.PositiveInfinity
    else if (lower(x, 1d) < alpha) uniroot(t => lower(x, t) - alpha, 0d, 1d).getOrElse(Double.NaN)
    else if (lower(x, 1d) > alpha) 1.0 / uniroot(t => lower(x, 1 / t) - alpha, eps, 1d).getOrElse(Double.NaN)
    else 1.0
  val p = alternative match {
    case "less" => lower(x, oddsRatio)
    case "greater" => upper(x, oddsRatio)
    case "two.sided" =>
      if (oddsRatio == 0) (if (lo == x) 1d else 0d)
      else if (oddsRatio == Double.PositiveInfinity) (if (hi == x) 1d else 0d)
      else {
        val d = dn(oddsRatio)
        d.filter(_ <= d(x - lo) * relErr).sum
      }
  }
  val ci = alternative match {
    case "less" => (0d, upperBound(1 - confidenceLevel))
    case "greater" => (lowerBound(1 - confidenceLevel), Double.PositiveInfinity)
    case "two.sided" => (lowerBound((1 - confidenceLevel) / 2d), upperBound((1 - confidenceLevel) / 2d))
  }
  Array(p, estimate(x.toDouble), ci._1, ci._2)
}
'''
FISHER_DEFAULTS = (Fraction(1), Fraction(19, 20), 'two.sided')     # what the engine-visible 4-argument overload must pass
R_RELERR = Fraction(1) + Fraction(1, 10 ** 7)

# Hardy-Weinberg exact test with mid-p correction (Wigginton et al. 2005; Graffelman & Moreno 2013): given n individuals and the minor-allele count nA,
# the number of heterozygotes follows LeveneHaldane(n, nA); het_freq_hwe = E[X] / n; two-sided mid-p = P(less likely) + P(equally likely)/2,
# one-sided (excess heterozygosity) mid-p = P(X > x) + P(X = x)/2.
SPEC_HWE_FIELDS = ['het_freq_hwe', 'p_value']
SPEC_HWE = '''
def hwe(r: Int, h: Int, v: Int, oneSided: Boolean) = {
  val n = r + h + v
  val nA = h + 2 * math.min(r, v)
  val LH = LeveneHaldane(n, nA)
  Array(LH.getNumericalMean / n, if (oneSided) LH.rightMidP(h) else LH.exactMidP(h))
}
'''

# Levene-Haldane distribution (Levene 1949, Haldane 1954; docs/LeveneHaldane.pdf): n diploid individuals, nA copies of allele A, nB = 2n - nA of B,
#     P(X = k) = [ n! / (((nA-k)/2)! k! ((nB-k)/2)!) ] 2^k nA! nB! / (2n)!      for k = nA (mod 2), 0 <= k <= nA,      E[X] = nA nB / (2n - 1).
# Only the k-dependent factors matter for ratios: 2^k / ( ((nA-k)/2)! * k! * ((nB-k)/2)! ).
LH_PMF_POW2_EXPONENT = 'k'
LH_PMF_DEN_FACTORIALS = ['(nA - k) / 2', 'k', '(nB - k) / 2']
# The class receives the pmf as two streams relative to the mode: pRU(j) = P(mode + 2j) / P(mode), pLU(j) = P(mode - 2j) / P(mode), pN = sum_k P(k) / P(mode).
#   P(n0 < X <= n1): indices j with mode + 2j in (n0, n1]  <=>  floor((n0-mode)/2) + 1 <= j <= floor((n1-mode)/2)           (right of the mode)
#                    indices j with mode - 2j in (n0, n1]  <=>  ceil((mode-n1)/2) <= j <= ceil((mode-n0)/2) - 1, ceil(m/2) = (m+1) div 2   (left of the mode)
SPEC_LH_CLASS = '''
def probability(k: Int) =
  if (k < 0 || k > nA || k % 2 != nA % 2) 0.0
  else if (k >= mode) pRU((k - mode) / 2) / pN
  else pLU((mode - k) / 2) / pN
def interval(n0: Int, n1: Int) =
  if (n0 >= n1 || n0 >= nA || n1 < nA % 2) 0.0
  else if (n0 >= mode) pRU.slice((n0 - mode) / 2 + 1, (n1 - mode) / 2 + 1).sum / pN
  else if (n1 < mode) pLU.slice((mode - n1 + 1) / 2, (mode - n0 + 1) / 2).sum / pN
  else (pLU.slice(1, (mode - n0 + 1) / 2).sum + pRU.slice(0, (n1 - mode) / 2 + 1).sum) / pN
def rightMidP(k: Int) = interval(k, nA) + 0.5 * probability(k)
def exactMidP(k: Int, TOL: Double) = {
  val u = probability(k) * pN
  if (D_==(u, 0.0)) 0.0
  else {
    def part(s: LazyList[Double]) = {
      val (ties, rest) = s.dropWhile(D_>(_, u, tolerance = TOL)).span(D_==(_, u, tolerance = TOL))
      0.5 * ties.sum + rest.sum
    }
    (part(pLU.tail) + part(pRU)) / pN
  }
}
def mean() = 1.0 * nA * (2 * n - nA) / (2 * n - 1)
'''

OPAQUE_FNS = {'uniroot': 'D', 'D_==': 'B', 'D_>': 'B', 'D_<': 'B', 'D_>=': 'B', 'D_<=': 'B', 'D_!=': 'B', 'ChiSquare.cumulative': 'D', 'fatal': 'abort'}
OBJ_METHODS = {
    'HypergeometricDistribution': {'logProbability': 'D', 'probability': 'D', 'cumulativeProbability': 'D', 'upperCumulativeProbability': 'D'},
    'LeveneHaldane': {'getNumericalMean': 'D', 'rightMidP': 'D', 'exactMidP': 'D', 'leftMidP': 'D', 'probability': 'D', 'survivalFunction': 'D',
                      'cumulativeProbability': 'D'},
}
LIB_TAILS = {'ChiSquare.cumulative', 'HypergeometricDistribution.cumulativeProbability', 'HypergeometricDistribution.upperCumulativeProbability',
             'HypergeometricDistribution.probability'}


class LazyDefs:
    """name -> [Def] of a Scala container, parsed on first use; names in `skip` are never looked up (they are opaque / built in)."""

    def __init__(self, f: S.ScalaFile, kind: str, container: str, skip: Sequence[str] = ()):
        self.f, self.kind, self.container, self.skip = f, kind, container, set(skip)
        self.cache: Dict[str, List[S.Def]] = {}

    def __contains__(self, name: str) -> bool:
        if name in self.skip or not name.isidentifier():
            return False
        if name not in self.cache:
            self.cache[name] = self.f.defs(self.kind, self.container, name)
        return bool(self.cache[name])

    def __getitem__(self, name: str) -> List[S.Def]:
        if name not in self:
            raise KeyError(name)
        return self.cache[name]


def _interp(where: str, globals_: Any, opaque_defs: Sequence[str] = ()) -> S.Interp:
    return S.Interp(where, globals_, OPAQUE_FNS, ['HypergeometricDistribution', 'LeveneHaldane'], OBJ_METHODS, opaque_defs)


def _pkg(ctx: Ctx) -> Tuple[S.ScalaFile, LazyDefs]:
    f = S.load(PK)
    return f, LazyDefs(f, 'object', 'stats', skip=list(OPAQUE_FNS) + ['LeveneHaldane', 'Array', 'math', 'Double'])


def _one_def(ctx: Ctx, defs: List[S.Def], n_params: int, what: str) -> S.Def:
    c = [d for d in defs if len(d.params) == n_params]
    ctx.need(len(c) == 1, f'{what}: expected exactly one overload with {n_params} parameters, found {len(c)}')
    return c[0]


def _bind(d: S.Def, names: Sequence[str]) -> Dict[str, Any]:
    """Bind the parameters of a code def POSITIONALLY to the canonical input symbols of the SPEC (parameter renames are harmless)."""
    return {p[0]: S.input_value(nm, p[1]) for p, nm in zip(d.params, names)}


def _struct_fields(ctx: Ctx, f: S.ScalaFile, name: str) -> List[Tuple[str, str]]:
    """`val <name> = PCanonicalStruct("f" -> PFloat64(..), ...)` -> [(field, physical type)] in declaration order."""
    e = S.strip(f.val('object', 'stats', name))
    ctx.need(e[0] == 'call' and S.dotted(e[1]) == 'PCanonicalStruct', f'{PK}::{name}: not a PCanonicalStruct(...) literal')
    out = []
    for kw, a in e[2]:
        a = S.strip(a)
        if kw == 'required':
            continue
        ctx.need(kw is None and a[0] == 'bin' and a[1] == '->' and S.strip(a[2])[0] == 'str', f'{PK}::{name}: field is not `"name" -> PType(..)`')
        t = S.strip(a[3])
        ctx.need(t[0] == 'call' and S.dotted(t[1]) is not None, f'{PK}::{name}: field type not recognised')
        out.append((S.strip(a[2])[1], S.dotted(t[1])))
    ctx.need(len(out) == len({n for n, _ in out}) and out, f'{PK}::{name}: duplicate or no fields')
    return out


def _spec_value(text: str, fname: str, args: Optional[Dict[str, Any]] = None, genv: Optional[Dict[str, Any]] = None) -> S.FuncResult:
    defs = S.parse_defs(text, 'SPEC ' + fname)
    it = _interp('SPEC ' + fname, defs)
    if genv:
        it.genv.d.update(genv)
    return it.run_def(defs[fname][0], args)


def _arr(ctx: Ctx, v: Any, n: int, what: str) -> List[Any]:
    ctx.need(isinstance(v, S.ArrV), f'{what}: result is not an Array(...) literal but {short(S.vshow(v), 80)}')
    return v.items


# ======================================================================================
# R1 validity guards
# ======================================================================================


def _ge0(names: Sequence[str]) -> S.BoolV:
    return S.b_and(*[S.mk_cmp('>=', S.Rat.sym(n, 'I'), S.Rat.const(0)) for n in names])


def r1_guards(ctx: Ctx, rel: str, fname: str, res: S.FuncResult, syms: Sequence[str], what: str) -> None:
    """Every returning path of `fname` (early `return`s and the final value) is preceded by fatal-guards whose conjunction, projected on
    `syms`, is exactly  AND(sym >= 0)."""
    spec = _ge0(syms)
    symset = set(syms)
    returns: List[Tuple[str, int]] = []
    for i, (_c, g, _idx) in enumerate(res.guards):
        if isinstance(g, S.RetV):
            returns.append((f'early return #{len(returns) + 1}', i))
    returns.append(('result', len(res.guards)))
    for label, upto in returns:
        conds = []
        for c, g, _idx in res.guards[:upto]:
            if not isinstance(g, S.Abort):
                continue
            fs = S.free_syms(c)
            if not (fs & symset):
                continue
            ctx.need(fs <= symset, f'{rel}::{fname}: guard `{S.vshow(c)}` mixes {what} with other arguments; not analysed')
            conds.append(S.b_not(c))
        valid = S.b_and(*conds)
        construct = f'{rel}::{fname}::{label} requires {what} >= 0'
        w = S.bool_diff(valid, spec)
        if w is None:
            ctx.ok('R1', construct, f'guards before the {label}: {S.vshow(valid)}')
        else:
            accepted = w.ev(valid.node)
            ctx.bad('R1', construct,
                    f'the guards preceding the {label} of {fname} are `{S.vshow(valid)}`, not `{S.vshow(spec)}`: with {w.describe()} the input is '
                    + ('ACCEPTED and a statistic is computed from a negative count' if accepted else 'REJECTED although every count is non-negative'),
                    rel, 0)


def rule_r1(ctx: Ctx, T: Dict[str, Any]) -> None:
    r1_guards(ctx, PK, 'hardyWeinbergTest', T['hwe'], ['r', 'h', 'v'], 'genotype counts')
    r1_guards(ctx, PK, 'chiSquaredTest', T['chisq'], ['c1', 'c2', 'c3', 'c4'], 'cell counts')
    r1_guards(ctx, PK, 'fisherExactTest', T['fisher7'], ['c1', 'c2', 'c3', 'c4'], 'cell counts')
    r1_guards(ctx, PK, 'contingencyTableTest', T['ctt'], ['m'], 'min_cell_count')
    # the cell counts of contingencyTableTest and of the 4-argument fisherExactTest are validated by the routine they return
    for key, fname in (('ctt', 'contingencyTableTest'), ('fisher4', 'fisherExactTest(a, b, c, d)')):
        res = T[key]
        leaves = _leaves(res.value)
        bad = [l for l in leaves if not (isinstance(l, S.ObjV) and l.cls in ('call:chiSquaredTest', 'call:fisherExactTest'))]
        construct = f'{PK}::{fname}::cell counts validated by the delegate'
        if any(isinstance(g, S.RetV) for _c, g, _i in res.guards):
            ctx.bad('R1', construct, f'{fname} has an early return that bypasses the validating delegate', PK, 0)
        elif bad:
            ctx.bad('R1', construct, f'{fname} returns `{short(S.vshow(bad[0]), 120)}` computed without the non-negativity guard of chiSquaredTest / fisherExactTest', PK, 0)
        else:
            ctx.ok('R1', construct, [l.cls for l in leaves])


def _leaves(v: Any) -> List[Any]:
    if isinstance(v, S.Ite):
        return _leaves(v.a) + _leaves(v.b)
    if isinstance(v, S.MatchV):
        out: List[Any] = []
        for _c, x in v.arms:
            out += _leaves(x)
        if v.default is not None:
            out += _leaves(v.default)
        return out
    return [v]


# ======================================================================================
# R2 chi-squared
# ======================================================================================


def compare_slots(ctx: Ctx, rule: str, rel: str, fname: str, code_items: List[Any], code_fields: List[str], spec_items: List[Any],
                  spec_fields: List[str], struct: str) -> None:
    """Slot j of the array the routine returns is stored in field j of `struct`; it must equal the SPEC value of the field with that NAME."""
    construct = f'{rel}::{fname}::result has one slot per field of {struct}'
    if not ctx.check(len(code_items) == len(code_fields) and sorted(code_fields) == sorted(spec_fields), rule, construct,
                     f'{fname} returns {len(code_items)} value(s), {struct} declares the fields {code_fields}, the definition has {spec_fields}', rel, 0):
        return
    spec = dict(zip(spec_fields, spec_items))
    for j, (fld, v) in enumerate(zip(code_fields, code_items)):
        _cmp(ctx, rule, f'{rel}::{fname}::slot {j} -> {struct}.{fld}', v, spec[fld], rel,
             f'slot {j} of the array returned by {fname} is stored in field `{fld}` of {struct} but is not the {fld} of the definition')


def _cmp(ctx: Ctx, rule: str, construct: str, code: Any, spec: Any, rel: str, msg: str) -> bool:
    d = S.vdiff(code, spec)
    if d is None:
        ctx.ok(rule, construct, short(S.vshow(code), 160))
        return True
    ctx.bad(rule, construct, f'{msg}: {d}', rel, 0)
    return False


def rule_r2(ctx: Ctx, T: Dict[str, Any]) -> None:
    f, G = T['pkg']
    fields = [n for n, _t in _struct_fields(ctx, f, 'chisqStruct')]
    code = _arr(ctx, T['chisq'].value, 2, 'chiSquaredTest')
    spec = _arr(ctx, _spec_value(SPEC_CHISQ, 'chisq').value, 2, 'SPEC chisq')
    compare_slots(ctx, 'R2', PK, 'chiSquaredTest', code, fields, spec, SPEC_CHISQ_FIELDS, 'chisqStruct')
    # the two-argument pchisqtail is THE upper tail (not log): every caller relies on it
    d = _one_def(ctx, G['pchisqtail'], 2, f'{PK}::pchisqtail')
    it = _interp(f'{PK}::pchisqtail', G)
    v = it.run_def(d, _bind(d, ['x', 'df'])).value
    want = S.atom('ChiSquare.cumulative', [S.Rat.sym('x', 'D'), S.Rat.sym('df', 'D'), S.FALSE, S.FALSE], 'D')
    _cmp(ctx, 'R2', f'{PK}::pchisqtail(x, df)::upper tail, not log', v, want, PK,
         'pchisqtail(x, df) must be ChiSquare.cumulative(x, df, lowerTail = false, logP = false) = P(chi^2_df > x)')


# ======================================================================================
# R3 contingency dispatch
# ======================================================================================

CELLS = ['c1', 'c2', 'c3', 'c4']
_PERMS: List[List[Tuple[int, ...]]] = []


def _perm_sub(perm: Sequence[int]) -> Dict[str, S.Rat]:
    return {CELLS[i]: S.Rat.sym(CELLS[perm[i]], 'I') for i in range(4)}


def invariant_perms(ctx: Ctx) -> List[Tuple[int, ...]]:
    """Permutations of (c1..c4) under which EVERY field returned by either test is unchanged - computed from the SPEC: the chi-squared statistic and the
    odds ratio c1 c4 / (c2 c3) as rational functions, and (for Fisher, whose fields are functions of the conditional distribution given the margins and
    of the orientation of the odds ratio) the pair {row margins, column margins}."""
    if _PERMS:
        return _PERMS[0]
    spec = _arr(ctx, _spec_value(SPEC_CHISQ, 'chisq').value, 2, 'SPEC chisq')
    at = S.atom_of(spec[0])
    ctx.need(at is not None and at[0] == 'ChiSquare.cumulative', 'SPEC chisq: p-value is not a ChiSquare.cumulative atom')
    stat, oratio = at[1][0], spec[1]

    def margins(sub: Optional[Dict[str, S.Rat]]) -> Any:
        c = [S.Rat.sym(x, 'I') if sub is None else sub[x] for x in CELLS]
        rows = frozenset([S.r_add(c[0], c[1]).key(), S.r_add(c[2], c[3]).key()])
        cols = frozenset([S.r_add(c[0], c[2]).key(), S.r_add(c[1], c[3]).key()])
        return frozenset([rows, cols])
    out = []
    for perm in itertools.permutations(range(4)):
        sub = _perm_sub(perm)
        if S.r_eq(S.vsubst(stat, sub), stat) and S.r_eq(S.vsubst(oratio, sub), oratio) and margins(sub) == margins(None):
            out.append(perm)
    ctx.need(len(out) == 4 and (0, 1, 2, 3) in out, f'SPEC: expected the 4-element symmetry group, computed {out}')
    _PERMS.append(out)
    return out


def rule_r3(ctx: Ctx, T: Dict[str, Any]) -> None:
    res = T['ctt']
    v = res.value
    m = S.Rat.sym('m', 'I')
    spec_cond = S.b_and(*[S.mk_cmp('>=', S.Rat.sym(c, 'I'), m) for c in CELLS])
    atoms: List[tuple] = list(spec_cond.atoms())
    S._ite_atoms(v, atoms)
    perms = invariant_perms(ctx)
    ok_args = [[S.Rat.sym(CELLS[p[i]], 'I') for i in range(4)] for p in perms]
    seen = {'cond': None, 'call:chiSquaredTest': None, 'call:fisherExactTest': None}
    for val in S.valuations(atoms):
        leaf = S._ite_leaf(v, val)
        want = 'call:chiSquaredTest' if val.ev(spec_cond.node) else 'call:fisherExactTest'
        ctx.need(isinstance(leaf, S.ObjV) and leaf.cls.startswith('call:'), f'{PK}::contingencyTableTest: a branch is not a call of one of the tests: {short(S.vshow(leaf), 100)}')
        if leaf.cls != want and seen['cond'] is None:
            seen['cond'] = (f'with {val.describe()} contingencyTableTest runs {leaf.cls[5:]} but the definition (chi-squared iff every cell >= min_cell_count) '
                            f'requires {want[5:]}')
        if leaf.cls == want and seen[want] is None:
            args = leaf.args
            if len(args) != 4 or not all(isinstance(a, S.Rat) for a in args):
                raise AnalysisError(f'{PK}::contingencyTableTest: {leaf.cls[5:]} is called with {len(args)} argument(s); only the 4-cell call is analysed')
            good = any(all(S.r_eq(a, b) for a, b in zip(args, oa)) for oa in ok_args)
            seen[want] = True if good else f'{want[5:]}({", ".join(S.vshow(a) for a in args)}) - the cells (a, b, c, d) are not forwarded in an order that keeps ' \
                                           f'every returned field (p_value, odds_ratio' + (', ci_95_*' if 'fisher' in want else '') + ') unchanged'
    construct = f'{PK}::contingencyTableTest::chi-squared iff all cells >= min_cell_count'
    if seen['cond'] is None:
        ctx.ok('R3', construct, S.vshow(spec_cond))
    else:
        ctx.bad('R3', construct, seen['cond'], PK, 0)
    for want in ('call:chiSquaredTest', 'call:fisherExactTest'):
        construct = f'{PK}::contingencyTableTest::arguments forwarded to {want[5:]}'
        if seen[want] is True:
            ctx.ok('R3', construct, 'cells forwarded in an invariant order')
        elif seen[want] is None:
            ctx.bad('R3', construct, f'{want[5:]} is never called for the tables the definition assigns to it', PK, 0)
        else:
            ctx.bad('R3', construct, seen[want], PK, 0)


# ======================================================================================
# evaluation of the routines (shared by the rules)
# ======================================================================================

FISHER_NAMES = ['c1', 'c2', 'c3', 'c4', 'oddsRatio', 'confidenceLevel', 'alternative']


def evaluate(ctx: Ctx) -> Dict[str, Any]:
    S.reset()
    del _PERMS[:]
    f, G = _pkg(ctx)
    T: Dict[str, Any] = {'pkg': (f, G)}
    for key, name, npar, names, opaque in (
            ('hwe', 'hardyWeinbergTest', 4, ['r', 'h', 'v', 'oneSided'], ()),
            ('chisq', 'chiSquaredTest', 4, CELLS, ()),
            ('ctt', 'contingencyTableTest', 5, CELLS + ['m'], ('chiSquaredTest', 'fisherExactTest')),
            ('fisher4', 'fisherExactTest', 4, CELLS, ('fisherExactTest',)),
            ('fisher7', 'fisherExactTest', 7, FISHER_NAMES, ())):
        ctx.need(name in G, f'anchor vanished: {PK}::{name}')
        d = _one_def(ctx, G[name], npar, f'{PK}::{name}')
        it = _interp(f'{PK}::{name}', G, opaque)
        T[key] = it.run_def(d, _bind(d, names))
        T[key + '.def'] = d
        ctx.unit('scala_defs_executed_symbolically')
    return T


# ======================================================================================
# R4 Fisher
# ======================================================================================


def _sym(n: str) -> S.Rat:
    return S.Rat.sym(n, 'I')


def fisher_variants() -> List[Tuple[str, S.Rat, S.Rat, S.Rat]]:
    c1, c2, c3, c4 = (_sym(c) for c in CELLS)
    return [
        ('x = a, K = a + c (column), n = a + b (row)', c1, S.r_add(c1, c3), S.r_add(c1, c2)),
        ('x = a, K = a + b (row), n = a + c (column)', c1, S.r_add(c1, c2), S.r_add(c1, c3)),
        ('x = d, K = b + d (column), n = c + d (row)', c4, S.r_add(c2, c4), S.r_add(c3, c4)),
        ('x = d, K = c + d (row), n = b + d (column)', c4, S.r_add(c3, c4), S.r_add(c2, c4)),
    ]


def _literals(e: Any, out: List[Fraction]) -> None:
    if isinstance(e, tuple):
        if e and e[0] == 'num':
            if e[1] not in out:
                out.append(e[1])
            return
        for x in e:
            _literals(x, out)
    elif isinstance(e, list):
        for x in e:
            _literals(x, out)
    elif isinstance(e, S.Def):
        _literals(e.body, out)


def _all_literals(d: S.Def) -> List[Fraction]:
    out: List[Fraction] = []
    _literals(d.body, out)
    return out


def _tolerance_candidates(d: S.Def, lo: Fraction, hi: Fraction, first: Fraction) -> List[Fraction]:
    lits: List[Fraction] = []
    _literals(d.body, lits)
    cands = [first]
    for v in lits + [a + b for a in lits for b in lits]:
        if lo <= v <= hi and v not in cands:
            cands.append(v)
    return cands[:8]


def _code_hgd_args(value: Any) -> List[List[Any]]:
    out: List[List[Any]] = []
    for nm, (fn, args, _ty) in S.ATOMS.by_name.items():
        if fn.startswith('HypergeometricDistribution.') and args and isinstance(args[0], S.ObjV):
            if not any(all(S.veq(x, y) for x, y in zip(args[0].args, o)) for o in out if len(o) == len(args[0].args)):
                out.append(args[0].args)
    return out


def _split_alt(v: Any) -> Optional[Dict[str, Any]]:
    if isinstance(v, S.MatchV) and v.scrut.name == 'alternative' and v.default is None:
        return {c: x for c, x in v.arms}
    return None


def fisher_instances(code: Dict[str, Any], spec: Dict[str, Any]) -> List[Tuple[str, Any, Any]]:
    """(label, code value, spec value) - per field, split per alternative where both sides dispatch on it."""
    out = []
    for fld in SPEC_FISHER_FIELDS:
        a, b = _split_alt(code[fld]), _split_alt(spec[fld])
        if a is not None and b is not None and set(a) == set(b):
            for alt in sorted(b):
                out.append((f'{fld} [alternative = {alt}]', a[alt], b[alt]))
        else:
            out.append((fld, code[fld], spec[fld]))
    return out


def rule_r4(ctx: Ctx, T: Dict[str, Any]) -> None:
    f, _G = T['pkg']
    res = T['fisher7']
    d7: S.Def = T['fisher7.def']
    fields = [n for n, _t in _struct_fields(ctx, f, 'fetStruct')]
    items = _arr(ctx, res.value, 4, 'fisherExactTest')
    construct = f'{PK}::fisherExactTest::result has one slot per field of fetStruct'
    if not ctx.check(len(items) == len(fields) and sorted(fields) == sorted(SPEC_FISHER_FIELDS), 'R4', construct,
                     f'fisherExactTest returns {len(items)} value(s), fetStruct declares {fields}, the definition has {SPEC_FISHER_FIELDS}', PK, 0):
        return
    code = dict(zip(fields, items))
    if 'p_value' in code:
        code['p_value'] = unclamp(code['p_value'])
    hgds = _code_hgd_args(res.value)
    taus = _tolerance_candidates(d7, Fraction(1), Fraction(1001, 1000), R_RELERR)
    defs = S.parse_defs(SPEC_FISHER, 'SPEC fisher')
    best: Optional[Tuple[int, str, Fraction, List[Tuple[str, Any, Any, Any]]]] = None
    for vname, x, K, n in fisher_variants():
        it = _interp('SPEC fisher', defs)
        args = {nm: S.input_value(nm, ty) for nm, ty in zip(FISHER_NAMES, ['Int'] * 4 + ['Double', 'Double', 'String'])}
        args.update({'x': x, 'K': K, 'n': n, 'relErr': S.Rat.sym('relErr$', 'D')})
        sv = _arr(ctx, it.run_def(defs['fisher'][0], args).value, 4, 'SPEC fisher')
        ctx.unit('spec_variants_evaluated')
        for tau in (taus if best is None else [best[2]]):
            spec = {fld: S.vsubst(v, {'relErr$': S.Rat.const(tau, 'D')}) for fld, v in zip(SPEC_FISHER_FIELDS, sv)}
            rows = [(label, c, s, S.vdiff(c, s)) for label, c, s in fisher_instances(code, spec)]
            nbad = sum(1 for r in rows if r[3] is not None)
            if best is None or nbad < best[0]:
                best = (nbad, vname, tau, rows)
            if nbad == 0:
                break
        if best is not None and best[0] == 0:
            break
    assert best is not None
    nbad, vname, tau, rows = best
    if nbad:
        # a parametrisation centred on a neighbouring cell (b or c) is legitimate only together with swapped tails / inverted ncp: not analysed
        rows_m = [S.r_add(_sym('c1'), _sym('c2')), S.r_add(_sym('c3'), _sym('c4'))]
        cols_m = [S.r_add(_sym('c1'), _sym('c3')), S.r_add(_sym('c2'), _sym('c4'))]
        for h in hgds:
            if len(h) == 4 and all(isinstance(z, S.Rat) for z in h[1:]):
                for (ri, ci) in ((0, 1), (1, 0)):
                    for kk, nn in ((h[2], h[3]), (h[3], h[2])):
                        if S.r_eq(kk, rows_m[ri]) and S.r_eq(nn, cols_m[ci]) and len(hgds) == 1:
                            raise AnalysisError(f'{PK}::fisherExactTest: hypergeometric parametrisation centred on cell {"b" if ri == 0 else "c"} '
                                                f'({S.vshow(S.ObjV("HypergeometricDistribution", h))}); equivalent only with swapped tails - not analysed')
    ctx.extra_cov['fisher_parametrisation'] = vname
    ctx.extra_cov['fisher_relErr'] = str(tau)
    for label, c, s, d in rows:
        construct = f'{PK}::fisherExactTest::{label}'
        if d is None:
            ctx.ok('R4', construct, f'equals the definition under {vname}, relErr = {S._show_frac(tau)}')
        else:
            ctx.bad('R4', construct, f'{label} returned by fisherExactTest differs from the definition of Fisher\'s exact test (R fisher.test; closest '
                                     f'parametrisation {vname}): {d}', PK, d7.line)
    # NaN only for tables with an empty margin
    c = [_sym(x) for x in CELLS]
    zero = S.Rat.const(0)
    degenerate = S.b_or(S.mk_cmp('<=', S.r_add(S.r_add(c[0], c[1]), S.r_add(c[2], c[3])), zero), S.mk_cmp('<=', S.r_add(c[0], c[1]), zero),
                        S.mk_cmp('<=', S.r_add(c[2], c[3]), zero), S.mk_cmp('<=', S.r_add(c[0], c[2]), zero), S.mk_cmp('<=', S.r_add(c[1], c[3]), zero))
    early = [(cnd, g) for cnd, g, _i in res.guards if isinstance(g, S.RetV)]
    for k, (cnd, g) in enumerate(early):
        construct = f'{PK}::fisherExactTest::early return #{k + 1} only for tables with an empty margin'
        ctx.need(S.free_syms(cnd) <= set(CELLS), f'{PK}::fisherExactTest: early return depends on more than the cell counts; not analysed')
        w = S.bool_implies_cex(cnd, degenerate)
        if w is None:
            ctx.ok('R4', construct, S.vshow(cnd))
        else:
            ctx.bad('R4', construct, f'fisherExactTest returns {short(S.vshow(g.value), 60)} without computing the test when {w.describe()} - a table whose '
                                     f'row and column sums are all positive', PK, d7.line)
    ctx.check(len(early) <= 1, 'R4', f'{PK}::fisherExactTest::at most one short-circuit', f'{len(early)} early returns', PK, d7.line)
    # the engine calls the 4-argument overload
    v4 = T['fisher4'].value
    construct = f'{PK}::fisherExactTest(a, b, c, d)::delegates with odds ratio 1, confidence 0.95, two.sided'
    ctx.need(isinstance(v4, S.ObjV) and v4.cls == 'call:fisherExactTest' and len(v4.args) == 7,
             f'{PK}::fisherExactTest(a, b, c, d): body is not a call of the 7-parameter overload: {short(S.vshow(v4), 100)}')
    perms = invariant_perms(ctx)
    cells_ok = all(isinstance(a, S.Rat) for a in v4.args[:4]) and any(all(S.r_eq(a, _sym(CELLS[p[i]])) for i, a in enumerate(v4.args[:4])) for p in perms)
    o, cl, alt = v4.args[4:]
    problems = []
    if not cells_ok:
        problems.append(f'cells forwarded as ({", ".join(S.vshow(a) for a in v4.args[:4])})')
    if not (isinstance(o, S.Rat) and o.is_const() and o.const_value() == FISHER_DEFAULTS[0]):
        problems.append(f'null odds ratio {S.vshow(o)} instead of 1')
    if not (isinstance(cl, S.Rat) and cl.is_const() and cl.const_value() == FISHER_DEFAULTS[1]):
        problems.append(f'confidence level {S.vshow(cl)} instead of 0.95 (the fields are named ci_95_*)')
    if not (isinstance(alt, S.StrV) and alt.v == FISHER_DEFAULTS[2]):
        problems.append(f'alternative {S.vshow(alt)} instead of "two.sided"')
    ctx.check(not problems, 'R4', construct, 'the overload the engine calls passes ' + '; '.join(problems), PK, T['fisher4.def'].line)


# ======================================================================================
# R5 p-value range (structural half)
# ======================================================================================


def _normalised_family(fam: S.Fam) -> bool:
    """elem(i) = e(i) / SUM_j e(j) over the same index range."""
    el = fam.elem
    if not isinstance(el, S.Rat) or el.d.is_const():
        return False
    at = S.atom_of(S.Rat(el.d, S.ONE, 'D'))
    if at is None or at[0] != 'Σ' or not isinstance(at[1][0], S.Fam):
        return False
    inner: S.Fam = at[1][0]
    if inner.pred is not None or not S.r_eq(inner.n, fam.n) or not isinstance(inner.elem, S.Rat):
        return False
    return S.r_eq(S.vsubst(inner.elem, {inner.idx: S.Rat.sym(fam.idx, 'I')}), S.Rat(el.n, S.ONE, 'D'))


def unclamp(v: Any) -> Any:
    """A probability clamped to [0, 1] is, mathematically, the probability: min(X, 1) / max(X, 0) at the root of a p-value are looked through when the
    value is compared with its definition (R5 separately records whether the clamp is there)."""
    if isinstance(v, S.Ite):
        return S.mk_ite(v.c, unclamp(v.a), unclamp(v.b))
    if isinstance(v, S.MatchV):
        return S.MatchV(v.scrut, [(c, unclamp(x)) for c, x in v.arms], None if v.default is None else unclamp(v.default))
    at = S.atom_of(v)
    if at is not None and at[0] in ('min', 'max') and len(at[1]) == 2:
        bound = Fraction(1) if at[0] == 'min' else Fraction(0)
        consts = [a for a in at[1] if isinstance(a, S.Rat) and a.is_const() and a.const_value() == bound]
        others = [a for a in at[1] if not (isinstance(a, S.Rat) and a.is_const())]
        if len(consts) == 1 and len(others) == 1:
            return unclamp(others[0])
    return v


def _clamped_above(v: Any) -> bool:
    at = S.atom_of(v)
    if at is None or len(at[1]) != 2:
        return False
    if at[0] == 'min':
        return any(isinstance(a, S.Rat) and a.is_const() and a.const_value() <= 1 for a in at[1])
    if at[0] == 'max':
        return any(_clamped_above(a) for a in at[1] if not (isinstance(a, S.Rat) and a.is_const())) and \
            all(a.const_value() <= 1 for a in at[1] if isinstance(a, S.Rat) and a.is_const())
    return False


def classify_p(v: Any) -> List[Tuple[str, str]]:
    """[(verdict, description)] over the leaves of a p-value: ok:const | ok:lib | ok:clamped | nan | bad:<why> | unknown:<what>."""
    out: List[Tuple[str, str]] = []
    for leaf in _leaves(v):
        if not isinstance(leaf, S.Rat):
            out.append(('unknown', short(S.vshow(leaf), 80)))
            continue
        if leaf.is_const():
            out.append(('ok:const', S.vshow(leaf)) if 0 <= leaf.const_value() <= 1 else ('bad', f'the constant {S.vshow(leaf)} outside [0, 1]'))
            continue
        if leaf.as_single_symbol() == 'NaN':
            out.append(('nan', 'NaN'))
            continue
        at = S.atom_of(leaf)
        if at is not None and at[0] in LIB_TAILS:
            out.append(('ok:lib', at[0]))
        elif _clamped_above(leaf):
            out.append(('ok:clamped', short(S.vshow(leaf), 80)))
        elif at is not None and at[0] == 'Σ' and isinstance(at[1][0], S.Fam) and _normalised_family(at[1][0]):
            fam = at[1][0]
            sel = 'restricted by a filter' if fam.pred is not None else 'over the whole family'
            out.append(('bad', f'an unclamped floating-point sum of normalised densities e(i) / SUM e ({sel}): the selection can be the whole family, whose '
                               f'terms add up to 1 only up to rounding'))
        else:
            out.append(('unknown', short(S.vshow(leaf), 100)))
    return out


def rule_r5_package(ctx: Ctx, T: Dict[str, Any]) -> None:
    f, G = T['pkg']
    # chi-squared
    fields = [n for n, _t in _struct_fields(ctx, f, 'chisqStruct')]
    _r5_report(ctx, PK, 'chiSquaredTest', 'p_value', classify_p(_arr(ctx, T['chisq'].value, 2, 'chiSquaredTest')[fields.index('p_value')]), False)
    # Fisher as the engine runs it: the 4-argument overload's constants
    v4 = T['fisher4'].value
    ctx.need(isinstance(v4, S.ObjV) and len(v4.args) == 7, f'{PK}::fisherExactTest(a, b, c, d): not a 7-argument delegate')
    d7: S.Def = T['fisher7.def']
    res = T['fisher7']
    ffields = [n for n, _t in _struct_fields(ctx, f, 'fetStruct')]
    j = ffields.index('p_value')
    o, cl, alt = v4.args[4:]
    pv = _arr(ctx, res.value, 4, 'fisherExactTest')[j]
    if isinstance(pv, S.MatchV) and isinstance(alt, S.StrV) and isinstance(o, S.Rat) and isinstance(cl, S.Rat) and o.is_const() and cl.is_const() \
            and alt.v in [c for c, _x in pv.arms]:
        # instantiate the symbolic result with the constants of the engine-visible overload (conditions on them fold)
        pv = S.vsubst(dict(pv.arms)[alt.v], {'oddsRatio': o.retag('D'), 'confidenceLevel': cl.retag('D')})
    else:
        it = _interp(f'{PK}::fisherExactTest[engine call]', G)
        args = {p[0]: it.coerce(v, p[1]) for p, v in zip(d7.params, v4.args)}
        res = it.run_def(d7, args)
        pv = _arr(ctx, res.value, 4, 'fisherExactTest')[j]
    has_assert = any(lit == Fraction('1.000000000002') for lit in _all_literals(d7))
    _r5_report(ctx, PK, 'fisherExactTest', 'p_value', classify_p(pv), False, asserts=['1.000000000002'] if has_assert else [])
    for k, (_c, g, _i) in enumerate(res.guards):
        if isinstance(g, S.RetV):
            _r5_report(ctx, PK, f'fisherExactTest early return #{k + 1}', 'p_value', classify_p(_arr(ctx, g.value, 4, 'fisherExactTest')[j]), True)
    # contingencyTableTest returns what the two tests return
    ctx.ok('R5', f'{PK}::contingencyTableTest::p_value forwarded from chiSquaredTest / fisherExactTest', None)


def _r5_report(ctx: Ctx, rel: str, fname: str, fld: str, cls: List[Tuple[str, str]], nan_ok: bool, asserts: Sequence[str] = ()) -> None:
    unknown = [d for v, d in cls if v == 'unknown']
    ctx.need(not unknown, f'{rel}::{fname}: cannot classify the value stored in {fld}: {unknown[:1]}')
    bad = [d for v, d in cls if v == 'bad'] + ([] if nan_ok else [f'NaN on a non-degenerate path' for v, _d in cls if v == 'nan'])
    construct = f'{rel}::{fname}::{fld} slot within [0, 1] by construction'
    if bad:
        extra = ''
        if asserts:
            extra = ' (the routine itself only asserts an upper bound of 1.000000000002, and Scala assertions can be elided)' if any('1.000000000002' in a or '500000000001' in a for a in asserts) else ''
        ctx.bad('R5', construct, f'the {fld} returned by {fname} is {bad[0]}; it is returned without a clamp{extra}', rel, 0)
    else:
        ctx.ok('R5', construct, sorted({v for v, _d in cls}))


# ======================================================================================
# R6 Hardy-Weinberg / Levene-Haldane (and the LeveneHaldane half of R5)
# ======================================================================================


def lh_ratio_right() -> S.Rat:
    """P(k + 2) / P(k) derived from the pmf definition: every factorial argument moves by an integer when k -> k + 2, so the quotient of factorials
    is a finite product; nothing is summed or sampled."""
    env = {'k': S.Rat.sym('k', 'D'), 'nA': S.Rat.sym('nA', 'D'), 'nB': S.r_sub(S.r_mul(S.Rat.const(2, 'D'), S.Rat.sym('n', 'D')), S.Rat.sym('nA', 'D'))}
    it = _interp('SPEC LeveneHaldane pmf', {})
    it.genv.d.update(env)
    k2 = {'k': S.r_add(env['k'], S.Rat.const(2, 'D'))}

    def ev(text: str) -> S.Rat:
        return it.as_rat(it.eval(S.parse_expr(text, 'SPEC LeveneHaldane pmf'), it.genv))
    e = ev(LH_PMF_POW2_EXPONENT)
    de = S.r_sub(S.vsubst(e, k2), e)
    if not (de.is_const() and de.const_value().denominator == 1):
        raise AnalysisError('SPEC LeveneHaldane: exponent of 2 does not move by an integer')
    ratio = S.Rat.const(Fraction(2) ** int(de.const_value()), 'D')
    for text in LH_PMF_DEN_FACTORIALS:
        x = ev(text)
        s = S.r_sub(S.vsubst(x, k2), x)
        if not (s.is_const() and s.const_value().denominator == 1):
            raise AnalysisError(f'SPEC LeveneHaldane: factorial argument {text} does not move by an integer')
        s = int(s.const_value())
        # contribution x! / (x + s)!
        if s > 0:
            for j in range(1, s + 1):
                ratio = S.r_truediv(ratio, S.r_add(x, S.Rat.const(j, 'D')))
        else:
            for j in range(0, -s):
                ratio = S.r_mul(ratio, S.r_sub(x, S.Rat.const(j, 'D')))
    return ratio


def lh_mode_argument(ratio: S.Rat) -> S.Rat:
    """The pmf increases while ratio(k) >= 1; numerator - denominator of (ratio - 1) is linear in k with root k0; the mode is the support point in
    (k0, k0 + 2], i.e. the support point nearest to x = k0 + 1."""
    diff = ratio.n - ratio.d
    c1 = S.Poly({tuple(s for s in m if s != 'k'): c for m, c in diff.t.items() if m.count('k') == 1})
    c0 = S.Poly({m: c for m, c in diff.t.items() if 'k' not in m})
    if any(m.count('k') > 1 for m in diff.t) or not c1.t:
        raise AnalysisError('SPEC LeveneHaldane: ratio - 1 is not linear in k')
    k0 = S.r_truediv(S.Rat(-c0, S.ONE, 'D'), S.Rat(c1, S.ONE, 'D'))
    return S.r_add(k0, S.Rat.const(1, 'D'))


def _class_env(ctx: Ctx, g: S.ScalaFile) -> Tuple[Dict[str, Any], List[str]]:
    env: Dict[str, Any] = {}
    names = []
    for nm, ty, _d in g.class_params('LeveneHaldane'):
        names.append(nm)
        if ty.replace(' ', '').startswith(('LazyList[', 'Stream[')):
            env[nm] = S.SeqV(('sym', nm))
        else:
            env[nm] = S.input_value(nm, ty)
    for need in ('n', 'nA', 'mode', 'pRU', 'pLU', 'pN'):
        ctx.need(need in env, f'{LHF}::class LeveneHaldane: constructor parameter `{need}` vanished')
    return env, names


def rule_r6(ctx: Ctx, T: Dict[str, Any]) -> None:
    f, _G = T['pkg']
    # (a) hardyWeinbergTest
    fields = [n for n, _t in _struct_fields(ctx, f, 'hweStruct')]
    code = list(_arr(ctx, T['hwe'].value, 2, 'hardyWeinbergTest'))
    if 'p_value' in fields and len(code) == len(fields):
        code[fields.index('p_value')] = unclamp(code[fields.index('p_value')])
    spec = _arr(ctx, _spec_value(SPEC_HWE, 'hwe').value, 2, 'SPEC hwe')
    compare_slots(ctx, 'R6', PK, 'hardyWeinbergTest', code, fields, spec, SPEC_HWE_FIELDS, 'hweStruct')

    g = S.load(LHF)
    # (b) companion object: LeveneHaldane(n, nA) -> new LeveneHaldane(n, nA, mode, pRU, pLU, pN, rng)
    O = LazyDefs(g, 'object', 'LeveneHaldane', skip=list(OPAQUE_FNS) + ['LeveneHaldane'])
    ctx.need('apply' in O, f'anchor vanished: {LHF}::object LeveneHaldane.apply')
    d2 = _one_def(ctx, O['apply'], 2, f'{LHF}::LeveneHaldane.apply')
    d3 = _one_def(ctx, O['apply'], 3, f'{LHF}::LeveneHaldane.apply')
    it = _interp(f'{LHF}::LeveneHaldane.apply', O)
    v2 = it.run_def(d2, _bind(d2, ['n', 'nA'])).value
    construct = f'{LHF}::LeveneHaldane.apply(n, nA)::delegates to apply(n, nA, rng)'
    ok2 = isinstance(v2, S.ObjV) and v2.cls == 'LeveneHaldane' and len(v2.args) == 3 and isinstance(v2.args[0], S.Rat) and isinstance(v2.args[1], S.Rat) \
        and S.r_eq(v2.args[0], _sym('n')) and S.r_eq(v2.args[1], _sym('nA'))
    ctx.check(ok2, 'R6', construct, f'LeveneHaldane(n, nA) builds {short(S.vshow(v2), 100)} instead of LeveneHaldane(n, nA, <rng>)', LHF, d2.line)
    it = _interp(f'{LHF}::LeveneHaldane.apply', O)
    it.erase_negligible_cuts = True
    r3 = it.run_def(d3, _bind(d3, ['n', 'nA', 'rng']))
    v3 = r3.value
    cenv, cnames = _class_env(ctx, g)
    ctx.need(isinstance(v3, S.ObjV) and v3.cls == 'LeveneHaldane' and len(v3.args) == len(cnames),
             f'{LHF}::LeveneHaldane.apply: result is not `new LeveneHaldane(...)` with {len(cnames)} arguments')
    ctor = dict(zip(cnames, v3.args))
    where = f'{LHF}::LeveneHaldane.apply'
    for nm in ('n', 'nA'):
        ctx.check(isinstance(ctor[nm], S.Rat) and S.r_eq(ctor[nm], _sym(nm)), 'R6', f'{where}::constructor argument {nm}',
                  f'the constructor parameter `{nm}` receives {short(S.vshow(ctor[nm]), 80)}', LHF, d3.line)
    ratio = lh_ratio_right()
    n_, nA_ = S.Rat.sym('n', 'D'), S.Rat.sym('nA', 'D')
    parity = S.mk_mod(_sym('nA'), S.Rat.const(2))
    x = lh_mode_argument(ratio)
    want_mode = S.r_add(S.r_mul(S.Rat.const(2), S.atom('round', [S.r_truediv(S.r_sub(x, parity), S.Rat.const(2, 'D'))], 'I')), parity)
    mode = ctor['mode']
    _cmp(ctx, 'R6', f'{where}::mode = parity + 2 round((x - parity) / 2), x = 1 + root of P(k+2)/P(k) = 1', mode, want_mode, LHF,
         'the mode handed to the constructor is not the support point nearest to x = (nA + 1)(nB + 1)/(2n + 3) (derived from the pmf ratio); the streams are '
         'seeded with 1.0 there and the relative truncations assume it is the maximum')
    left_ratio = S.r_truediv(S.Rat.const(1, 'D'), S.vsubst(ratio, {'k': S.r_sub(S.Rat.sym('k', 'D'), S.Rat.const(2, 'D'))}))
    streams = {}
    for nm, step, want, label in (('pRU', 2, ratio, 'P(k + 2) / P(k) = (nA - k)(nB - k) / ((k + 2)(k + 1))'),
                                  ('pLU', -2, left_ratio, 'P(k - 2) / P(k) = k (k - 1) / ((nA - k + 2)(nB - k + 2))')):
        sv = ctor[nm]
        construct = f'{where}::stream {nm}'
        ctx.need(isinstance(sv, S.SeqV) and sv.base[0] == 'gen' and not sv.ops and len(sv.base[2]) == 2 and sv.base[1] in it.stream_defs,
                 f'{where}: constructor argument {nm} is not a recursive stream `f(start, p0)`: {short(S.vshow(sv), 80)}')
        streams[nm] = sv
        start, p0 = sv.base[2]
        ctx.check(isinstance(start, S.Rat) and S.r_eq(start, mode) and isinstance(p0, S.Rat) and p0.is_const() and p0.const_value() == 1, 'R6',
                  construct + ' starts at the mode with 1.0', f'{nm} = {S.vshow(sv)}: must start at (mode, 1.0)', LHF, d3.line)
        dv = it.stream_defs[sv.base[1]]
        ctx.need(len(dv.d.params) == 2, f'{where}: stream def {dv.d.name} does not take (k, p)')
        sub = S.Interp(f'{where}.{dv.d.name}', O, OPAQUE_FNS, ['LeveneHaldane'], OBJ_METHODS)
        body = sub.run_def(dv.d, _bind(dv.d, ['k', 'p']), env=dv.env).value
        ctx.need(isinstance(body, S.ConsV) and isinstance(body.tail, S.RecCall) and body.tail.name == dv.d.name and len(body.tail.args) == 2
                 and all(isinstance(a, S.Rat) for a in body.tail.args) and isinstance(body.head, S.Rat),
                 f'{where}.{dv.d.name}: body is not `p #:: {dv.d.name}(k + step, p * ratio)`')
        k2, p2 = body.tail.args
        p = S.Rat.sym('p', 'D')
        okh = S.r_eq(body.head, p)
        oks = S.r_eq(k2, S.r_add(_sym('k'), S.Rat.const(step)))
        got = S.r_truediv(p2, p)
        okr = S.r_eq(got, want)
        ctx.check(okh and oks, 'R6', f'{where}.{dv.d.name}::emits p and moves k by {step:+d}',
                  f'{dv.d.name}(k, p) = {S.vshow(body)}: the stream bound to {nm} must emit p and continue at k {step:+d}', LHF, dv.d.line)
        ctx.check(okr, 'R6', f'{where}.{dv.d.name}::ratio {label}',
                  f'{dv.d.name} multiplies p by {S.vshow(got)}; the Levene-Haldane pmf gives {label} = {S.vshow(want)}', LHF, dv.d.line)
    want_pn = S.r_sub(S.r_add(S.atom('Σseq', [streams['pRU']], 'D'), S.atom('Σseq', [streams['pLU']], 'D')), S.Rat.const(1, 'D'))
    _cmp(ctx, 'R6', f'{where}::normaliser pN = sum(pRU) + sum(pLU) - 1', ctor['pN'], want_pn, LHF,
         'pN must be the total unnormalised mass: both streams summed, the mode (1.0, present in both) counted once')

    # (c) class methods against their definitions
    C = LazyDefs(g, 'class', 'LeveneHaldane', skip=list(OPAQUE_FNS) + ['LeveneHaldane'])
    spec_defs = S.parse_defs(SPEC_LH_CLASS, 'SPEC LeveneHaldane')

    def code_val(name: str, npar: int, names: Sequence[str]) -> Tuple[Any, S.Def]:
        ctx.need(name in C, f'anchor vanished: {LHF}::LeveneHaldane.{name}')
        d = _one_def(ctx, C[name], npar, f'{LHF}::LeveneHaldane.{name}')
        ci = S.Interp(f'{LHF}::LeveneHaldane.{name}', C, OPAQUE_FNS, ['LeveneHaldane'], OBJ_METHODS)
        ci.genv.d.update(cenv)
        ci.erase_negligible_cuts = True
        v = ci.run_def(d, _bind(d, names)).value
        for e in ci.erased:
            if e not in erased:
                erased.append(e)
        return v, d

    def spec_val(name: str, names: Sequence[str], extra: Optional[Dict[str, Any]] = None) -> Any:
        si = S.Interp('SPEC LeveneHaldane.' + name, spec_defs, OPAQUE_FNS, ['LeveneHaldane'], OBJ_METHODS)
        si.genv.d.update(cenv)
        d = spec_defs[name][0]
        a = {p[0]: S.input_value(nm, p[1]) for p, nm in zip(d.params, names)}
        a.update(extra or {})
        return si.run_def(d, a).value

    erased: List[str] = list(it.erased)
    vals: Dict[str, Any] = {}
    for cname, npar, sname, names, what in (
            ('probability', 1, 'probability', ['k'], 'P(X = k): 0 off the support, else the stream element of k over pN'),
            ('cumulativeProbability', 2, 'interval', ['n0', 'n1'], 'P(n0 < X <= n1): the stream slices covering (n0, n1] over pN'),
            ('rightMidP', 1, 'rightMidP', ['k'], 'P(X > k) + P(X = k) / 2'),
            ('getNumericalMean', 0, 'mean', [], 'E[X] = nA nB / (2n - 1)')):
        v, d = code_val(cname, npar, names)
        vals[cname] = v
        _cmp(ctx, 'R6', f'{LHF}::LeveneHaldane.{cname}::{what}', unclamp(v) if cname != 'getNumericalMean' else v, spec_val(sname, names), LHF,
             f'LeveneHaldane.{cname} is not {what}')
    v, d = code_val('exactMidP', 1, ['k'])
    vals['exactMidP'] = v
    v = unclamp(v)
    sv = spec_val('exactMidP', ['k', 'TOL$'])
    tols = _tolerance_candidates(d, Fraction(1, 10 ** 15), Fraction(1, 10 ** 6), Fraction(1, 10 ** 12))
    diffs = [S.vdiff(v, S.vsubst(sv, {'TOL$': S.Rat.const(t, 'D')})) for t in tols]
    construct = f'{LHF}::LeveneHaldane.exactMidP::P(less likely than k) + P(as likely as k) / 2'
    if any(x is None for x in diffs):
        ctx.ok('R6', construct, f'tie tolerance {S._show_frac(tols[[x is None for x in diffs].index(True)])}')
    else:
        ctx.bad('R6', construct, f'LeveneHaldane.exactMidP is not the mid-p sum over the outcomes at most as likely as the observed one (ties weighted 1/2): {diffs[0]}', LHF, d.line)
    ctx.extra_cov['relative_truncations_treated_as_exact'] = erased
    if erased:
        ctx.assume('stream truncations `takeWhile(_ > c)` whose coefficients are <= 1e-15 (relative to the leading term 1.0) are numerical devices, treated as exact: '
                   + '; '.join(short(e, 70) for e in erased[:4]))
    T['lh.vals'] = vals


def _seq_kind(seq: S.SeqV) -> Tuple[str, Any]:
    """('index', None) for position-selected streams, ('ties' | 'rest', pivot) for the magnitude-selected parts of a non-increasing stream."""
    ops = [op for op in seq.ops if not (op[0] == 'drop')]

    def pred(op: tuple, fname: str) -> Any:
        fn = op[1]
        if isinstance(fn, S.FnV) and len(fn.params) == 1 and isinstance(fn.body, S.BoolV) and fn.body.node[0] == 'app':
            nm, args = S._BAPPS[fn.body.node[1]]
            if nm == fname and len(args) >= 2 and isinstance(args[0], S.Rat) and args[0].as_single_symbol() == fn.params[0]:
                return args[1]
        return None
    if len(ops) == 2 and ops[0][0] == 'dropWhile' and pred(ops[0], 'D_>') is not None:
        piv = pred(ops[0], 'D_>')
        p2 = pred(ops[1], 'D_==')
        if p2 is not None and S.veq(piv, p2):
            if ops[1][0] == 'takeWhile':
                return 'ties', piv
            if ops[1][0] == 'dropWhile':
                return 'rest', piv
        return 'unknown', None
    if all(op[0] in ('slice', 'take') for op in ops):
        return 'index', None
    return 'unknown', None


def rule_r5_lh(ctx: Ctx, T: Dict[str, Any]) -> None:
    f, _G = T['pkg']
    fields = [n for n, _t in _struct_fields(ctx, f, 'hweStruct')]
    pv = _arr(ctx, T['hwe'].value, 2, 'hardyWeinbergTest')[fields.index('p_value')]
    used = []
    for leaf in _leaves(pv):
        if _clamped_above(leaf):
            ctx.ok('R5', f'{PK}::hardyWeinbergTest::p_value clamped', short(S.vshow(leaf), 80))
            continue
        at = S.atom_of(leaf)
        ctx.need(at is not None and at[0].startswith('LeveneHaldane.'), f'{PK}::hardyWeinbergTest: p_value is not a LeveneHaldane method: {short(S.vshow(leaf), 80)}')
        used.append(at[0].split('.', 1)[1])
    ctx.ok('R5', f'{PK}::hardyWeinbergTest::p_value forwarded from LeveneHaldane.' + ' / '.join(sorted(set(used))), None)
    pn = S.Rat.sym('pN', 'D')
    for m in sorted(set(used)):
        ctx.need(m in T['lh.vals'], f'{LHF}::LeveneHaldane.{m}: not analysed')
        verdicts = []
        for leaf in _leaves(T['lh.vals'][m]):
            ctx.need(isinstance(leaf, S.Rat), f'{LHF}::LeveneHaldane.{m}: non-numeric result')
            if leaf.is_const():
                verdicts.append(('ok', 'const') if 0 <= leaf.const_value() <= 1 else ('bad', f'constant {S.vshow(leaf)}'))
                continue
            if _clamped_above(leaf):
                verdicts.append(('ok', 'clamped'))
                continue
            ctx.need(leaf.d == pn.n, f'{LHF}::LeveneHaldane.{m}: result is not <sum> / pN')
            num = S.Rat(leaf.n, S.ONE, 'D')
            kinds = []
            for mono, c in num.n.t.items():
                ctx.need(len(mono) == 1 and S.ATOMS.get(mono[0]) is not None, f'{LHF}::LeveneHaldane.{m}: numerator term {mono} is not a stream sum / element')
                fn, args, _ty = S.ATOMS.get(mono[0])
                if fn == 'elem':
                    kinds.append(('index', None, c))
                elif fn == 'Σseq' and isinstance(args[0], S.SeqV):
                    k, piv = _seq_kind(args[0])
                    kinds.append((k, piv, c))
                else:
                    kinds.append(('unknown', None, c))
            ctx.need(all(k != 'unknown' for k, _p, _c in kinds), f'{LHF}::LeveneHaldane.{m}: unrecognised stream selection in {short(S.vshow(leaf), 100)}')
            idx_sums = [1 for (k, _p, _c), mono in zip(kinds, num.n.t) if k == 'index' and S.ATOMS.get(mono[0])[0] == 'Σseq']
            if not idx_sums and all(k == 'index' for k, _p, _c in kinds):
                # point masses only: each is one element of the normaliser's own summands divided by the normaliser
                verdicts.append(('ok', 'point mass') if sum(c for _k, _p, c in kinds) <= 1 else ('bad', f'point masses with total weight > 1: {S.vshow(leaf)}'))
            elif idx_sums:
                verdicts.append(('bad', 'a sum of separately rounded, position-selected pieces of the normalised mass function (' + short(S.vshow(leaf), 110) +
                                 '): the pieces can cover the whole support except half of an arbitrarily improbable outcome, so the total is 1 only up to rounding'))
            else:
                pivs = [p for _k, p, _c in kinds]
                same = all(S.veq(pivs[0], p) for p in pivs[1:])
                half = all(c <= Fraction(1, 2) for k, _p, c in kinds if k == 'ties') and all(c <= 1 for _k, _p, c in kinds)
                ctx.need(same, f'{LHF}::LeveneHaldane.{m}: several pivots')
                verdicts.append(('ok', 'pivot-excluding magnitude selection') if half else
                                ('bad', 'a magnitude-selected sum that counts its pivot term fully: it can be the whole normalised family'))
        bad = sorted([d for v, d in verdicts if v == 'bad'], key=len, reverse=True)
        construct = f'{LHF}::LeveneHaldane.{m}::p_value within [0, 1] by construction'
        if bad:
            ctx.bad('R5', construct, f'LeveneHaldane.{m} returns {bad[0]}; it is returned (and stored in hardy_weinberg_test.p_value) without a clamp', LHF, 0)
        else:
            ctx.ok('R5', construct, sorted({d for _v, d in verdicts}))


# ======================================================================================
# R7 wiring: registry <-> Scala routine <-> Python wrapper
# ======================================================================================

# Python-visible name -> (Scala routine, result struct).  The NAMES are the contract (Apply(name, ...) is resolved through the registry).
WIRING = {
    'fisher_exact_test': ('fisherExactTest', 'fetStruct', 'fisher4'),
    'chi_squared_test': ('chiSquaredTest', 'chisqStruct', 'chisq'),
    'contingency_table_test': ('contingencyTableTest', 'chisqStruct', 'ctt'),
    'hardy_weinberg_test': ('hardyWeinbergTest', 'hweStruct', 'hwe'),
}
SCALA_TO_VIRTUAL = {'Int': 'TInt32', 'Boolean': 'TBoolean', 'Double': 'TFloat64', 'Long': 'TInt64'}
SVALUE_TO_VIRTUAL = {'SInt32Value': 'TInt32', 'SBooleanValue': 'TBoolean', 'SFloat64Value': 'TFloat64', 'SInt64Value': 'TInt64'}
PY_CHECKER_TO_VIRTUAL = {'expr_int32': 'TInt32', 'expr_bool': 'TBoolean', 'expr_float64': 'TFloat64', 'expr_int64': 'TInt64'}
PHYS_TO_PY = {'PFloat64': 'tfloat64', 'PInt32': 'tint32', 'PBoolean': 'tbool', 'PInt64': 'tint64'}


def _walk(e: Any):
    if isinstance(e, tuple):
        yield e
        for x in e:
            yield from _walk(x)
    elif isinstance(e, list):
        for x in e:
            yield from _walk(x)


def _same_order(ctx: Ctx, passed: List[str], params: List[str], table: bool) -> bool:
    """Arguments forwarded in declaration order - for the 2x2 tests up to a permutation of the four cells under which every returned field is invariant."""
    if passed == params:
        return True
    if not table or len(passed) != len(params) or len(params) < 4 or passed[4:] != params[4:] or sorted(passed[:4]) != sorted(params[:4]):
        return False
    perm = tuple(params.index(x) for x in passed[:4])
    return perm in invariant_perms(ctx)


def registration(ctx: Ctx, name: str) -> Dict[str, Any]:
    m = S.load(MF)
    regs = m.calls_with_first_string('register', name)
    ctx.need(len(regs) == 1, f'{MF}: expected exactly one registration of "{name}", found {len(regs)}')
    fn, e, line = regs[0]
    where = f'{MF}::{fn}("{name}")'
    ctx.need(fn.startswith('registerSCode') and fn[len('registerSCode'):].isdigit(), f'{where}: registration helper {fn} not recognised')
    n = int(fn[len('registerSCode'):])
    ctx.need(e[0] == 'call' and len(e[2]) == 1 and S.strip(e[2][0][1])[0] == 'caselam' and S.strip(e[1])[0] == 'call', f'{where}: not `{fn}(...) {{ case (...) => ... }}`')
    head = S.strip(e[1])
    hargs = [S.strip(a) for _kw, a in head[2]]
    ctx.need(len(hargs) == n + 3, f'{where}: expected name, {n} argument types, return type, return-type function; found {len(hargs)} arguments')
    types = []
    for a in hargs[1:1 + n]:
        ctx.need(a[0] == 'name', f'{where}: argument type `{S.show_ast(a)}` is not a simple virtual type')
        types.append(a[1])
    rt = hargs[1 + n]
    ctx.need(rt[0] == 'sel' and rt[2] == 'virtualType' and S.strip(rt[1])[0] == 'name', f'{where}: return type is not <struct>.virtualType')
    st = hargs[2 + n]
    ctx.need(st[0] == 'lambda' and S.strip(st[2])[0] == 'sel' and S.strip(st[2])[2] == 'sType' and S.strip(S.strip(st[2])[1])[0] == 'name',
             f'{where}: return SType function is not `(...) => <struct>.sType`')
    arms = S.strip(e[2][0][1])[1]
    ctx.need(len(arms) == 1 and arms[0][0][0] == 'ptuple', f'{where}: implementation is not a single `case (...) =>` arm')
    params = [(p[1], p[2]) for p in arms[0][0][1] if p[0] == 'ptyped' and p[1]]
    body = arms[0][1]
    invokes = [x for x in _walk(body) if x and x[0] == 'call' and (S.dotted(x[1]) or '').startswith('Code.invokeScalaObject')]
    ctx.need(len(invokes) == 1, f'{where}: expected exactly one Code.invokeScalaObjectN call, found {len(invokes)}')
    inv = invokes[0]
    targs = inv[1][2] if inv[1][0] == 'targ' else None
    iargs = [S.strip(a) for _kw, a in inv[2]]
    ctx.need(len(iargs) >= 2 and iargs[0][0] == 'name' and iargs[1][0] == 'str', f'{where}: invokeScalaObject(<class>, "<method>", ...) not recognised')
    passed = []
    for a in iargs[2:]:
        ctx.need(a[0] == 'sel' and a[2] == 'value' and S.strip(a[1])[0] == 'name', f'{where}: argument `{S.show_ast(a)}` is not <param>.value')
        passed.append(S.strip(a[1])[1])
    cons = [x for x in _walk(body) if x and x[0] == 'call' and S.strip(x[1])[0] == 'sel' and S.strip(x[1])[2] == 'constructFromFields']
    ctx.need(len(cons) == 1 and S.strip(S.strip(cons[0][1])[1])[0] == 'name', f'{where}: expected exactly one <struct>.constructFromFields(...)')
    seqs = [S.strip(a) for _kw, a in cons[0][2] if S.strip(a)[0] == 'call' and S.dotted(S.strip(a)[1]) in ('FastSeq', 'ArraySeq', 'IndexedSeq', 'Array')]
    ctx.need(len(seqs) == 1, f'{where}: field sequence of constructFromFields not recognised')
    res_names = {st_[1][1] for st_ in _walk(body) if st_ and st_[0] == 'val' and st_[1][0] == 'pid' and any(x is inv for x in _walk(st_[2]))}
    ctx.need(len(res_names) == 1, f'{where}: the result of the invoke is not bound to exactly one val')
    resn = next(iter(res_names))
    slots = []
    for _kw, a in seqs[0][2]:
        idx = [x for x in _walk(a) if x and x[0] == 'call' and S.strip(x[1]) == ('name', resn) and len(x[2]) == 1 and S.strip(x[2][0][1])[0] == 'num']
        ctx.need(len(idx) == 1, f'{where}: field value `{S.show_ast(a)}` is not built from {resn}(<literal index>)')
        slots.append(int(S.strip(idx[0][2][0][1])[1]))
    return dict(where=where, line=line, n=n, types=types, ret_struct=S.strip(rt[1])[1], stype_struct=S.strip(S.strip(st[2])[1])[1], params=params,
                klass=iargs[0][1], method=iargs[1][1], targs=targs, passed=passed, cons_struct=S.strip(S.strip(cons[0][1])[1])[1], slots=slots)


def _result_len(v: Any) -> Optional[int]:
    lens = set()
    for leaf in _leaves(v):
        if isinstance(leaf, S.ArrV):
            lens.add(len(leaf.items))
        else:
            return None
    return min(lens) if lens else None


def rule_r7(ctx: Ctx, T: Dict[str, Any]) -> None:
    f, G = T['pkg']
    structs = {s: _struct_fields(ctx, f, s) for s in ('fetStruct', 'chisqStruct', 'hweStruct')}
    pym = pf.load(PYF)
    for pyname, (routine, struct, tkey) in WIRING.items():
        reg = registration(ctx, pyname)
        w = reg['where']
        d: S.Def = T[tkey + '.def']
        want_types = [SCALA_TO_VIRTUAL.get(p[1].replace(' ', ''), '?' + p[1]) for p in d.params]
        ctx.check(reg['method'] == routine and reg['klass'] == 'statsPackageClass', 'R7', f'{w}::invokes is.hail.stats.{routine}',
                  f'"{pyname}" is bound to {reg["klass"]}.{reg["method"]} instead of statsPackageClass.{routine}', MF, reg['line'])
        ctx.check(reg['types'] == want_types, 'R7', f'{w}::argument types {want_types}',
                  f'"{pyname}" is registered with argument types {reg["types"]}; {routine}({", ".join(p[0] + ": " + p[1] for p in d.params)}) needs {want_types}', MF, reg['line'])
        pnames = [p for p, _t in reg['params']]
        ptypes = [SVALUE_TO_VIRTUAL.get(t, '?' + t) for _p, t in reg['params']]
        ctx.check(_same_order(ctx, reg['passed'], pnames, tkey != 'hwe') and ptypes == reg['types'], 'R7', f'{w}::arguments passed to {routine} in registration order',
                  f'the implementation binds the IR arguments as ({", ".join(pnames)}) : {ptypes} but passes ({", ".join(reg["passed"])}) to {routine}', MF, reg['line'])
        if reg['targs'] is not None:
            want_t = [p[1].replace(' ', '') for p in d.params] + [d.rtype.replace(' ', '')]
            ctx.check([t.replace(' ', '') for t in reg['targs']] == want_t, 'R7', f'{w}::invokeScalaObject type arguments select {routine}({len(d.params)} parameters)',
                      f'type arguments {reg["targs"]} do not select {routine}{tuple(p[1] for p in d.params)}: {d.rtype}', MF, reg['line'])
        same = reg['ret_struct'] == reg['stype_struct'] == reg['cons_struct'] == struct
        ctx.check(same, 'R7', f'{w}::declared, physical and constructed result type are {struct}',
                  f'"{pyname}": virtual type from {reg["ret_struct"]}, SType from {reg["stype_struct"]}, value built with {reg["cons_struct"]}; the routine fills {struct}', MF, reg['line'])
        nfields = len(structs[reg['cons_struct']]) if reg['cons_struct'] in structs else -1
        rl = _result_len(T[tkey].value) if tkey != 'ctt' and tkey != 'fisher4' else None
        ok_slots = reg['slots'] == list(range(nfields)) and (rl is None or rl >= nfields)
        ctx.check(ok_slots, 'R7', f'{w}::field j is filled from slot j of the returned array',
                  f'"{pyname}" fills the {nfields} field(s) of {reg["cons_struct"]} from array slots {reg["slots"]}' + (f' of an array of length {rl}' if rl is not None else ''),
                  MF, reg['line'])
        if tkey == 'ctt':
            # both delegates must put the fields of the declared struct in the same leading slots
            a, b = [n for n, _t in structs['chisqStruct']], [n for n, _t in structs['fetStruct']]
            k = len(structs[struct])
            ctx.check(a[:k] == b[:k] == [n for n, _t in structs[struct]], 'R7', f'{PK}::contingencyTableTest::both delegates agree on the leading slots of {struct}',
                      f'chiSquaredTest fills {a}, fisherExactTest fills {b}: slots 0..{k - 1} do not carry the same fields of {struct}', PK, 0)
        # ---- Python wrapper
        ctx.need(pym.has_func(pyname), f'anchor vanished: {PYF}::{pyname}')
        fn = pym.func(pyname)
        wpy = f'{PYF}::{pyname}'
        params = [a.arg for a in fn.args.args]
        ctx.need(not fn.args.vararg and not fn.args.kwarg and not fn.args.kwonlyargs and not fn.args.posonlyargs, f'{wpy}: signature shape not recognised')
        rets = [n for n in pf.walk_shallow(fn) if isinstance(n, ast.Return)]
        ctx.need(len(rets) == 1 and isinstance(rets[0].value, ast.Call) and pf.dotted(rets[0].value.func) == '_func' and not rets[0].value.keywords,
                 f'{wpy}: body does not end in a single `return _func(...)`')
        call = rets[0].value
        ctx.need(len(call.args) >= 2, f'{wpy}: _func call too short')
        ctx.check(pf.const_str(call.args[0]) == pyname, 'R7', f'{wpy}::applies the registry function "{pyname}"',
                  f'{pyname} emits Apply({pf.nsrc(call.args[0])}, ...)', pym.path, call.lineno)
        passed = [pf.nsrc(a) for a in call.args[2:]]
        ctx.check(_same_order(ctx, passed, params, tkey != 'hwe'), 'R7', f'{wpy}::parameters forwarded in registry order',
                  f'{pyname}({", ".join(params)}) passes ({", ".join(passed)}) to the engine function, whose arguments are ({", ".join(p[0] for p in d.params)})',
                  pym.path, call.lineno)
        rt = pf.resolve_expr(fn, call.args[1])
        ctx.need(isinstance(rt, ast.Call) and pf.dotted(rt.func) in ('tstruct', 'hl.tstruct') and not rt.args and all(k.arg for k in rt.keywords),
                 f'{wpy}: return type is not a tstruct(name=type, ...) literal')
        got = [(k.arg, pf.dotted(k.value) or pf.nsrc(k.value)) for k in rt.keywords]
        want = [(n, PHYS_TO_PY.get(t, '?' + t)) for n, t in structs[struct]]
        ctx.check([(n, t.split('.')[-1]) for n, t in got] == want, 'R7', f'{wpy}::declared tstruct equals {struct}',
                  f'{pyname} declares {got}; the engine returns {struct} = {want} (fields are positional in the encoded result)', pym.path, rt.lineno)
        tc = [dd for dd in pf.decorators(fn) if isinstance(dd, ast.Call) and pf.dotted(dd.func) == 'typecheck']
        ctx.need(len(tc) == 1 and not tc[0].args, f'{wpy}: @typecheck(name=checker, ...) not found')
        checkers = {k.arg: pf.dotted(k.value) or pf.nsrc(k.value) for k in tc[0].keywords}
        gotv = [PY_CHECKER_TO_VIRTUAL.get(checkers.get(p, '?'), '?' + str(checkers.get(p))) for p in params]
        ctx.check(gotv == reg['types'], 'R7', f'{wpy}::typecheck coerces to the registered argument types',
                  f'{pyname} coerces its parameters to {gotv}; the registry entry takes {reg["types"]}', pym.path, fn.lineno)
        defaults = {a.arg: pf.nsrc(dv) for a, dv in zip(fn.args.args[len(fn.args.args) - len(fn.args.defaults):], fn.args.defaults)}
        want_defaults = {'one_sided': 'False'} if pyname == 'hardy_weinberg_test' else {}
        ctx.check(defaults == want_defaults, 'R7', f'{wpy}::documented defaults {want_defaults or "none"}',
                  f'{pyname} has defaults {defaults}; documented: {want_defaults or "every argument required"}', pym.path, fn.lineno)
    # ---- aggregator
    am = pf.load(AGG)
    ctx.need(am.has_func('hardy_weinberg_test'), f'anchor vanished: {AGG}::hardy_weinberg_test')
    fn = am.func('hardy_weinberg_test')
    wag = f'{AGG}::hardy_weinberg_test'
    calls = [c for c in ast.walk(fn) if isinstance(c, ast.Call) and (pf.dotted(c.func) or '').endswith('hardy_weinberg_test')]
    ctx.need(len(calls) == 1, f'{wag}: expected exactly one call of hl.hardy_weinberg_test, found {len(calls)}')
    c = calls[0]
    bound: Dict[str, ast.AST] = {}
    order = ['n_hom_ref', 'n_het', 'n_hom_var', 'one_sided']
    for i, a in enumerate(c.args):
        bound[order[i]] = a
    for k in c.keywords:
        ctx.need(k.arg in order and k.arg not in bound, f'{wag}: keyword {k.arg} not recognised')
        bound[k.arg] = k.value
    keys = []
    for nm in order[:3]:
        a = bound.get(nm)
        ok = isinstance(a, ast.Call) and isinstance(a.func, ast.Attribute) and a.func.attr == 'get' and len(a.args) == 2 \
            and all(isinstance(x, ast.Constant) and isinstance(x.value, int) for x in a.args)
        ctx.need(ok, f'{wag}: argument {nm} is not <counts>.get(<k>, <default>)')
        keys.append((a.args[0].value, a.args[1].value))
    ctx.check(keys == [(0, 0), (1, 0), (2, 0)], 'R7', f'{wag}::(n_hom_ref, n_het, n_hom_var) = counts of 0, 1, 2 alternate alleles (default 0)',
              f'the aggregator passes the counts {[(f"n_alt_alleles == {k}", f"default {dflt}") for k, dflt in keys]} as (n_hom_ref, n_het, n_hom_var)', am.path, c.lineno)
    os_ = bound.get('one_sided')
    dflt = {a.arg: pf.nsrc(dv) for a, dv in zip(fn.args.args[len(fn.args.args) - len(fn.args.defaults):], fn.args.defaults)}
    ctx.check(isinstance(os_, ast.Name) and os_.id == 'one_sided' and dflt == {'one_sided': 'False'}, 'R7', f'{wag}::one_sided forwarded, default False',
              f'the aggregator passes one_sided={pf.nsrc(os_) if os_ is not None else "<default>"} with defaults {dflt}', am.path, c.lineno)
    counters = [x for x in ast.walk(fn) if isinstance(x, ast.Call) and pf.dotted(x.func) == 'counter']
    ctx.need(len(counters) == 1 and len(counters[0].args) == 1, f'{wag}: counter(...) not found')
    ca = counters[0].args[0]
    ctx.check(isinstance(ca, ast.Call) and isinstance(ca.func, ast.Attribute) and ca.func.attr == 'n_alt_alleles' and not ca.args, 'R7',
              f'{wag}::genotypes are counted by number of alternate alleles', f'counts are keyed by {pf.nsrc(ca)}', am.path, counters[0].lineno)
    rule_r7_variant_qc(ctx)


QC = 'hail/python/hail/methods/qc.py'


def rule_r7_variant_qc(ctx: Ctx) -> None:
    """variant_qc, the main in-tree caller: (n_hom_ref, n_het, n_hom_var) = (hom[0], AC[1] - 2 hom[1], hom[1]) for a biallelic site; the one-sided
    result feeds p_value_excess_het, the two-sided one p_value_hwe / het_freq_hwe."""
    from engines import linform as lf
    qm = pf.load(QC)
    ctx.need(qm.has_func('variant_qc'), f'anchor vanished: {QC}::variant_qc')
    fn = qm.func('variant_qc')
    w = f'{QC}::variant_qc'
    tuples = [t for t in ast.walk(fn) if isinstance(t, ast.Tuple) and t.elts and all(
        isinstance(c, ast.Call) and (pf.dotted(c.func) or '').endswith('hardy_weinberg_test') for c in t.elts)]
    ctx.need(len(tuples) == 1 and len(tuples[0].elts) == 2, f'{w}: the pair of hardy_weinberg_test calls was not found')
    sided = []
    for k, c in enumerate(tuples[0].elts):
        ctx.need(len(c.args) == 3 and all(kw.arg == 'one_sided' for kw in c.keywords), f'{w}: call #{k} is not hardy_weinberg_test(a, b, c[, one_sided=..])')
        a0, a1, a2 = c.args
        t0, t2 = pf.nsrc(a0), pf.nsrc(a2)
        ok = t0.endswith('homozygote_count[0]') and t2.endswith('homozygote_count[1]')
        if ok:
            try:
                l1 = lf.lin(a1)
                ac = [x for x in l1.symbols() if x.endswith('.AC[1]')]
                ok = len(ac) == 1 and l1 == lf.sym(ac[0]) - lf.lin(a2).scale(2)
            except AnalysisError:
                ok = False
        ctx.check(ok, 'R7', f'{w}::call #{k} passes (hom_ref, AC[1] - 2 hom_var, hom_var)',
                  f'variant_qc calls hardy_weinberg_test({t0}, {pf.nsrc(a1)}, {t2}): for a biallelic site n_hom_ref = homozygote_count[0], '
                  f'n_het = AC[1] - 2 * homozygote_count[1], n_hom_var = homozygote_count[1]', qm.path, c.lineno)
        os_ = [kw.value for kw in c.keywords]
        ctx.need(all(isinstance(v, ast.Constant) and isinstance(v.value, bool) for v in os_), f'{w}: one_sided is not a literal')
        sided.append(bool(os_ and os_[0].value))
    uses: Dict[str, Tuple[int, str]] = {}
    for d in ast.walk(fn):
        if isinstance(d, ast.Dict):
            for k, v in zip(d.keys, d.values):
                if isinstance(k, ast.Constant) and k.value in ('het_freq_hwe', 'p_value_hwe', 'p_value_excess_het'):
                    ctx.need(isinstance(v, ast.Attribute) and isinstance(v.value, ast.Subscript) and isinstance(v.value.slice, ast.Constant)
                             and isinstance(v.value.slice.value, int) and v.value.slice.value in (0, 1), f'{w}: `{k.value}` is not <pair>[i].<field>')
                    uses[k.value] = (v.value.slice.value, v.attr)
    ctx.need(len(uses) == 3, f'{w}: the fields het_freq_hwe / p_value_hwe / p_value_excess_het were not found')
    want = {'het_freq_hwe': (False, 'het_freq_hwe'), 'p_value_hwe': (False, 'p_value'), 'p_value_excess_het': (True, 'p_value')}
    got = {k: (sided[i], attr) for k, (i, attr) in uses.items()}
    ctx.check(got == want, 'R7', f'{w}::two-sided result -> het_freq_hwe / p_value_hwe, one-sided -> p_value_excess_het',
              'variant_qc stores ' + ', '.join(f'{k} = {"one" if o else "two"}-sided .{a}' for k, (o, a) in sorted(got.items())), qm.path, fn.lineno)


# ======================================================================================
# run
# ======================================================================================


def run(ctx: Ctx) -> None:
    ctx.rule('R1', 'every returning path of each test is guarded by exactly "all counts >= 0" (truth table); min_cell_count >= 0', 7)
    ctx.rule('R2', 'chi-squared: statistic, 1-df upper tail, odds ratio equal their definitions as normal forms; slots follow chisqStruct', 4)
    ctx.rule('R3', 'contingency_table_test: chi-squared iff all cells >= min_cell_count, else Fisher; cells forwarded in an invariant order', 3)
    ctx.rule('R4', 'Fisher: every returned field equals R\'s fisher.test under an equivalent hypergeometric parametrisation; NaN only on empty margins; '
                   'engine overload passes (1, 0.95, two.sided)', 14)
    ctx.rule('R5', 'p_value slots hold a library tail, a constant in [0,1], a clamped value or a pivot-excluding normalised sum - never an unclamped '
                   'whole-family sum', 7)
    ctx.rule('R6', 'Hardy-Weinberg: n, nA, LeveneHaldane(n, nA), mean / n, mid-p selection; Levene-Haldane recurrences derived from the pmf, mode, '
                   'normaliser, wiring, probability / interval / mid-p definitions', 19)
    ctx.rule('R7', 'registry name -> routine / argument types / order / result struct / slots; Python wrapper name, order, types, tstruct, defaults; aggregator; variant_qc', 47)
    ctx.explanation = ('Scala routines executed abstractly over symbolic inputs (engines/c37facts.py) and compared, as normal forms, with the definitions in '
                       'rules/c37.py (SPEC_*); numerical behaviour is not decided')
    ctx.assume('library routines are uninterpreted: ChiSquare.cumulative(x, df, lowerTail, logP), HypergeometricDistribution(rng, N, K, n).cumulativeProbability(k) = '
               'P(X <= k), .upperCumulativeProbability(k) = P(X >= k), .logProbability; uniroot(f, lo, hi) returns a root of f; their accuracy is not decided')
    ctx.assume('Int arithmetic is read over Z (no overflow), Double arithmetic over Q (no rounding): equality of rational functions, not of floating-point results')
    ctx.assume('tables with an empty row or column (Fisher returns NaN by design, chi-squared 0/0) are outside the inputs of the p-value range clause')
    T = evaluate(ctx)
    rule_r1(ctx, T)
    rule_r2(ctx, T)
    rule_r3(ctx, T)
    rule_r4(ctx, T)
    rule_r5_package(ctx, T)
    rule_r6(ctx, T)
    rule_r5_lh(ctx, T)
    rule_r7(ctx, T)
    ctx.unit('scala_files', 3)
    ctx.unit('python_wrappers', 5)
