"""C38 GVCF/VDS combiner merges every input exactly once - checkpoint completeness, resume safety, progress and genome partitioning.

Decided from the syntax trees of hail/python/hail/vds/combiner/{variant_dataset_combiner,combine}.py (nothing is run):
  R1  every attribute a step function (step/_step_gvcfs/_step_vdses and the self-methods they call) mutates is a declared slot, and
      is serialised unless it is on the frozen list of deliberately transient slots
  R2  the saved plan is complete and loadable: every serialised slot is written by `to_dict` under the name of the `__init__`
      parameter that restores it (found with property setters and helpers inlined, locals followed), a serialised slot that __init__ sets
      from no parameter is "never restored", every key is an `__init__` parameter, required parameters are all written, every value
      `to_dict` transforms has its inverse in `Decoder._object_hook` and the hook does not rewrite a raw key; a list-valued slot is written whole
      (no slice, no filter, a binned slot flattened over all its bins) and the hook's comprehensions run over all saved entries
  R3  `run` saves before every `step` and after the last one, returns only after `finished` was true, `step` always runs a step function
      unless finished, `finished` tests every pending list; `save` dumps into open(save path, 'w'); save/load go through
      Encoder -> to_dict and Decoder -> _object_hook -> VariantDatasetCombiner(**obj)
  R4  `calculate_even_genome_partitioning`: for every contig length and interval size of the evaluated domain the extracted loop
      emits closed intervals that cover every base 1..L exactly once
  R5  ... and no interval is longer than the requested size
  R6  freshness of intermediate output paths ("stop after any step and resume ... each input used once"): the symbolic components of every
      path a step writes (temp path, uuid, job counter, index ...) are classified as fresh per object (drawn from the closed table of fresh
      sources in __init__ and not overwritten with something reproducible elsewhere) / saved-and-restored / persisted counter / reset on
      reload; a path must have a component that differs (a) across save/resume, (b) between consecutive steps of one run (a counter bumped
      on every path from the write to the end of step()), (c) between the datasets of one step (an index).  The overwrite flag decides
      whether the collision is silent or loud (both break the property)
  R7  progress ("terminates and produces one dataset"): the amounts a step removes from the plan (`self._gvcfs[n:]`, the fan-in of
      `_step_vdses`, range strides) are >= 1 (>= 2 for the fan-in): interval analysis of those slots through every writer - the constructor
      with its guards (also the decoder's way in), property setters (public entry, value assumed in the constructor's domain), other methods,
      and stores from outside the class such as the resume path of new_combiner (setter stores inlined).  A may-violate interval is reported
      only with a concrete witness found by evaluating the same statements on boundary values; otherwise the rule declines
  R8  exactly-once bookkeeping inside a step: the slice taken for merging and the slice kept partition the pending list (complementary
      bounds, take before keep), parallel lists advance in lockstep and are validated to have equal length, the chunking loop partitions the
      batch, and the constructor keeps every input it is given: whole store / unconditional append of every element (over the list or a reordered
      copy); a regrouping into bins (groupby -> dict, keyed dict comprehension, per-element store that replaces the bin) is lossless only when it
      is order-insensitive (groupby over the list sorted by the same key, runs extended into their bin) - an order-sensitive regrouping is
      compared with its producers: the bin under which every step stores an entry (normal form, helpers and locals inlined) against the
      constructor's key of that entry, and the order in which to_dict lists the bins
  R9  the final dataset is written only under `finished`; otherwise the merged dataset is written, then recorded in the plan under the path
      it was written to; a step never returns normally having done neither
  R10 nothing a saved plan may still reference is deleted before `finished` (plan entries' paths, a directory containing an intermediate, the
      plan file) - symbolic prefix comparison against the intermediate paths of R6
  R11 new_combiner: every argument that defines the plan feeds the digest that names the generated save path (a plan found there belongs to
      the same inputs), and the digest is part of that path
  R12 crash consistency of the saved plan: a step takes its inputs out of the plan first and records the merged dataset (or writes the output)
      last; the region in between is computed on the CFG of each step function (helpers inlined, exceptional edges included).  No save call
      (self.save(), a helper that saves, json.dump(self)) lies in that region; no save is reachable in any caller (run, step ...) from the
      exceptional exit of a call that can fail half-way (finally block, except handler, retry loop) - decided on the callers' CFGs, a path
      guarded only by a local flag is declined; and no step function returns normally with the region open (failure swallowed)
R4/R5 evaluate the *extracted* statements of `calc_parts` with our own exact-integer interpreter, exhaustively over
1 <= L, S <= 80 (200 in the thorough tier), on the mitochondrial contigs of GRCh37/GRCh38 for sizes 100..200, and on a few
probe points on large real contigs.  Findings are keyed by failure kind (last base uncovered / gap / overlap / too long ...).
Does not decide: the merge arithmetic itself, what the engine does with the intervals, whether every taken file reaches the merge call
(dataflow inside a step beyond the slices), failures of the file system between `save` and `step`.
"""
from __future__ import annotations

import ast
import json
from fractions import Fraction
from typing import Dict, List, Optional, Sequence, Set, Tuple

from engines import c38facts as cf
from engines import c38norm as cn
from engines import pyfacts as pf
from engines.common import AnalysisError, Ctx, read_repo

META = dict(
    category='other',
    text='Reader/writer agreement of the combiner\'s saved plan (slots <-> to_dict <-> __init__ <-> decoder hook), save/step/finished control flow of run and step, '
         'symbolic freshness analysis of every intermediate output path across save/resume, between steps and within a step, interval analysis (with concrete '
         'witnesses) of the batch size / branch factor through all their writers incl. property setters and the resume path, take/keep slice partition of the '
         'pending lists, losslessness of the constructor\'s re-binning against the bins the steps store under, crash consistency of every save site '
         '(no save while a step has taken its inputs out of the plan and not yet recorded the result - inside the step, in finally/except/retry paths of its callers), '
         'plan identity of the generated save path, and an exhaustive small-domain evaluation (6400 (length, size) pairs + real mitochondrial contigs) '
         'of the extracted partitioning loop by our own exact-integer interpreter. Structural necessary conditions; the merge itself needs the engine, hence "other".',
    note='Trusted: CPython ast; engines/c38facts.py (symbolic path values, interval + concrete evaluators, setter inlining on top of engines/inline.py) and the 40-line '
         'interpreter in this module (exact rationals for `/`, so float rounding of math.ceil(L / S) is not modelled). Closed tables: fresh sources (uuid4, urandom, clocks ...), '
         'deterministic functions (uuid5, hashes ...), dataset writers, file deleters. Not decided: merge arithmetic, engine behaviour, dataflow from the taken files to the merge call.',
    technique='static analysis: slot/def-use tables, CFG dominance / must-pass-through, symbolic string components, interval analysis with witness search, '
              'abstract evaluation of an extracted loop over a finite domain',
    design_ref='DESIGN.md §3 C38',
)

F = 'hail/python/hail/vds/combiner/variant_dataset_combiner.py'
FC = 'hail/python/hail/vds/combiner/combine.py'
CLS = 'VariantDatasetCombiner'

# slots that are deliberately not part of the saved plan (frozen, with reason)
TRANSIENT_OK = {
    '_uuid': 'fresh per object (R6 checks that it really is); only names temporary output directories',
    '_job_id': 'only used in log lines and temporary directory names (together with the fresh _uuid; R6 checks the combination)',
    '__intervals_cache': 'memo of calculate_new_intervals results; recomputed on demand after a reload',
}
MUTATORS = {'append', 'extend', 'insert', 'pop', 'remove', 'clear', 'update', 'add', 'discard', 'sort', 'reverse', 'setdefault', 'popitem'}
STEP_ROOTS = ['step', '_step_gvcfs', '_step_vdses']
# (reference, contig, interval size) points additionally evaluated on real contig lengths (the verdict is computed, not assumed)
PROBES = [('GRCh38', 'chr17', 10470), ('GRCh38', 'chr10', 50000), ('GRCh37', '13', 12591)]
# keys whose JSON form is produced by Encoder.default rather than by to_dict itself
ENCODER_TYPED = {'dataset_type': 'CombinerOutType of tmatrix (Encoder.default -> tmatrix.to_dict)', 'gvcf_type': 'tmatrix (Encoder.default -> to_dict)'}


def _str_list(e: ast.AST, where: str, env: Dict[str, List[str]]) -> List[str]:
    """Evaluate a literal list/tuple of strings, allowing `*name` splices and tuple([...])."""
    if isinstance(e, ast.Call) and pf.dotted(e.func) in ('tuple', 'list') and len(e.args) == 1:
        return _str_list(e.args[0], where, env)
    if isinstance(e, (ast.List, ast.Tuple)):
        out: List[str] = []
        for x in e.elts:
            if isinstance(x, ast.Constant) and isinstance(x.value, str):
                out.append(x.value)
            elif isinstance(x, ast.Starred) and isinstance(x.value, ast.Name) and x.value.id in env:
                out += env[x.value.id]
            else:
                raise AnalysisError(f'{where}: unrecognised slot list element `{pf.nsrc(x)}`')
        return out
    if isinstance(e, ast.BinOp) and isinstance(e.op, ast.Add):
        return _str_list(e.left, where, env) + _str_list(e.right, where, env)
    if isinstance(e, ast.Name) and e.id in env:
        return list(env[e.id])
    raise AnalysisError(f'{where}: unrecognised slot list `{pf.nsrc(e)}`')


def _class_assign(cls: ast.ClassDef, name: str) -> ast.expr:
    for st in cls.body:
        if isinstance(st, ast.Assign) and len(st.targets) == 1 and isinstance(st.targets[0], ast.Name) and st.targets[0].id == name:
            return st.value
        if isinstance(st, ast.AnnAssign) and isinstance(st.target, ast.Name) and st.target.id == name and st.value is not None:
            return st.value
    raise AnalysisError(f'anchor vanished: {CLS}.{name}')


def _self_attr_root(e: ast.AST) -> Optional[str]:
    """self.X, self.X[...], self.X[...][...] -> X"""
    while isinstance(e, ast.Subscript):
        e = e.value
    if isinstance(e, ast.Attribute) and isinstance(e.value, ast.Name) and e.value.id == 'self':
        return e.attr
    return None


def _mutations(fn: pf.FuncDef) -> List[Tuple[str, ast.AST, str]]:
    out: List[Tuple[str, ast.AST, str]] = []
    for n in pf.walk_shallow(fn):
        if isinstance(n, ast.Assign):
            for t in n.targets:
                for x in ([t] if not isinstance(t, (ast.Tuple, ast.List)) else t.elts):
                    a = _self_attr_root(x)
                    if a:
                        out.append((a, n, 'assigned'))
        elif isinstance(n, (ast.AugAssign, ast.AnnAssign)):
            a = _self_attr_root(n.target)
            if a:
                out.append((a, n, 'assigned'))
        elif isinstance(n, ast.Delete):
            for t in n.targets:
                a = _self_attr_root(t)
                if a:
                    out.append((a, n, 'deleted from'))
        elif isinstance(n, ast.Call) and isinstance(n.func, ast.Attribute) and n.func.attr in MUTATORS:
            a = _self_attr_root(n.func.value)
            if a:
                out.append((a, n, f'mutated by .{n.func.attr}()'))
    return out


def _reads(fn: ast.AST) -> Set[str]:
    return {n.attr for n in ast.walk(fn) if isinstance(n, ast.Attribute) and isinstance(n.value, ast.Name) and n.value.id == 'self'}


def _methods(cls: ast.ClassDef) -> Dict[str, pf.FuncDef]:
    out: Dict[str, pf.FuncDef] = {}
    for st in cls.body:
        if isinstance(st, (ast.FunctionDef, ast.AsyncFunctionDef)):
            out.setdefault(st.name, st)
    return out


def _step_closure(methods: Dict[str, pf.FuncDef]) -> List[str]:
    seen: List[str] = []
    work = list(STEP_ROOTS)
    while work:
        m = work.pop(0)
        if m in seen:
            continue
        if m not in methods:
            if m in STEP_ROOTS:
                raise AnalysisError(f'anchor vanished: {CLS}.{m}')
            continue
        seen.append(m)
        for c in pf.calls_in(methods[m], into_nested_defs=True):
            if isinstance(c.func, ast.Attribute) and isinstance(c.func.value, ast.Name) and c.func.value.id == 'self' and c.func.attr in methods:
                work.append(c.func.attr)
        # properties read on self (e.g. self.finished, self._num_vdses)
        for a in _reads(methods[m]):
            if a in methods and a not in seen:
                work.append(a)
    return seen


# ---------------------------------------------------------------------------------------------------------------------------
def check_slots(ctx: Ctx, m: pf.Module, cls: ast.ClassDef) -> Tuple[List[str], List[str]]:
    env: Dict[str, List[str]] = {}
    ser = _str_list(_class_assign(cls, '__serialized_slots__'), f'{F}::{CLS}.__serialized_slots__', env)
    env['__serialized_slots__'] = ser
    slots = _str_list(_class_assign(cls, '__slots__'), f'{F}::{CLS}.__slots__', env)
    ctx.need(len(ser) >= 10 and set(ser) <= set(slots), '__serialized_slots__ is not a subset of __slots__')
    methods = _methods(cls)
    closure = _step_closure(methods)
    ctx.unit('functions', len(closure))
    seen: Set[str] = set()
    for meth in closure:
        for attr, node, how in _mutations(methods[meth]):
            if attr in seen:
                continue
            seen.add(attr)
            cons = f'{F}::{CLS}.{meth}::self.{attr}'
            line = getattr(node, 'lineno', 0)
            if attr not in slots:
                ctx.bad('R1', cons, f'`self.{attr}` is {how} in {meth} but is not a declared slot: the state it carries cannot be part of the saved plan', m.path, line)
            elif attr in ser:
                ctx.ok('R1', cons, 'serialised')
            elif attr in TRANSIENT_OK:
                ctx.ok('R1', cons, {'transient': TRANSIENT_OK[attr]}, nontrivial=False)
            else:
                ctx.bad('R1', cons, f'`self.{attr}` is {how} by a combiner step ({meth}) but is not in __serialized_slots__: a plan saved after this step and '
                        f'reloaded restarts with the value from before the step (inputs are merged twice or dropped)', m.path, line)
    return ser, slots


def _dict_return(fn: pf.FuncDef, where: str) -> ast.Dict:
    rets = [n for n in pf.walk_shallow(fn) if isinstance(n, ast.Return)]
    if len(rets) == 1 and isinstance(rets[0].value, ast.Name):
        # `plan = {...}; return plan` with no other use of the local (nothing added to / removed from the dict in between)
        nm = rets[0].value.id
        d = pf.single_def(fn, nm)
        uses = [n for n in pf.walk_shallow(fn) if isinstance(n, ast.Name) and n.id == nm and isinstance(n.ctx, ast.Load)]
        if isinstance(d, ast.Dict) and len(uses) == 1:
            return d
    if len(rets) != 1 or not isinstance(rets[0].value, ast.Dict):
        raise AnalysisError(f'{where}: expected a single `return {{...}}`')
    return rets[0].value


def _resolved_value(fn: pf.FuncDef, v: ast.AST, alias: Dict[str, str]) -> ast.AST:
    """Copy of an expression of `fn` with single-definition locals replaced by their definitions and reads of trivial property getters
    (`self.prop` with `return self._slot`) replaced by the slot."""
    import copy as _copy
    e = _copy.deepcopy(pf.expand_locals(fn, v, depth=4))
    if alias and fn.args.args:
        e = cf._PropReads(fn.args.args[0].arg, alias).visit(e)
    return ast.fix_missing_locations(e)


def _data_reads(v: ast.AST) -> Set[str]:
    """Attributes of self whose DATA the expression serialises: every `self.x` read, except inside the receiver of `<type>._convert_to_json(data)`
    (the receiver is the type object that drives the conversion, e.g. tarray(tinterval(tlocus(self._reference_genome))))."""
    skip: Set[int] = set()
    for c in ast.walk(v):
        if isinstance(c, ast.Call) and isinstance(c.func, ast.Attribute) and c.func.attr == '_convert_to_json':
            skip |= {id(n) for n in ast.walk(c.func.value)}
    return {n.attr for n in ast.walk(v) if isinstance(n, ast.Attribute) and isinstance(n.value, ast.Name) and n.value.id == 'self' and id(n) not in skip}


def _free_locals(fn: pf.FuncDef, e: ast.AST) -> Set[str]:
    """Names read in `e` that are locals of `fn` (bound by an assignment / loop / with there) and not bound inside `e` itself by a comprehension."""
    bound = {n.id for g in ast.walk(e) if isinstance(g, ast.comprehension) for n in ast.walk(g.target) if isinstance(n, ast.Name)}
    bound |= {a.arg for lam in ast.walk(e) if isinstance(lam, ast.Lambda) for a in lam.args.args}
    defs = pf.assignments(fn)
    params = {a.arg for a in fn.args.posonlyargs + fn.args.args + fn.args.kwonlyargs}
    return {n.id for n in ast.walk(e) if isinstance(n, ast.Name) and isinstance(n.ctx, ast.Load) and n.id in defs and n.id not in bound and n.id not in params}


def check_roundtrip(ctx: Ctx, m: pf.Module, cls: ast.ClassDef, ser: List[str]) -> None:
    methods = _methods(cls)
    for need in ('to_dict', '__init__'):
        ctx.need(need in methods, f'anchor vanished: {CLS}.{need}')
    td = methods['to_dict']
    init = methods['__init__']
    d = _dict_return(td, f'{F}::{CLS}.to_dict')
    keys: Dict[str, ast.expr] = {}
    alias = cf.ClassModel(m, CLS).getter_alias()
    unresolved: Dict[str, Set[str]] = {}   # key -> locals of to_dict its value still reads (built by statements, not by one expression)
    for k, v in zip(d.keys, d.values):
        if not (isinstance(k, ast.Constant) and isinstance(k.value, str)):
            raise AnalysisError(f'{F}::{CLS}.to_dict: non-literal key `{pf.nsrc(k) if k is not None else "**"}`')
        rv0 = _resolved_value(td, v, alias)
        ast.copy_location(rv0, v)
        keys[k.value] = rv0  # type: ignore[assignment]
        fl = _free_locals(td, rv0)
        if fl:
            unresolved[k.value] = fl
    ctx.need('name' in keys, 'to_dict has no `name` key')
    params = [a.arg for a in init.args.kwonlyargs] + [a.arg for a in init.args.args[1:]]
    required = [a.arg for a, dflt in zip(init.args.kwonlyargs, init.args.kw_defaults) if dflt is None]
    n_pos = len(init.args.args) - 1
    required += [a.arg for a in init.args.args[1:][: n_pos - len(init.args.defaults)]]
    ctx.need(init.args.kwarg is None and init.args.vararg is None, '__init__ takes *args/**kwargs')
    # which slot does each __init__ parameter initialise?  (a store through a property setter is the setter's body; a local is its definitions)
    slot_of_param, param_of_slot, wraps_set, unrestored = _init_param_map(m, init)

    # (a) every serialised slot is written under the parameter that restores it
    for s in ser:
        cons = f'{F}::{CLS}.to_dict::{s}'
        p = param_of_slot.get(s)
        if p is None and s in unrestored:
            ctx.bad('R2', cons, f'slot `{s}` is listed in __serialized_slots__ but __init__ sets it to `{unrestored[s]}`, which uses no constructor parameter: '
                    f'whatever the plan recorded for it, every reload (Decoder -> {CLS}(**obj)) starts from that value again', m.path, td.lineno)
            continue
        if p is None:
            raise AnalysisError(f'{cons}: cannot tell which __init__ parameter initialises the slot')
        v = keys.get(p)
        if v is None:
            readers = sorted(mn for mn in _step_closure(methods) if s in _reads(methods[mn]))
            dflt = _default_of(init, p)
            ctx.bad('R2', cons, f'serialised slot `{s}` (parameter `{p}`) has no key in to_dict: a plan that is saved and reloaded gets '
                    f'{p}={dflt if dflt is not None else "<missing: TypeError>"} whatever it was created with' + (f'; it is read by {readers}' if readers else ''),
                    m.path, td.lineno)
            continue
        rd = _data_reads(v)
        # a violation needs a value that is fully resolved, reads declared slots and not the one the parameter restores
        ctx.need(p not in unresolved or s in rd, f'{cons}: the value of key `{p}` is built from local(s) {sorted(unresolved.get(p, []))} that are not single expressions')
        if s not in rd:
            ctx.need(rd and rd <= set(ser), f'{cons}: key `{p}` is computed from {sorted("self." + x for x in rd)}; which field it saves is not recognised')
        ctx.check(s in rd, 'R2', cons, f'to_dict writes key `{p}` from {sorted("self." + x for x in rd)} but __init__ restores parameter `{p}` into `self.{s}`: '
                  f'after a reload the plan continues with another field\'s value', m.path, v.lineno)
        # ... and every entry of a list-valued slot is written (no slice, no filter; a binned slot is flattened over all its bins)
        if s in rd:
            lost = _listing_problem(v, s)
            if lost is not None:
                ctx.need(lost != '?', f'{cons}: how to_dict lists the entries of self.{s} is not recognised: `{pf.nsrc(v)[:80]}`')
                ctx.bad('R2', cons + '::lists every entry', f'to_dict writes `{p}` as `{pf.nsrc(v)[:90]}`: {lost}, so the saved plan does not list every pending entry of '
                        f'self.{s} - a run resumed from it never merges the missing ones', m.path, v.lineno)
    # (b) every key is a parameter, (c) required parameters are written
    for k, v in keys.items():
        if k == 'name':
            is_name = pf.nsrc(v) in ('self.__class__.__name__', f'{CLS}.__name__', f"'{CLS}'", 'type(self).__name__', '__class__.__name__', 'self.__class__.__qualname__',
                                     f'{CLS}.__qualname__', 'type(self).__qualname__')
            # another string literal is a recognised shape that breaks the rule; any other expression is not evaluated here
            ctx.need(is_name or (isinstance(v, ast.Constant) and isinstance(v.value, str)), f'{F}::{CLS}.to_dict::name: unrecognised value `{pf.nsrc(v)[:60]}`')
            ctx.check(is_name, 'R2', f'{F}::{CLS}.to_dict::name',
                      f'`name` is written as `{pf.nsrc(v)}`; the decoder recognises a plan by name == {CLS}.__name__', m.path, v.lineno)
            continue
        ctx.check(k in params, 'R2', f'{F}::{CLS}.to_dict::key {k}', f'to_dict writes key `{k}` which is not a parameter of __init__: '
                  f'{CLS}(**obj) raises TypeError on every reload', m.path, v.lineno)
    for p in required:
        ctx.check(p in keys, 'R2', f'{F}::{CLS}.__init__::required {p}', f'required parameter `{p}` is not written by to_dict: every reload raises TypeError', m.path, init.lineno)

    # (e) transformed values have an inverse
    dec = m.cls('Decoder')
    hook0 = _methods(dec).get('_object_hook')
    ctx.need(hook0 is not None, 'anchor vanished: Decoder._object_hook')
    hook = _hook_with_obj(hook0)
    HW = f'{F}::Decoder._object_hook'
    rewrites: Dict[str, ast.expr] = {}
    for st in pf.walk_shallow(hook):
        if isinstance(st, ast.Assign) and len(st.targets) == 1 and isinstance(st.targets[0], ast.Subscript) and pf.nsrc(st.targets[0].value) == 'obj':
            sl = st.targets[0].slice
            ctx.need(isinstance(sl, ast.Constant) and isinstance(sl.value, str), f'{HW}: store to a computed key `{pf.nsrc(st.targets[0])[:40]}`')
            ctx.need(sl.value not in rewrites, f'{HW}: key `{sl.value}` is rewritten twice')
            rewrites[sl.value] = st.value
    # anything else that may change the decoded dict (obj.update(..), obj passed to a helper, a second dict) is not modelled
    for c in pf.calls_in(hook):
        if isinstance(c.func, ast.Attribute) and pf.nsrc(c.func.value) == 'obj':
            ctx.need(c.func.attr in ('get', 'pop', 'keys', 'items', 'values', '__contains__'), f'{HW}: `{pf.nsrc(c)[:50]}` is not modelled')
            ctx.need(c.func.attr != 'pop' or (c.args and isinstance(c.args[0], ast.Constant) and c.args[0].value == 'name'), f'{HW}: `{pf.nsrc(c)[:50]}` is not modelled')
        elif any(isinstance(a, ast.Name) and a.id == 'obj' for a in c.args) or any(isinstance(k.value, ast.Name) and k.value.id == 'obj' and k.arg is not None for k in c.keywords):
            raise AnalysisError(f'{HW}: the decoded dict is handed to `{pf.nsrc(c.func)[:40]}`; what that does to it is not modelled')
    local_defs = pf.assignments(hook)
    module_callables = {q.split('.')[-1] for q, _f in m.functions()}

    def reader_of(k: str, rv: ast.expr) -> Tuple[Set[str], List[str]]:
        """(subscripts of obj the rewritten value is computed from, dotted names of the calls that compute it), following the locals of the hook.
        Declines when the value flows through something that is not a single expression (a list filled by a loop, a helper of this module)."""
        srcs: Set[str] = set()
        calls: List[str] = []
        seen: Set[str] = set()
        work: List[ast.AST] = [rv]
        while work:
            e = work.pop()
            bound = {n.id for g in ast.walk(e) if isinstance(g, ast.comprehension) for n in ast.walk(g.target) if isinstance(n, ast.Name)}
            for n in ast.walk(e):
                if isinstance(n, ast.Subscript) and pf.nsrc(n.value) == 'obj':
                    srcs.add(pf.nsrc(n))
                elif isinstance(n, ast.Call):
                    d = pf.dotted(n.func) or pf.nsrc(n.func)
                    calls.append(d)
                    last = d.split('.')[-1]
                    if last in module_callables and last not in ('_convert_from_json', '_from_json'):
                        raise AnalysisError(f'{HW}::{k}: the value is computed by `{d}` of this module, which is not followed')
                elif isinstance(n, ast.Name) and isinstance(n.ctx, ast.Load) and n.id in local_defs and n.id not in bound and n.id != 'obj' and n.id not in seen:
                    seen.add(n.id)
                    for dv in local_defs[n.id]:
                        if not isinstance(dv, ast.expr) or (isinstance(dv, (ast.List, ast.Dict, ast.Set)) and not getattr(dv, 'elts', getattr(dv, 'keys', None))):
                            raise AnalysisError(f'{HW}::{k}: local `{n.id}` is not defined by a single expression')
                        work.append(dv)
        return srcs, calls
    for k, v in keys.items():
        if k == 'name':
            continue
        s = slot_of_param.get(k)
        plain = s is not None and pf.nsrc(v) == f'self.{s}'
        if plain and k not in ENCODER_TYPED:
            if k in rewrites:
                rv = rewrites[k]
                ident = isinstance(rv, ast.Call) and pf.dotted(rv.func) in ('list', 'tuple', 'dict', 'set', 'str', 'int', 'bool') and len(rv.args) == 1 \
                    and pf.nsrc(rv.args[0]) == f"obj['{k}']"
                srcs, calls = reader_of(k, rv)
                ctx.need(ident or f"obj['{k}']" in srcs, f'{HW}: unrecognised rewrite of `{k}`')
                ctx.check(ident, 'R2', f'{F}::Decoder._object_hook::{k}', f'to_dict writes `{k}` as the raw field `self.{s}` but the decoder replaces it by `{pf.nsrc(rv)[:70]}`: '
                          f'the reloaded plan differs from the saved one (a resumed run continues with other {k} than the interrupted one)', m.path, rv.lineno)
            continue
        cons = f'{F}::Decoder._object_hook::{k}'
        if k in rewrites:
            rv = rewrites[k]
            # the rewritten value must be computed from obj[k] (possibly through locals)
            srcs, r_calls = reader_of(k, rv)
            ok = f"obj['{k}']" in srcs
            inv = _inverse_ok(k, v, r_calls)
            # a comprehension that rebuilds the entries must run over all of them
            for g in [g for g in ast.walk(rv) if isinstance(g, ast.comprehension) and f"obj['{k}']" in {pf.nsrc(n) for n in ast.walk(g.iter)}]:
                it = g.iter
                while isinstance(it, ast.Call) and pf.dotted(it.func) in ('list', 'tuple', 'iter') and len(it.args) == 1:
                    it = it.args[0]
                part = f'filters the saved entries (`if {pf.nsrc(g.ifs[0])[:40]}`)' if g.ifs else \
                    f'runs over `{pf.nsrc(it)[:40]}` only' if isinstance(it, ast.Subscript) and isinstance(it.slice, ast.Slice) else None
                ctx.need(part is not None or pf.nsrc(it) == f"obj['{k}']", f'{cons}: unrecognised iteration `{pf.nsrc(g.iter)[:50]}`')
                if part is not None and inv is None:
                    inv = f'the decoder rebuilds `{k}` with `{pf.nsrc(rv)[:70]}`, which {part}: entries of the saved plan are dropped on every reload and never merged'
            # "computed from another key" is evidence only when some saved key is read at all; a value that reads no key of obj is not understood
            ctx.need(ok or srcs, f'{cons}: cannot tell what `{pf.nsrc(rv)[:60]}` is computed from')
            ctx.check(ok and inv is None, 'R2', cons, (inv or f'the decoder rewrites obj[\'{k}\'] from {sorted(srcs)} instead of from the saved value of `{k}`') +
                      ': the reloaded plan differs from the saved one', m.path, rv.lineno)
        elif k in wraps_set and not (k in ENCODER_TYPED):
            ctx.ok('R2', cons, 'normalised by __init__ (set(...))')
        elif s is not None and _json_identity(v, s):
            ctx.ok('R2', cons, 'written as a copy of the field (the same JSON as the raw field)', nontrivial=False)
        else:
            # evidence of a lossy encoding: one of the encodings this analysis knows the inverse of, with no inverse on the reading side
            w_calls = [pf.dotted(c.func) or pf.nsrc(c.func) for c in ast.walk(v) if isinstance(c, ast.Call)]
            known = k in ENCODER_TYPED or 'str' in w_calls or any(c.endswith('._convert_to_json') for c in w_calls) \
                or (k == 'vdses' and _listing_problem(v, s or '') is None and isinstance(v, (ast.ListComp, ast.Call)))
            ctx.need(known and k not in unresolved, f'{cons}: to_dict writes `{k}` as `{pf.nsrc(v)[:60]}`; whether that needs decoding is not recognised')
            ctx.bad('R2', cons, f'to_dict writes `{k}` as `{pf.nsrc(v)[:80]}` (not the raw field) but neither Decoder._object_hook nor __init__ converts it back',
                    m.path, v.lineno)
    for k, rv in rewrites.items():
        ctx.check(k in keys, 'R2', f'{F}::Decoder._object_hook::rewrites {k}', f'the decoder rewrites obj[\'{k}\'], which to_dict never writes: KeyError on every reload', m.path, rv.lineno)
    # the hook ends in CLS(**obj) after deleting 'name'
    calls = [c for c in pf.calls_in(hook) if pf.dotted(c.func) == CLS]
    ctx.need(len(calls) == 1 and not calls[0].args and len(calls[0].keywords) == 1 and calls[0].keywords[0].arg is None and pf.nsrc(calls[0].keywords[0].value) == 'obj',
             f'{HW}: expected exactly one `{CLS}(**<decoded dict>)`')
    dels = [pf.nsrc(t) for st in pf.walk_shallow(hook) if isinstance(st, ast.Delete) for t in st.targets]
    pops = [c for c in pf.calls_in(hook) if isinstance(c.func, ast.Attribute) and c.func.attr == 'pop' and pf.nsrc(c.func.value) == 'obj' and c.args
            and isinstance(c.args[0], ast.Constant) and c.args[0].value == 'name']
    ctx.check("obj['name']" in dels or bool(pops), 'R2', f'{F}::Decoder._object_hook::constructs',
              f'the hook returns {CLS}(**obj) without removing the `name` key to_dict adds: __init__ has no such parameter, every reload raises TypeError', m.path, hook.lineno)


def _hook_with_obj(hook: pf.FuncDef) -> pf.FuncDef:
    """The decoder hook with its dict parameter called `obj` (a copy when it has to be renamed; the name is the maintainer's choice)."""
    params = [a.arg for a in hook.args.posonlyargs + hook.args.args if a.arg not in ('self', 'cls')]
    if len(params) != 1 or hook.args.vararg or hook.args.kwarg or hook.args.kwonlyargs:
        raise AnalysisError(f'{F}::Decoder._object_hook: expected one parameter (the decoded dict)')
    if params[0] == 'obj':
        return hook
    if any(isinstance(n, ast.Name) and n.id == 'obj' for n in ast.walk(hook)):
        raise AnalysisError(f'{F}::Decoder._object_hook: a second name `obj` besides the parameter `{params[0]}`')
    import copy as _copy
    h2 = _copy.deepcopy(hook)
    for n in ast.walk(h2):
        if isinstance(n, ast.Name) and n.id == params[0]:
            n.id = 'obj'
        elif isinstance(n, ast.arg) and n.arg == params[0]:
            n.arg = 'obj'
    return h2


def _json_identity(v: ast.AST, slot: str) -> bool:
    """The value is the field itself or a copy that serialises to the same JSON: list(x) / tuple(x) / x[:] / x.copy() / dict(x) / [y for y in x],
    possibly under a None guard (`None if x is None else <copy>`)."""
    if isinstance(v, ast.IfExp):
        t = v.test
        none_test = isinstance(t, ast.Compare) and len(t.ops) == 1 and isinstance(t.ops[0], (ast.Is, ast.IsNot)) and cf.self_attr(t.left) == slot \
            and isinstance(t.comparators[0], ast.Constant) and t.comparators[0].value is None
        if not none_test:
            return False
        none_arm, other = (v.body, v.orelse) if isinstance(t.ops[0], ast.Is) else (v.orelse, v.body)  # type: ignore[union-attr]
        return isinstance(none_arm, ast.Constant) and none_arm.value is None and _json_identity(other, slot)
    if cf.self_attr(v) == slot:
        return True
    if isinstance(v, ast.Call) and pf.dotted(v.func) in ('list', 'tuple', 'dict') and len(v.args) == 1 and not v.keywords:
        return _json_identity(v.args[0], slot)
    if isinstance(v, ast.Call) and isinstance(v.func, ast.Attribute) and v.func.attr == 'copy' and not v.args and not v.keywords:
        return _json_identity(v.func.value, slot)
    if isinstance(v, ast.Subscript) and isinstance(v.slice, ast.Slice) and v.slice.lower is None and v.slice.upper is None and v.slice.step is None:
        return _json_identity(v.value, slot)
    if isinstance(v, ast.ListComp) and len(v.generators) == 1 and not v.generators[0].ifs and isinstance(v.generators[0].target, ast.Name) \
            and isinstance(v.elt, ast.Name) and v.elt.id == v.generators[0].target.id:
        return _json_identity(v.generators[0].iter, slot)
    return False



def _listing_problem(v: ast.AST, slot: str) -> Optional[str]:
    """Problem text when the to_dict value visibly lists only part of self.<slot>; '?' when a listing over the slot is not recognised; None when
    the value is the slot itself, a whole-copy of it, or a recognised complete listing."""
    e = v
    if isinstance(e, ast.IfExp):  # `None if self.x is None else list(self.x)`
        a, b = _listing_problem(e.body, slot), _listing_problem(e.orelse, slot)
        return a if a not in (None, '?') else b if b not in (None, '?') else (a or b)
    while isinstance(e, ast.Call) and pf.dotted(e.func) in ('list', 'tuple', 'sorted', 'set') and len(e.args) == 1:
        e = e.args[0]
    if isinstance(e, ast.Subscript) and isinstance(e.slice, ast.Slice) and cf.self_attr(e.value) == slot and (e.slice.lower is not None or e.slice.upper is not None
                                                                                                               or e.slice.step is not None):
        return f'only the slice `{pf.nsrc(e)[:50]}` is written'
    if isinstance(e, (ast.ListComp, ast.GeneratorExp, ast.SetComp)):
        if len(e.generators) == 1:
            g = e.generators[0]
            it = g.iter
            while isinstance(it, ast.Call) and pf.dotted(it.func) in ('list', 'tuple', 'sorted', 'reversed') and len(it.args) == 1:
                it = it.args[0]
            if cf.self_attr(it) == slot:
                return f'the comprehension filters the entries (`if {pf.nsrc(g.ifs[0])[:50]}`)' if g.ifs else None
            if isinstance(it, ast.Subscript) and isinstance(it.slice, ast.Slice) and cf.self_attr(it.value) == slot:
                return f'only `{pf.nsrc(it)[:50]}` is written'
            return '?'
        fl = _flatten_of(v, slot)
        return None if fl == 'all' else '?' if fl is None else fl
    if isinstance(e, ast.Call) and (pf.dotted(e.func) or '').endswith('chain.from_iterable'):
        fl = _flatten_of(v, slot)
        return None if fl == 'all' else '?' if fl is None else fl
    return None



def _without_lambdas(e: ast.AST) -> ast.AST:
    import copy as _copy

    class _T(ast.NodeTransformer):
        def visit_Lambda(self, node):
            return ast.copy_location(ast.Constant(value=None), node)
    return _T().visit(_copy.deepcopy(e))


def _init_param_map(m: pf.Module, init: pf.FuncDef):
    """(parameter -> slot, slot -> parameter, parameters normalised by set()/list(), serialised-looking slots set from no parameter).
    Analysed on __init__ with property setters and helpers inlined, following locals to the parameters they are computed from."""
    _m2, init_i, _il = _inl(m, '__init__')
    params = [a.arg for a in init_i.args.kwonlyargs] + [a.arg for a in init_i.args.args[1:]]
    defs = pf.assignments(init_i)

    def roots(e: ast.AST, seen: Tuple[str, ...] = ()) -> Set[str]:
        out: Set[str] = set()
        for n in ast.walk(e):
            if isinstance(n, ast.Name) and isinstance(n.ctx, ast.Load):
                if n.id in params and all(isinstance(d, ast.arg) for d in defs.get(n.id, [])):
                    out.add(n.id)
                elif n.id in defs and n.id not in seen:
                    for d in defs[n.id]:
                        if isinstance(d, ast.arg):
                            if n.id in params:
                                out.add(n.id)
                        elif isinstance(d, ast.expr):
                            out |= roots(d, seen + (n.id,))
        return out

    slot_of_param: Dict[str, str] = {}
    param_of_slot: Dict[str, str] = {}
    wraps_set: Set[str] = set()
    unrestored: Dict[str, str] = {}
    by_slot: Dict[str, List[ast.Assign]] = {}
    for attr, node, _how in _mutations(init_i):
        if isinstance(node, ast.Assign) and _self_attr_root(node.targets[0]) == attr and isinstance(node.targets[0], ast.Attribute):
            by_slot.setdefault(attr, []).append(node)
    for attr, nodes in by_slot.items():
        used: Set[str] = set()
        for node in nodes:
            used |= roots(node.value)
        if len(used) == 1:
            p = next(iter(used))
            slot_of_param.setdefault(p, attr)
            param_of_slot.setdefault(attr, p)
            if any(isinstance(c, ast.Call) and pf.dotted(c.func) in ('set', 'list', 'frozenset') for node in nodes for c in ast.walk(node.value)):
                wraps_set.add(p)
        elif not used:
            # "set from no parameter" is evidence only when the value is fully visible: no local that is filled in place afterwards (an accumulator
            # `bins = defaultdict(list)` + `bins[k].append(v)`), no loop variable, no call of a helper that could read the parameters
            vis = True
            mutated_locals = {n.func.value.id if isinstance(n.func.value, ast.Name) else _sub_root_name(n.func.value) for n in pf.walk_shallow(init_i)
                              if isinstance(n, ast.Call) and isinstance(n.func, ast.Attribute) and n.func.attr in MUTATORS}
            mutated_locals |= {_sub_root_name(n) for n in pf.walk_shallow(init_i) if isinstance(n, ast.Subscript) and isinstance(n.ctx, (ast.Store, ast.Del))}
            for node in nodes:
                work_e: List[ast.AST] = [node.value]
                seen_n: Set[str] = set()
                while work_e:
                    e = work_e.pop()
                    for n in ast.walk(e):
                        if isinstance(n, ast.Name) and isinstance(n.ctx, ast.Load) and n.id in defs and n.id not in seen_n:
                            seen_n.add(n.id)
                            if n.id in mutated_locals or not all(isinstance(d, ast.expr) for d in defs[n.id]):
                                vis = False
                            work_e += [d for d in defs[n.id] if isinstance(d, ast.expr)]
                        if isinstance(n, ast.Call) and isinstance(n.func, ast.Attribute) and cf.self_attr(n.func, init_i.args.args[0].arg) is not None:
                            vis = False
            if vis:
                unrestored[attr] = pf.nsrc(nodes[-1].value)[:60]
    # `self._vdses.update(<expression over vdses>)` / `.extend(vdses)`: parameter consumed through a mutator call on the slot
    for attr, node, how in _mutations(init_i):
        if isinstance(node, ast.Call) and how.startswith('mutated by') and attr not in param_of_slot:
            # (key functions passed as lambdas may read further parameters - they select nothing, so they are not followed)
            ps = sorted({q for a in list(node.args) + [k.value for k in node.keywords] for q in roots(_without_lambdas(a))})
            if len(ps) == 1 and not any(isinstance(x, (ast.For, ast.While)) and any(y is node for y in ast.walk(x)) for x in pf.walk_shallow(init_i)):
                slot_of_param.setdefault(ps[0], attr)
                param_of_slot[attr] = ps[0]
                unrestored.pop(attr, None)
    # `for vds in vdses: self._vdses[...].append(vds)`: parameter consumed through a loop
    for st in pf.walk_shallow(init_i):
        if isinstance(st, ast.For):
            ps = sorted(roots(st.iter))
            if len(ps) == 1:
                for attr, _n, _h in _mutations_in(st):
                    slot_of_param.setdefault(ps[0], attr)
                    param_of_slot[attr] = ps[0]
                    unrestored.pop(attr, None)
    return slot_of_param, param_of_slot, wraps_set, unrestored


def _sub_root_name(e: ast.AST) -> Optional[str]:
    while isinstance(e, ast.Subscript):
        e = e.value
    return e.id if isinstance(e, ast.Name) else None


def _mutations_in(node: ast.AST) -> List[Tuple[str, ast.AST, str]]:
    fake = ast.FunctionDef(name='_', args=ast.arguments(posonlyargs=[], args=[], kwonlyargs=[], kw_defaults=[], defaults=[]), body=[node], decorator_list=[])
    return _mutations(fake)  # type: ignore[arg-type]


def _default_of(init: pf.FuncDef, p: str) -> Optional[str]:
    for a, d in zip(init.args.kwonlyargs, init.args.kw_defaults):
        if a.arg == p and d is not None:
            return pf.nsrc(d)
    pos = init.args.args[1:]
    for a, d in zip(pos[len(pos) - len(init.args.defaults):], init.args.defaults):
        if a.arg == p:
            return pf.nsrc(d)
    return None


def _inverse_ok(k: str, wv: ast.expr, r_calls: List[str]) -> Optional[str]:
    """Recognised writer/reader pairs; returns a problem text or None.  `r_calls`: the calls that compute the decoder's value (locals followed)."""
    w_calls = [pf.dotted(c.func) or pf.nsrc(c.func) for c in ast.walk(wv) if isinstance(c, ast.Call)]
    if any(c.endswith('._convert_to_json') for c in w_calls):
        return None if any(c.endswith('._convert_from_json') for c in r_calls) else f'`{k}` is written with _convert_to_json but not read back with _convert_from_json'
    if 'str' in w_calls:
        return None if any(c.endswith('get_reference') for c in r_calls) else f'`{k}` is written as str(...) but not resolved back with hl.get_reference'
    if k in ENCODER_TYPED:
        return None if any(c.endswith('tmatrix._from_json') for c in r_calls) else f'`{k}` is encoded through tmatrix.to_dict but not decoded with tmatrix._from_json'
    if k == 'vdses':
        return None if 'VDSMetadata' in r_calls else '`vdses` is written as a list of tuples but not rebuilt as VDSMetadata'
    raise AnalysisError(f'{F}: unrecognised transformation of `{k}` in to_dict: `{pf.nsrc(wv)[:80]}`')


# ---------------------------------------------------------------------------------------------------------------------------
def _empty_conjuncts(e: ast.AST, cm: Optional[cf.ClassModel] = None) -> Optional[Set[str]]:
    """Slots that `e` requires to be empty: `not self.a and not self.b`, `not (self.a or self.b)`, `len(self.a) == 0 and ...`, `not bool(self.a)`,
    `self.count == 0` for a property getter `count` that returns len(self.a) / the total length of the bins of self.a."""
    def unwrap(x: ast.AST) -> ast.AST:
        while isinstance(x, ast.Call) and pf.dotted(x.func) in ('bool', 'len') and len(x.args) == 1 and not x.keywords:
            x = x.args[0]
        return x

    def counted(x: ast.AST) -> Optional[str]:
        """x is a number that is 0 exactly when slot S holds no entry: len(self.S), or a getter returning len(self.S) / sum(len(v) for v in self.S.values())."""
        if isinstance(x, ast.Call) and pf.dotted(x.func) == 'len' and len(x.args) == 1 and cf.self_attr(x.args[0]) is not None:
            return cf.self_attr(x.args[0])
        a = cf.self_attr(x)
        if a is not None and cm is not None and a in cm.getters:
            body = cf._strip_doc(cm.getters[a].body)
            if len(body) == 1 and isinstance(body[0], ast.Return) and body[0].value is not None:
                r = body[0].value
                if isinstance(r, ast.Call) and pf.dotted(r.func) == 'len' and len(r.args) == 1 and cf.self_attr(r.args[0]) is not None:
                    return cf.self_attr(r.args[0])
                if isinstance(r, ast.Call) and pf.dotted(r.func) == 'sum' and len(r.args) == 1 and isinstance(r.args[0], (ast.GeneratorExp, ast.ListComp)) \
                        and len(r.args[0].generators) == 1 and not r.args[0].generators[0].ifs:
                    g = r.args[0].generators[0]
                    it = g.iter
                    if isinstance(it, ast.Call) and isinstance(it.func, ast.Attribute) and it.func.attr == 'values' and cf.self_attr(it.func.value) is not None \
                            and isinstance(g.target, ast.Name) and pf.nsrc(r.args[0].elt) == f'len({g.target.id})':
                        return cf.self_attr(it.func.value)
        return None
    if isinstance(e, ast.BoolOp) and isinstance(e.op, ast.And):
        out: Set[str] = set()
        for v in e.values:
            r = _empty_conjuncts(v, cm)
            if r is None:
                return None
            out |= r
        return out
    if isinstance(e, ast.UnaryOp) and isinstance(e.op, ast.Not):
        o = e.operand
        if isinstance(o, ast.BoolOp) and isinstance(o.op, ast.Or):
            out = set()
            for v in o.values:
                r = _empty_conjuncts(ast.UnaryOp(op=ast.Not(), operand=v), cm)
                if r is None:
                    return None
                out |= r
            return out
        if isinstance(o, ast.UnaryOp) and isinstance(o.op, ast.Not):
            return None
        c = counted(o)
        if c is not None:
            return {c}
        o = unwrap(o)
        if cf.self_attr(o) is not None and (cm is None or cf.self_attr(o) not in cm.getters):
            return {cf.self_attr(o)}  # type: ignore[arg-type]
        return None
    if isinstance(e, ast.Compare) and len(e.ops) == 1 and isinstance(e.comparators[0], ast.Constant) and type(e.comparators[0].value) is int:
        k, op = e.comparators[0].value, e.ops[0]
        if (isinstance(op, ast.Eq) and k == 0) or (isinstance(op, ast.LtE) and k == 0) or (isinstance(op, ast.Lt) and k == 1):
            c = counted(e.left)
            return {c} if c is not None else None
    return None


def _as_condition(fn: pf.FuncDef) -> Optional[ast.AST]:
    """The boolean a getter returns, as one expression: `return E`, or guard clauses `if T: return True/False` in front of it
    (`if T: return False; return E` is `not T and E`, `if T: return True; return E` is `T or E`); single-definition locals are expanded."""
    body = cf._strip_doc(fn.body)
    body = [st for st in body if not (isinstance(st, ast.Assign) and len(st.targets) == 1 and isinstance(st.targets[0], ast.Name))]
    if not body or not isinstance(body[-1], ast.Return) or body[-1].value is None:
        return None
    e: ast.AST = pf.expand_locals(fn, body[-1].value, depth=4)
    for st in reversed(body[:-1]):
        if not (isinstance(st, ast.If) and not st.orelse and len(st.body) == 1 and isinstance(st.body[0], ast.Return) and isinstance(st.body[0].value, ast.Constant)
                and isinstance(st.body[0].value.value, bool)):
            return None
        t = pf.expand_locals(fn, st.test, depth=4)
        if st.body[0].value.value:
            e = ast.BoolOp(op=ast.Or(), values=[t, e])
        else:
            e = ast.BoolOp(op=ast.And(), values=[ast.UnaryOp(op=ast.Not(), operand=t), e])
    # locals that were expanded must have a single definition each (expand_locals leaves the others in place)
    if any(isinstance(n, ast.Name) and isinstance(n.ctx, ast.Load) and n.id in pf.assignments(fn) and n.id != (fn.args.args[0].arg if fn.args.args else '') for n in ast.walk(e)):
        return None
    return ast.fix_missing_locations(e)


def _top_level_pending(cm: cf.ClassModel, roots: List[str]) -> Tuple[Set[str], Set[str]]:
    """(slots a step function slices unconditionally - a top-level statement `x = self.S[..][a:b]` of its body -, slots sliced anywhere in it)."""
    top: Set[str] = set()
    anyw: Set[str] = set()
    for rn in roots:
        f = cm.methods[rn]
        for st in pf.walk_shallow(f):
            if isinstance(st, ast.Assign) and isinstance(st.value, ast.Subscript) and isinstance(st.value.slice, ast.Slice):
                sl = _self_attr_root(st.value.value)
                if sl is not None:
                    anyw.add(sl)
                    if any(st is x for x in f.body):
                        top.add(sl)
    return top, anyw


def _is_self_call(n: pf.Node, name: str) -> bool:
    return any(pf.dotted(c.func) == f'self.{name}' for c in pf.node_calls(n))


def _firm(g: pf.CFG, p: Optional[List[pf.Node]], fn: pf.FuncDef, goal, avoid, cons: str, edge_ok=None) -> Optional[List[pf.Node]]:
    """A witness path is evidence only when it does not hinge on the outcome of a test over local variables (a flag, a counter): for every such
    test on the path the other outcome must lead to the goal as well.  Otherwise the question is not decided (AnalysisError)."""
    if p is None:
        return None
    defs = pf.assignments(fn)
    recv = fn.args.args[0].arg if fn.args.args else None

    def carries_finished(name: str, seen: Tuple[str, ...] = ()) -> bool:
        """The local may hold the value of `self.finished` (or of something computed from it by a method of the object)."""
        for d in defs.get(name, []):
            if isinstance(d, ast.arg):
                continue
            for x in ast.walk(d):
                if isinstance(x, ast.Attribute) and x.attr in _FINISHED_LIKE:
                    return True
                if isinstance(x, ast.Name) and x.id in defs and x.id != name and x.id not in seen and carries_finished(x.id, seen + (name,)):
                    return True
        return False
    for n in p[:-1]:
        if n.kind != 'test' or n.ast is None:
            continue
        und = _undecoded_finished(n.ast)
        if und is not None:
            raise AnalysisError(f'{cons}: the path found passes `{n.text()[:60]}`, which reads the exhaustion of the plan through `{und}`; that form is not decoded')
        loc = sorted({x.id for x in ast.walk(n.ast) if isinstance(x, ast.Name) and isinstance(x.ctx, ast.Load) and x.id in defs and x.id != recv})
        if not loc:
            continue
        fl = [x for x in loc if carries_finished(x)]
        if fl:
            raise AnalysisError(f'{cons}: the path found passes `{n.text()[:60]}`, a test of the local(s) {fl} that may hold `finished`; not decided')
        # data-dependent tests (`len(batch) == 1`, `remaining > 0`) can go either way independently; a FLAG (a local that is set to a literal
        # somewhere: `first = True`, `ok = False`, `n_tries = 0`) correlates branches, so a path through a test of it is checked for the other outcome
        loc = [x for x in loc if any(isinstance(d, ast.Constant) for d in defs.get(x, []))]
        if not loc:
            continue
        for mnode, lab in n.succ:
            if lab == 'exc' or (edge_ok is not None and not edge_ok(n, mnode, lab)):
                continue
            if goal(mnode):
                continue
            if avoid(mnode) or g.path_avoiding(mnode, goal, avoid, edge_ok=edge_ok) is None:
                raise AnalysisError(f'{cons}: the only paths found depend on the outcome of `{n.text()[:60]}` (local(s) {loc}); whether they are feasible is not decided')
    return p


# attribute names through which the state "plan exhausted" is read: the `finished` property and, filled in by run(), every getter / method whose body reads it
_FINISHED_LIKE: Set[str] = {'finished'}


def _undecoded_finished(test: ast.AST) -> Optional[str]:
    """A reading of `finished` in a test that _implies_finished does not decode: through a helper / another property (`self._has_work()`), or
    inside a comparison or call (`self.finished is True`, `bool(self.finished)`).  Plain `self.finished` / `not self.finished` as operands of
    and / or / not are decoded."""
    def walk(t: ast.AST, plain_ok: bool) -> Optional[str]:
        if isinstance(t, ast.Attribute) and t.attr in _FINISHED_LIKE:
            if t.attr == 'finished' and plain_ok and cf.self_attr(t) == 'finished':
                return None
            return pf.nsrc(t)
        if isinstance(t, ast.BoolOp):
            for v in t.values:
                r = walk(v, plain_ok)
                if r:
                    return r
            return None
        if isinstance(t, ast.UnaryOp) and isinstance(t.op, ast.Not):
            return walk(t.operand, plain_ok)
        for c in ast.iter_child_nodes(t):
            r = walk(c, False)
            if r:
                return r
        return None
    return walk(test, True)


def _note_finished_like(cm: cf.ClassModel) -> None:
    grew = True
    while grew:
        grew = False
        for nm, f in list(cm.getters.items()) + list(cm.methods.items()):
            if nm not in _FINISHED_LIKE and any(isinstance(x, ast.Attribute) and x.attr in _FINISHED_LIKE for x in ast.walk(f)) and nm not in STEP_ROOTS + ['run']:
                _FINISHED_LIKE.add(nm)
                grew = True


_inlx_cache: Dict[Tuple[str, str, Tuple[str, ...]], tuple] = {}


_PURE_CALLEES = {'len', 'min', 'max', 'sum', 'sorted', 'list', 'tuple', 'set', 'dict', 'str', 'repr', 'int', 'bool', 'float', 'enumerate', 'zip', 'range', 'reversed', 'isinstance',
                 'info', 'warning', 'print', 'floor', 'log', 'ceil', 'math.floor', 'math.log', 'math.ceil', 'any', 'all', 'iter', 'next', 'id', 'type', 'hash', 'abs', 'round', 'format'}


def _plan_opaque(nodes, fn: pf.FuncDef, plan: Set[str]) -> Optional[str]:
    """A reason why what the given CFG nodes do to the plan is not fully visible: a mutating method called on a local that aliases object state
    (`b = self._vdses[k]; b.append(x)`), or the object / a plan slot handed to a function that is not known to leave it alone."""
    defs = pf.assignments(fn)
    recv = fn.args.args[0].arg if fn.args.args else 'self'

    def aliases_state(name: str, seen: Tuple[str, ...] = ()) -> bool:
        for d in defs.get(name, []):
            if isinstance(d, ast.arg):
                continue
            for x in ast.walk(d):
                if isinstance(x, ast.Name) and x.id == recv:
                    return True
                if isinstance(x, ast.Name) and x.id in defs and x.id != name and x.id not in seen and aliases_state(x.id, seen + (name,)):
                    return True
        return False
    for n in nodes:
        for c in pf.node_calls(n):
            f = c.func
            if isinstance(f, ast.Attribute) and f.attr in MUTATORS:
                base: ast.AST = f.value
                while isinstance(base, ast.Subscript):
                    base = base.value
                if isinstance(base, ast.Name) and base.id != recv and aliases_state(base.id):
                    return f'`{pf.nsrc(c)[:50]}` changes an object reached through the local `{base.id}`'
            d = pf.dotted(f) or ''
            if d in _PURE_CALLEES or d.startswith(('hl.', 'os.path.', 'json.')) or (isinstance(f, ast.Attribute) and cf.self_attr(f, recv) is not None):
                continue
            for a in list(c.args) + [k.value for k in c.keywords]:
                if (isinstance(a, ast.Name) and a.id == recv) or (cf.self_attr(a, recv) in plan):
                    return f'`{pf.nsrc(c)[:50]}` is handed `{pf.nsrc(a)}`'
    return None


def _inl_excluding(m: pf.Module, target: str, exclude: Tuple[str, ...]):
    k = (m.path, target, exclude)
    if k not in _inlx_cache:
        _inlx_cache[k] = cf.inline_with_setters(m, CLS, target, exclude=exclude)
    return _inlx_cache[k]


def _opaque_callables(fn: pf.FuncDef) -> List[str]:
    """Calls in fn whose callee is a local variable or a computed expression (a bound method held in a local, getattr(...)(), a table lookup)."""
    defs = pf.assignments(fn)
    out = []
    for c in pf.calls_in(fn):
        f = c.func
        if isinstance(f, ast.Name) and f.id in defs:
            out.append(pf.nsrc(c)[:40])
        elif not isinstance(f, (ast.Name, ast.Attribute)):
            out.append(pf.nsrc(c)[:40])
        elif isinstance(f, ast.Attribute) and isinstance(f.value, ast.Call) and pf.dotted(f.value.func) == 'getattr':
            out.append(pf.nsrc(c)[:40])
    return out


def check_run(ctx: Ctx, m: pf.Module, cls: ast.ClassDef) -> None:
    methods = _methods(cls)
    for need in ('run', 'save', 'load', 'step'):
        ctx.need(need in methods, f'anchor vanished: {CLS}.{need}')
    # run with its helpers inlined (a helper that saves and steps is part of the loop), `save` and `step` kept as calls
    _mr, run, il_r = _inl_excluding(m, 'run', ('step', 'save'))
    g = pf.CFG(run)
    steps = g.find(lambda n: _is_self_call(n, 'step'))
    ctx.need(steps, f'{CLS}.run does not call self.step()')
    ctx.need(not _opaque_callables(run), f'{F}::{CLS}.run: call(s) through a local {_opaque_callables(run)[:2]} are not resolved')
    is_save = lambda n: _is_self_call(n, 'save')  # noqa: E731
    is_step = lambda n: _is_self_call(n, 'step')  # noqa: E731
    for s in steps:
        cons = f'{F}::{CLS}.run::self.step()'
        at_s = lambda n, s=s: n is s  # noqa: E731
        p = _firm(g, g.path_avoiding(g.entry, at_s, is_save), run, at_s, is_save, cons)
        p2 = None
        for s0 in steps:
            q = _firm(g, g.path_avoiding(s0, at_s, is_save), run, at_s, is_save, cons)
            if q is not None:
                p2 = q
        if p is not None:
            ctx.bad('R3', cons, 'a path reaches self.step() without a preceding self.save(): a crash during that step leaves no plan describing the inputs it consumed',
                    m.path, s.lineno, extra=[repr(x) for x in p])
        elif p2 is not None:
            ctx.bad('R3', cons, 'a second self.step() can run without a self.save() in between: the plan on disk is two steps old when the second step fails',
                    m.path, s.lineno, extra=[repr(x) for x in p2])
        else:
            ctx.ok('R3', cons, 'every path to step passes save after the previous step')
    # after the last step a save happens before normal exit
    cons = f'{F}::{CLS}.run::final save'
    bad = None
    no_exc = lambda a, b, lab: lab != 'exc'  # noqa: E731
    at_exit = lambda n: n is g.exit  # noqa: E731
    for s in steps:
        p = _firm(g, g.path_avoiding(s, at_exit, is_save, edge_ok=no_exc), run, at_exit, is_save, cons, edge_ok=no_exc)
        if p is not None:
            bad = p
    ctx.check(bad is None, 'R3', cons, 'run can return after a step without saving: the saved plan still lists inputs that were already merged, a later resume merges them twice',
              m.path, run.lineno, extra=[repr(x) for x in bad] if bad else None)
    # run() returns normally only after it has seen `finished` true (the loop is a loop), and step() always runs a step function unless finished
    fin_edge = lambda a, b, lab: lab != 'exc' and not (a.kind == 'test' and _implies_finished(a.ast, lab))  # noqa: E731
    never = lambda n: False  # noqa: E731
    cons = f'{F}::{CLS}.run::returns only when finished'
    p = _firm(g, g.path_avoiding(g.entry, at_exit, never, edge_ok=fin_edge), run, at_exit, never, cons, edge_ok=fin_edge)
    ctx.check(p is None, 'R3', cons, 'run() can return normally without `self.finished` having been true '
              f'(path {[repr(x) for x in (p or [])][-5:]}): pending inputs stay in the plan and the output dataset is never written', m.path, run.lineno)
    cmx = cf.ClassModel(m, CLS)
    stepf = cmx.methods.get('step')
    ctx.need(stepf is not None, f'anchor vanished: {CLS}.step')
    roots = _step_roots(cmx)
    ctx.need(roots, f'{F}::{CLS}.step: no call of a step function (a method that changes the plan) found')
    ctx.need(not _opaque_callables(stepf), f'{F}::{CLS}.step: call(s) through a local {_opaque_callables(stepf)[:2]} are not resolved')
    gs = pf.cfg(stepf)
    is_root = lambda n: any(cf.self_attr(c.func) in roots for c in pf.node_calls(n) if isinstance(c.func, ast.Attribute))  # noqa: E731
    at_exit_s = lambda n: n is gs.exit  # noqa: E731
    cons = f'{F}::{CLS}.step::always steps'
    p = _firm(gs, gs.path_avoiding(gs.entry, at_exit_s, is_root, edge_ok=fin_edge), stepf, at_exit_s, is_root, cons, edge_ok=fin_edge)
    ctx.check(p is None, 'R3', cons, f'step() can return without running one of {roots} although the plan is not exhausted '
              f'(path {[repr(x) for x in (p or [])][-5:]}): run() then saves and steps forever on an unchanged plan', m.path, stepf.lineno)
    # `finished` means: no pending input in any list the steps consume
    fin = cmx.getters.get('finished')
    ctx.need(fin is not None, f'anchor vanished: {CLS}.finished')
    cond = _as_condition(fin)
    ctx.need(cond is not None, f'{F}::{CLS}.finished: unrecognised shape')
    empties = _empty_conjuncts(cond, cmx)
    ctx.need(empties is not None, f'{F}::{CLS}.finished: unrecognised condition `{pf.nsrc(cond)}`')
    top, anyw = _top_level_pending(cmx, roots)
    ctx.need(top, f'{F}::{CLS}: no pending list found in {roots}')
    extra_checked = empties - anyw
    # only the lists a step function slices unconditionally are claimed: a list sliced under a condition (the optional sample names, consumed in
    # lockstep with the GVCFs) need not be tested by `finished`
    ctx.check(top <= empties, 'R3', f'{F}::{CLS}.finished::covers every pending list',
              f'`finished` is `{pf.nsrc(cond)}` but the steps consume {sorted(top)}: with entries left in {sorted(top - empties)} the combiner reports '
              f'finished, run() stops and those inputs never reach the output' + (f' (also tests {sorted(extra_checked)})' if extra_checked else ''), m.path, fin.lineno)
    # save -> json.dump(self, ..., cls=Encoder); Encoder.default -> o.to_dict()
    save = methods['save']
    dumps = [c for c in pf.calls_in(save) if pf.dotted(c.func) == 'json.dump' and c.args and pf.nsrc(c.args[0]) == 'self']
    ctx.need(dumps, f'{F}::{CLS}.save: no `json.dump(self, <stream>, ...)` found')

    def cls_kw(c: ast.Call) -> Optional[str]:
        ks = [k for k in c.keywords if k.arg == 'cls']
        ctx.need(not any(k.arg is None for k in c.keywords), f'{F}::{CLS}.save: **kwargs in `{pf.nsrc(c)[:50]}`')
        return pf.nsrc(pf.resolve_expr(save, ks[0].value)) if ks else None
    enc_of = [cls_kw(c) for c in dumps]
    ctx.need(all(e in (None, 'Encoder') for e in enc_of), f'{F}::{CLS}.save: json.dump with an encoder other than Encoder ({enc_of}) is not analysed')
    ctx.check(all(e == 'Encoder' for e in enc_of), 'R3', f'{F}::{CLS}.save::json.dump', 'save dumps `self` without cls=Encoder: the default JSON encoder cannot '
              f'serialise a {CLS} (TypeError), no plan is ever written', m.path, save.lineno)
    # ... into a stream opened for writing on the save path
    slot_of_param, _pos, _ws, _un = _init_param_map(m, methods['__init__'])
    ctx.need('save_path' in slot_of_param, f'{F}::{CLS}.__init__: save_path parameter not found')
    symc = cf.Sym(m, cmx, cf.named_tuples(m))
    targets = []
    for w in [n for n in pf.walk_shallow(save) if isinstance(n, (ast.With, ast.AsyncWith))]:
        for it in w.items:
            if isinstance(it.optional_vars, ast.Name) and isinstance(it.context_expr, ast.Call) and isinstance(it.context_expr.func, ast.Attribute) \
                    and it.context_expr.func.attr == 'open':
                used = any(len(c.args) >= 2 and isinstance(c.args[1], ast.Name) and c.args[1].id == it.optional_vars.id for c in dumps if any(c is x for x in ast.walk(w)))
                used = used or any(isinstance(k.value, ast.Name) and k.value.id == it.optional_vars.id and k.arg == 'fp' for c in dumps if any(c is x for x in ast.walk(w))
                                   for k in c.keywords)
                if used:
                    oc = it.context_expr
                    ctx.need(not any(isinstance(a, ast.Starred) for a in oc.args) and not any(k.arg is None for k in oc.keywords), f'{F}::{CLS}.save: star arguments in `{pf.nsrc(oc)[:50]}`')
                    path_e = oc.args[0] if oc.args else next((k.value for k in oc.keywords if k.arg in ('path', 'file', 'name', 'url')), None)
                    mode_e = oc.args[1] if len(oc.args) > 1 else next((k.value for k in oc.keywords if k.arg == 'mode'), None)
                    ctx.need(path_e is not None, f'{F}::{CLS}.save: path argument of `{pf.nsrc(oc)[:50]}` not found')
                    if mode_e is None:
                        mode: Optional[str] = 'r'  # the default of every open()
                    else:
                        mode_e = pf.resolve_expr(save, mode_e)
                        mode = mode_e.value if isinstance(mode_e, ast.Constant) and isinstance(mode_e.value, str) else None
                    targets.append((symc.ev(path_e, save), mode, w))
    ctx.need(targets, f'{F}::{CLS}.save: no `with <fs>.open(path, mode) as out: json.dump(self, out, ...)` found')
    save_slot = slot_of_param['save_path']
    okp = any(v == ('slot', save_slot) and mode in ('w', 'wt', 'w+', 'tw') for v, mode, _w in targets)
    if not okp:
        # evidence: every stream the plan is dumped into is fully resolved and none is the save path opened for writing
        for v, mode, _w in targets:
            ctx.need(mode is not None, f'{F}::{CLS}.save: computed open mode')
            ctx.need(not any(x[0] in ('unknown', 'param') for x in cf.leaves(v)), f'{F}::{CLS}.save: cannot resolve the path `{cf.render(v)}` the plan is written to')
    ctx.check(okp, 'R3', f'{F}::{CLS}.save::writes the save path', f'save() dumps the plan to {[(cf.render(v), mode) for v, mode, _w in targets]} instead of writing '
              f'self.{save_slot}: load_combiner / new_combiner read the plan from the save path, so a resumed run starts from a stale or missing plan',
              m.path, targets[0][2].lineno)
    enc = _methods(m.cls('Encoder')).get('default')
    ctx.need(enc is not None, 'anchor vanished: Encoder.default')
    ctx.need(len(enc.args.args) == 2, f'{F}::Encoder.default: unexpected signature')
    ovar = enc.args.args[1].arg
    # the branch taken for a combiner: the first `if isinstance(o, <types incl. the class>)` must return o.to_dict() (possibly through a local)
    verdict: Optional[bool] = None
    for st in enc.body:
        if isinstance(st, ast.Expr) and isinstance(st.value, ast.Constant):
            continue
        if not (isinstance(st, ast.If) and isinstance(st.test, ast.Call) and pf.dotted(st.test.func) == 'isinstance' and len(st.test.args) == 2
                and pf.nsrc(st.test.args[0]) == ovar and not st.orelse):
            break  # a statement in front of the combiner branch that is not a type dispatch: not analysed
        ty = st.test.args[1]
        names = [pf.nsrc(x) for x in (ty.elts if isinstance(ty, ast.Tuple) else [ty])]
        if CLS not in names:
            ctx.need(all(n in ('HailType', 'tmatrix', 'hl.tmatrix', 'str', 'int', 'float', 'bool', 'set', 'frozenset', 'tuple') or n.startswith('hl.') for n in names),
                     f'{F}::Encoder.default: cannot tell whether a {CLS} is an instance of `{pf.nsrc(ty)[:40]}`')
            continue
        rets = [x for x in pf.walk_shallow(ast.Module(body=st.body, type_ignores=[])) if isinstance(x, ast.Return)]
        if len(rets) == 1 and rets[0] is st.body[-1] and rets[0].value is not None:
            val = pf.expand_locals(enc, rets[0].value)
            if pf.nsrc(val) == f'{ovar}.to_dict()':
                verdict = True
            else:
                # another serialisation is evidence when it cannot delegate to to_dict: no method of the object is called and the object is not
                # handed whole to anything but a reading builtin
                delegates = False
                for c in [x for x in ast.walk(val) if isinstance(x, ast.Call)]:
                    if isinstance(c.func, ast.Attribute) and pf.nsrc(c.func.value) == ovar:
                        delegates = True
                    elif (pf.dotted(c.func) or '') not in ('getattr', 'vars', 'str', 'repr', 'dict', 'list', 'tuple', 'sorted', 'type') \
                            and any(isinstance(a, ast.Name) and a.id == ovar for a in list(c.args) + [k.value for k in c.keywords]):
                        delegates = True
                if not delegates:
                    verdict = False
        break
    ctx.need(verdict is not None, f'{F}::Encoder.default: how a {CLS} is serialised is not recognised')
    ctx.check(verdict, 'R3', f'{F}::Encoder.default', f'Encoder.default does not serialise a {CLS} through o.to_dict()', m.path, enc.lineno)
    load = methods['load']
    loads = [c for c in pf.calls_in(load) if pf.dotted(c.func) in ('json.load', 'json.loads')]
    ctx.need(len(loads) == 1 and not any(k.arg is None for k in loads[0].keywords), f'{F}::{CLS}.load: expected one json.load(<stream>, cls=Decoder)')
    dec_kw = [pf.nsrc(pf.resolve_expr(load, k.value)) for k in loads[0].keywords if k.arg == 'cls']
    hook_kw = [pf.nsrc(pf.resolve_expr(load, k.value)) for k in loads[0].keywords if k.arg == 'object_hook']
    ctx.need(not dec_kw or dec_kw == ['Decoder'], f'{F}::{CLS}.load: decoder class `{dec_kw}` is not analysed')
    ctx.need(not hook_kw or hook_kw == ['Decoder._object_hook'], f'{F}::{CLS}.load: object hook `{hook_kw}` is not analysed')
    dinit = _methods(m.cls('Decoder')).get('__init__')
    installs: Optional[bool] = None
    if hook_kw:
        installs = True
    elif dec_kw:
        ctx.need(dinit is not None, f'{F}::Decoder: no __init__; where the object hook is installed is not recognised')
        sup = [c for c in pf.calls_in(dinit) if isinstance(c.func, ast.Attribute) and c.func.attr == '__init__']
        ctx.need(len(sup) == 1, f'{F}::Decoder.__init__: expected one call of the base constructor')
        hk = [pf.nsrc(pf.resolve_expr(dinit, k.value)) for k in sup[0].keywords if k.arg == 'object_hook']
        ctx.need(not hk or hk[0] in ('Decoder._object_hook', 'self._object_hook', 'type(self)._object_hook', 'self.__class__._object_hook'),
                 f'{F}::Decoder.__init__: object hook `{hk}` is not analysed')
        # without the keyword the hook is installed only if the caller passes it (json.load forwards its keywords): load() does not
        installs = bool(hk)
    else:
        installs = False
    ctx.check(installs, 'R3', f'{F}::{CLS}.load::json.load', 'load reads the plan without Decoder._object_hook (no cls=Decoder / the decoder does not install the hook): '
              f'the result is a plain dict, not a {CLS}', m.path, load.lineno)


# ---------------------------------------------------------------------------------------------------------------------------
# partitioning: tiny exact interpreter for the extracted statements
# ---------------------------------------------------------------------------------------------------------------------------
class _Interp:
    """Exact-integer interpretation of the extracted statements.  `emits` maps the `<list>.append(<interval>)` calls of the body to the
    (start position, end position) expressions of the interval they append (resolved through the interval-building helper)."""

    def __init__(self, where: str, emits: Dict[int, Tuple[ast.AST, ast.AST]], length_key: str):
        self.where = where
        self.emits = emits
        self.length_key = length_key
        self.out: List[Tuple[int, int]] = []
        self.steps = 0

    def ev(self, e: ast.AST, env: Dict[str, object]):
        if isinstance(e, ast.Constant) and isinstance(e.value, int) and not isinstance(e.value, bool):
            return e.value
        if isinstance(e, ast.Name):
            if e.id not in env:
                raise AnalysisError(f'{self.where}: unbound name {e.id}')
            return env[e.id]
        if _is_length_lookup(e):
            return env[self.length_key]
        if isinstance(e, ast.BinOp):
            a, b = self.ev(e.left, env), self.ev(e.right, env)
            if isinstance(e.op, ast.Add):
                return a + b
            if isinstance(e.op, ast.Sub):
                return a - b
            if isinstance(e.op, ast.Mult):
                return a * b
            if isinstance(e.op, ast.FloorDiv):
                return a // b
            if isinstance(e.op, ast.Div):
                return Fraction(a) / Fraction(b)
            raise AnalysisError(f'{self.where}: unsupported operator in `{pf.nsrc(e)}`')
        if isinstance(e, ast.UnaryOp) and isinstance(e.op, ast.USub):
            return -self.ev(e.operand, env)
        if isinstance(e, ast.IfExp):
            return self.ev(e.body if self.test(e.test, env) else e.orelse, env)
        if isinstance(e, ast.Call):
            d = pf.dotted(e.func)
            if e.keywords:
                raise AnalysisError(f'{self.where}: unsupported call `{pf.nsrc(e)}`')
            args = [self.ev(a, env) for a in e.args]
            if d in ('math.ceil', 'ceil') and len(args) == 1:
                x = Fraction(args[0])
                return -((-x.numerator) // x.denominator)
            if d in ('math.floor', 'floor', 'int') and len(args) == 1:
                x = Fraction(args[0])
                return x.numerator // x.denominator
            if d == 'min' and len(args) >= 2:
                return min(args)
            if d == 'max' and len(args) >= 2:
                return max(args)
            raise AnalysisError(f'{self.where}: unsupported call `{pf.nsrc(e)}`')
        raise AnalysisError(f'{self.where}: unsupported expression `{pf.nsrc(e)}`')

    def test(self, e: ast.AST, env) -> bool:
        if isinstance(e, ast.Constant) and isinstance(e.value, bool):
            return e.value
        if isinstance(e, ast.UnaryOp) and isinstance(e.op, ast.Not):
            return not self.test(e.operand, env)
        if isinstance(e, ast.BoolOp):
            vals = [self.test(v, env) for v in e.values]
            return all(vals) if isinstance(e.op, ast.And) else any(vals)
        if isinstance(e, ast.Compare) and len(e.ops) == 1:
            a, b = self.ev(e.left, env), self.ev(e.comparators[0], env)
            op = e.ops[0]
            for t, f in ((ast.Lt, a < b), (ast.LtE, a <= b), (ast.Gt, a > b), (ast.GtE, a >= b), (ast.Eq, a == b), (ast.NotEq, a != b)):
                if isinstance(op, t):
                    return f
        raise AnalysisError(f'{self.where}: unsupported test `{pf.nsrc(e)}`')

    class _Flow(Exception):
        def __init__(self, kind: str):
            self.kind = kind

    def run(self, stmts, env) -> None:
        for st in stmts:
            self.steps += 1
            if self.steps > 200000:
                raise AnalysisError(f'{self.where}: extracted loop does not terminate within the step budget')
            if isinstance(st, ast.Assign) and len(st.targets) == 1 and isinstance(st.targets[0], ast.Name):
                if isinstance(st.value, ast.List) and not st.value.elts:
                    continue  # intervals = []
                env[st.targets[0].id] = self.ev(st.value, env)
            elif isinstance(st, ast.AnnAssign) and isinstance(st.target, ast.Name) and st.value is not None:
                if isinstance(st.value, ast.List) and not st.value.elts:
                    continue
                env[st.target.id] = self.ev(st.value, env)
            elif isinstance(st, ast.AugAssign) and isinstance(st.target, ast.Name) and isinstance(st.op, (ast.Add, ast.Sub)):
                v = self.ev(st.value, env)
                env[st.target.id] = env[st.target.id] + v if isinstance(st.op, ast.Add) else env[st.target.id] - v  # type: ignore[operator]
            elif isinstance(st, ast.While):
                try:
                    while self.test(st.test, env):
                        try:
                            self.run(st.body, env)
                        except _Interp._Flow as f:
                            if f.kind == 'break':
                                raise
                    self.run(st.orelse, env)
                except _Interp._Flow as f:
                    if f.kind != 'break':
                        raise
            elif isinstance(st, ast.If):
                self.run(st.body if self.test(st.test, env) else st.orelse, env)
            elif isinstance(st, ast.Expr) and isinstance(st.value, ast.Call) and id(st.value) in self.emits:
                a, b = (self.ev(x, env) for x in self.emits[id(st.value)])
                self.out.append((a, b))  # type: ignore[arg-type]
            elif isinstance(st, ast.Expr) and isinstance(st.value, ast.Constant):
                continue
            elif isinstance(st, ast.Pass):
                continue
            elif isinstance(st, ast.Break):
                raise _Interp._Flow('break')
            elif isinstance(st, ast.Continue):
                raise _Interp._Flow('continue')
            elif isinstance(st, ast.Return):
                raise _Interp._Flow('return')
            elif isinstance(st, (ast.FunctionDef,)):
                continue
            else:
                raise AnalysisError(f'{self.where}: unsupported statement `{pf.nsrc(st)[:80]}`')


_LENGTH_ALIASES: Set[str] = set()


def _is_length_lookup(e: ast.AST) -> bool:
    """`<reference genome>.lengths[<contig>]`: the contig length (ReferenceGenome.lengths is the contig -> length dict); also through a local
    that holds the dict (`lengths = reference_genome.lengths`, registered in _LENGTH_ALIASES by _partition_model)."""
    if not (isinstance(e, ast.Subscript) and not isinstance(e.slice, ast.Slice)):
        return False
    return (isinstance(e.value, ast.Attribute) and e.value.attr == 'lengths') or (isinstance(e.value, ast.Name) and e.value.id in _LENGTH_ALIASES)


def _ctor_args(call: ast.Call, names: List[str], where: str) -> Dict[str, ast.AST]:
    """Arguments of a constructor call by parameter name (positional arguments matched against `names`)."""
    if any(isinstance(a, ast.Starred) for a in call.args) or any(k.arg is None for k in call.keywords) or len(call.args) > len(names):
        raise AnalysisError(f'{where}: unrecognised arguments of `{pf.nsrc(call)[:70]}`')
    out: Dict[str, ast.AST] = dict(zip(names, call.args))
    for k in call.keywords:
        if k.arg in out:
            raise AnalysisError(f'{where}: argument {k.arg} given twice in `{pf.nsrc(call)[:70]}`')
        out[k.arg] = k.value  # type: ignore[index]
    return out


def _init_names(rel: str, qual: str) -> Tuple[List[str], Dict[str, ast.AST]]:
    ii = pf.load(rel).func(qual)
    names = [a.arg for a in ii.args.args][1:]
    return names, dict(zip(names[len(names) - len(ii.args.defaults):], ii.args.defaults))


def _interval_of(e: ast.AST, helpers: Dict[str, pf.FuncDef], where: str, depth: int = 0):
    """(start position, end position, includes_start, includes_end) of an expression that builds one locus interval: an `hl.Interval(...)` call whose
    end points are `hl.Locus(...)` calls, possibly behind expression helpers (`def f(a, b): return hl.Interval(...)`), whose parameters are
    substituted by the arguments of the call.  Raises AnalysisError for anything else."""
    if not isinstance(e, ast.Call) or depth > 3:
        raise AnalysisError(f'{where}: `{pf.nsrc(e)[:60]}` is not a recognised interval constructor')
    if isinstance(e.func, ast.Name) and e.func.id in helpers:
        h = helpers[e.func.id]
        body = cf._strip_doc(h.body)
        if len(body) != 1 or not isinstance(body[0], ast.Return) or body[0].value is None or h.args.vararg or h.args.kwarg or h.decorator_list:
            raise AnalysisError(f'{where}: helper {h.name} is not a single `return <interval>`')
        params = [a.arg for a in h.args.posonlyargs + h.args.args + h.args.kwonlyargs]
        bound = _ctor_args(e, [a.arg for a in h.args.posonlyargs + h.args.args], where)
        pos = h.args.posonlyargs + h.args.args
        dfl = dict(zip([a.arg for a in pos][len(pos) - len(h.args.defaults):], h.args.defaults))
        dfl.update({a.arg: d for a, d in zip(h.args.kwonlyargs, h.args.kw_defaults) if d is not None})
        for p in params:
            if p not in bound:
                if p not in dfl:
                    raise AnalysisError(f'{where}: parameter {p} of {h.name} is not bound by `{pf.nsrc(e)[:60]}`')
                bound[p] = dfl[p]
        if set(bound) - set(params):
            raise AnalysisError(f'{where}: `{pf.nsrc(e)[:60]}` passes unknown keyword(s) to {h.name}')
        return _interval_of(_subst(body[0].value, bound), {k: v for k, v in helpers.items() if k != h.name}, where, depth + 1)
    if pf.dotted(e.func) not in ('hl.Interval', 'Interval', 'hl.utils.Interval', 'hl.utils.interval.Interval', 'hail.Interval', 'hail.utils.Interval'):
        raise AnalysisError(f'{where}: `{pf.nsrc(e)[:60]}` is not a recognised interval constructor')
    inames, idfl = _init_names('hail/python/hail/utils/interval.py', 'Interval.__init__')
    for nm in ('start', 'end', 'includes_start', 'includes_end'):
        if nm not in inames:
            raise AnalysisError(f'Interval.__init__: parameter {nm} not found')
    ia = _ctor_args(e, inames, where)
    lnames, _ldfl = _init_names('hail/python/hail/genetics/locus.py', 'Locus.__init__')
    if 'position' not in lnames:
        raise AnalysisError('Locus.__init__: parameter position not found')

    def pos_of(x: Optional[ast.AST]) -> ast.AST:
        if not (isinstance(x, ast.Call) and pf.dotted(x.func) in ('hl.Locus', 'Locus', 'hl.genetics.Locus', 'hail.Locus', 'hail.genetics.Locus')):
            raise AnalysisError(f'{where}: interval end point `{pf.nsrc(x)[:50] if x is not None else None}` is not a Locus(...)')
        la = _ctor_args(x, lnames, where)
        if 'position' not in la:
            raise AnalysisError(f'{where}: `{pf.nsrc(x)[:50]}` has no position')
        return la['position']

    def flag(name: str) -> bool:
        v = ia.get(name, idfl.get(name))
        if not (isinstance(v, ast.Constant) and isinstance(v.value, bool)):
            raise AnalysisError(f'{where}: {name} is not a literal')
        return v.value
    return pos_of(ia.get('start')), pos_of(ia.get('end')), flag('includes_start'), flag('includes_end')


def _partition_model(ctx: Ctx, mc: pf.Module):
    fn = mc.func('calculate_even_genome_partitioning')
    where = f'{FC}::calculate_even_genome_partitioning.calc_parts'
    pos = fn.args.posonlyargs + fn.args.args
    ctx.need(len(pos) == 2 and not fn.args.kwonlyargs, f'{FC}::calculate_even_genome_partitioning: expected (reference_genome, interval_size)')
    size_param = pos[1].arg
    nested = [f for f in ast.walk(fn) if isinstance(f, ast.FunctionDef) and f is not fn]
    # the per-contig function is the nested function that holds the loop (whatever it is called)
    loops = [f for f in nested if any(isinstance(x, (ast.While, ast.For)) for x in pf.walk_shallow(f))]
    ctx.need(len(loops) == 1, f'{where}: expected one nested function with the interval loop, found {[f.name for f in loops]}')
    calc = loops[0]
    helpers = {f.name: f for f in nested if f is not calc}
    helpers.update({f.name: f for f in mc.tree.body if isinstance(f, ast.FunctionDef) and f is not fn and f.name not in helpers})
    # the statements to interpret: everything in calc_parts except nested defs and the length lookup
    body = []
    length_var = '<contig length>'
    _LENGTH_ALIASES.clear()
    for f in (fn, calc):
        for nm, ds in pf.assignments(f).items():
            if len(ds) == 1 and isinstance(ds[0], ast.Attribute) and ds[0].attr == 'lengths':
                _LENGTH_ALIASES.add(nm)
    for st in calc.body:
        if isinstance(st, (ast.FunctionDef,)):
            continue
        if isinstance(st, ast.Assign) and len(st.targets) == 1 and isinstance(st.targets[0], ast.Name) and st.targets[0].id in _LENGTH_ALIASES:
            continue
        if isinstance(st, ast.Assign) and len(st.targets) == 1 and isinstance(st.targets[0], ast.Name) and _is_length_lookup(st.value):
            ctx.need(length_var == '<contig length>', f'{where}: two contig length lookups')
            length_var = st.targets[0].id
            continue
        body.append(st)
    ctx.need(length_var != '<contig length>' or any(_is_length_lookup(x) for st in body for x in ast.walk(st)), f'{where}: contig length lookup not found')
    list_names = [st.targets[0].id for st in body if isinstance(st, ast.Assign) and len(st.targets) == 1 and isinstance(st.targets[0], ast.Name)
                  and isinstance(st.value, ast.List) and not st.value.elts]
    list_names += [st.target.id for st in body if isinstance(st, ast.AnnAssign) and isinstance(st.target, ast.Name) and isinstance(st.value, ast.List) and not st.value.elts]
    ctx.need(len(list_names) == 1, f'{where}: result list not found')
    ret = [st for st in pf.walk_shallow(calc) if isinstance(st, ast.Return)]
    ctx.need(len(ret) == 1 and ret[0] in body and isinstance(ret[0].value, ast.Name) and ret[0].value.id == list_names[0], f'{where}: does not return the interval list')
    # every other use of the list is `<list>.append(<interval>)` as a statement
    emits: Dict[int, Tuple[ast.AST, ast.AST]] = {}
    flags: Set[Tuple[bool, bool]] = set()
    appends = [st.value for st in pf.walk_shallow(calc) if isinstance(st, ast.Expr) and isinstance(st.value, ast.Call) and isinstance(st.value.func, ast.Attribute)
               and st.value.func.attr == 'append' and isinstance(st.value.func.value, ast.Name) and st.value.func.value.id == list_names[0]]
    uses = [n for n in pf.walk_shallow(calc) if isinstance(n, ast.Name) and n.id == list_names[0] and isinstance(n.ctx, ast.Load)]
    ctx.need(appends and len(uses) == len(appends) + 1, f'{where}: the interval list is used other than by `.append(<interval>)` statements and the final return')
    for c in appends:
        ctx.need(len(c.args) == 1 and not c.keywords, f'{where}: unrecognised `{pf.nsrc(c)[:60]}`')
        s_e, e_e, inc_s, inc_e = _interval_of(c.args[0], helpers, where)
        emits[id(c)] = (s_e, e_e)
        flags.add((inc_s, inc_e))
    ctx.need(len(flags) == 1, f'{where}: intervals of different closedness are appended')
    inc_start, inc_end = next(iter(flags))

    def simulate(L: int, S: int) -> List[Tuple[int, int]]:
        it = _Interp(where, emits, length_var)
        try:
            it.run(body, {length_var: L, size_param: S})
        except _Interp._Flow as f:
            if f.kind != 'return':
                raise AnalysisError(f'{where}: `{f.kind}` outside a loop')
        return it.out

    return simulate, inc_start, inc_end, calc


def _judge(parts: List[Tuple[int, int]], L: int, S: int, inc_start: bool, inc_end: bool):
    """(coverage problem, length problem) for one (L, S); interval arithmetic only (contigs have 10^8 bases)."""
    eff = []
    longest = 0
    out_of_range = None
    for a, b in parts:
        lo = a if inc_start else a + 1
        hi = b if inc_end else b - 1
        if hi < lo:
            continue
        longest = max(longest, hi - lo + 1)
        if lo < 1:
            out_of_range = lo
        if hi > L:
            out_of_range = hi
        eff.append((lo, hi))
    eff.sort()
    missing: List[int] = []
    twice: List[int] = []
    expected = 1
    for lo, hi in eff:
        if lo > expected and len(missing) < 4:
            missing += list(range(expected, min(lo, expected + 4)))
        if lo < expected and len(twice) < 4:
            twice += list(range(max(lo, 1), min(hi, expected - 1) + 1))[:4]
        expected = max(expected, hi + 1)
    if expected <= L and len(missing) < 4:
        missing += list(range(expected, min(L + 1, expected + 4)))
    missing = [x for x in missing if 1 <= x <= L]
    cp = None
    if missing:
        kind = 'last base uncovered' if missing == [L] else 'gap'
        cp = (kind, f'base(s) {missing[:3]}{"..." if len(missing) > 3 else ""} of 1..{L} are in no interval')
    elif twice:
        cp = ('overlap', f'base(s) {twice[:3]} are in more than one interval')
    elif out_of_range is not None:
        cp = ('out of range', f'position {out_of_range} lies outside 1..{L}')
    lp = None
    if longest > S:
        lp = ('one base too long' if longest == S + 1 else 'too long', f'an interval spans {longest} bases')
    return cp, lp


def _fold_int(e: ast.AST) -> Optional[int]:
    """Value of an integer literal expression (`1_200_000`, `1200 * 1000`, `60 * 10 ** 6`): constant folding of literals only."""
    if isinstance(e, ast.Constant) and type(e.value) is int:
        return e.value
    if isinstance(e, ast.UnaryOp) and isinstance(e.op, (ast.USub, ast.UAdd)):
        a = _fold_int(e.operand)
        return None if a is None else (-a if isinstance(e.op, ast.USub) else a)
    if isinstance(e, ast.BinOp):
        a, b = _fold_int(e.left), _fold_int(e.right)
        if a is None or b is None:
            return None
        if isinstance(e.op, ast.Add):
            return a + b
        if isinstance(e.op, ast.Sub):
            return a - b
        if isinstance(e.op, ast.Mult):
            return a * b
        if isinstance(e.op, ast.FloorDiv) and b != 0:
            return a // b
        if isinstance(e.op, ast.Pow) and 0 <= b <= 64:
            return a ** b
    if isinstance(e, ast.Call) and pf.dotted(e.func) == 'int' and len(e.args) == 1 and not e.keywords:
        return _fold_int(e.args[0])
    return None


def check_partitioning(ctx: Ctx, m: pf.Module) -> None:
    mc = pf.load(FC)
    simulate, inc_start, inc_end, calc = _partition_model(ctx, mc)
    N = 80 if ctx.tier != 'thorough' else 200
    bad: Dict[Tuple[str, str], List[Tuple[int, int, str, list]]] = {}
    n = 0
    for L in range(1, N + 1):
        for S in range(1, N + 1):
            parts = simulate(L, S)
            cp, lp = _judge(parts, L, S, inc_start, inc_end)
            n += 1
            if cp:
                bad.setdefault(('R4', cp[0]), []).append((L, S, cp[1], parts))
            if lp:
                bad.setdefault(('R5', lp[0]), []).append((L, S, lp[1], parts))
    ctx.unit('partition_domain_points', n)
    # real contig lengths: the mitochondrial contigs for a range of sizes, and a few probe points on large contigs
    real: List[Tuple[str, str, int]] = []
    lengths: Dict[Tuple[str, str], int] = {}
    for rg, rel in (('GRCh37', 'hail/hail/resources/reference/grch37.json'), ('GRCh38', 'hail/hail/resources/reference/grch38.json')):
        try:
            data = json.loads(read_repo(rel))
            for c in data['contigs'][:25]:
                lengths[(rg, c['name'])] = c['length']
                if c['length'] <= 20000:
                    real.append((rg, c['name'], c['length']))
        except (AnalysisError, KeyError, ValueError):
            continue
    witness: Dict[Tuple[str, str], str] = {}
    points = [(rg, name, lengths[(rg, name)], S) for rg, name, S in PROBES if (rg, name) in lengths]
    points += [(rg, name, L, S) for rg, name, L in real for S in range(100, 201)]
    for rg, name, L, S in points:
        cp, lp = _judge(simulate(L, S), L, S, inc_start, inc_end)
        n += 1
        if cp:
            witness.setdefault(('R4', cp[0]), f'{rg} contig {name} (length {L}) with interval_size={S}: {cp[1]}')
        if lp:
            witness.setdefault(('R5', lp[0]), f'{rg} contig {name} (length {L}) with interval_size={S}: {lp[1]}')
    for k, w in witness.items():
        bad.setdefault(k, [])
    ctx.extra_cov['partition_points_evaluated'] = n
    cons = f'{FC}::calculate_even_genome_partitioning.calc_parts'
    for rule, what, text in (('R4', 'coverage', 'the intervals do not cover every base of the contig exactly once'),
                             ('R5', 'length', 'intervals are longer than the requested interval_size')):
        kinds = sorted(k for (r, k) in bad if r == rule)
        if not kinds:
            ctx.ok(rule, f'{cons}::{what}', {'pairs': N * N, 'closed': [inc_start, inc_end]})
        for kind in kinds:
            lst = bad[(rule, kind)]
            msg = f'{text} ({kind}): '
            if lst:
                L, S, pr, parts = min(lst, key=lambda t: (t[0] + t[1], t[0]))
                msg += f'contig_length={L}, interval_size={S} gives {parts}: {pr}'
                multi = [t for t in lst if t[0] > 2 and (t[0], t[1]) != (L, S)]
                if multi and L <= 2:
                    L2, S2, pr2, parts2 = min(multi, key=lambda t: (t[0] + t[1], t[0]))
                    msg += f'; contig_length={L2}, interval_size={S2} gives {parts2}: {pr2}'
                msg += f' ({len(lst)} of {N * N} evaluated (length, size) pairs fail'
            else:
                msg += '(no pair of the small domain fails'
            if (rule, kind) in witness:
                msg += f'; {witness[(rule, kind)]}'
            msg += ')'
            ctx.bad(rule, f'{cons}::{what}::{kind}', msg, mc.path, calc.lineno, extra=[(a, b, c) for a, b, c, _ in lst[:20]])
    # every call site passes a reference genome and a size; the default sizes are positive integers
    cls = m.cls(CLS)
    for nm in ('default_genome_interval_size', 'default_exome_interval_size'):
        v = _class_assign(cls, nm)
        val = _fold_int(v)
        ctx.need(val is not None or isinstance(v, ast.Constant), f'{F}::{CLS}.{nm}: `{pf.nsrc(v)[:50]}` is not a literal integer expression')
        ctx.check(val is not None and val >= 1, 'R5', f'{F}::{CLS}.{nm}',
                  f'{nm} = {pf.nsrc(v)} is not a positive integer: math.ceil(contig_length / interval_size) divides by it', m.path, v.lineno)


# ---------------------------------------------------------------------------------------------------------------------------
# R6 / R9 / R10: where intermediates are written, what names them, when they are recorded and deleted
# ---------------------------------------------------------------------------------------------------------------------------
# callable name (last attribute) -> (positional index, keyword) of the path argument
WRITERS = {'write': (0, 'output'), 'checkpoint': (0, 'output'), 'write_variant_datasets': (1, 'paths'), 'write_many': (0, 'output'),
           'write_matrix_tables': (1, 'paths'), 'export': (0, 'output')}
DELETERS = {'remove', 'rmtree', 'rm', 'rmdir', 'unlink', 'hadoop_rm', 'delete', 'remove_dir'}
PLAN_ADD = {'append', 'extend', 'insert', 'add', 'update', 'setdefault'}


_inl_cache: Dict[Tuple[str, str, bool], tuple] = {}


def _inl(m: pf.Module, target: str, setter: bool = False):
    """cf.inline_with_setters, memoised per (file, method): callers treat the result as read-only."""
    k = (m.path, target, setter)
    if k not in _inl_cache:
        _inl_cache[k] = cf.inline_with_setters(m, CLS, target, target_is_setter=setter)
        cn.forward_single_use(_inl_cache[k][1])  # N9: arguments the inliner bound to a local go back into the store that uses them
    return _inl_cache[k]


_root_cache: Dict[Tuple[str, str], '_Root'] = {}


def _root(m: pf.Module, name: str) -> '_Root':
    k = (m.path, name)
    if k not in _root_cache:
        _root_cache[k] = _Root(m, name)
    return _root_cache[k]


class _Root:
    """One step function (a method `step` calls) with helpers and setters inlined."""

    def __init__(self, m: pf.Module, name: str):
        self.name = name
        self.m2, self.fn, self.il = _inl(m, name)
        self.cm = cf.ClassModel(self.m2, CLS)
        cf.resolve_property_reads(self.fn, self.cm.getter_alias())
        self.sym = cf.Sym(self.m2, self.cm, cf.named_tuples(self.m2))
        self.g = pf.CFG(self.fn)
        self.par: Dict[ast.AST, ast.AST] = {}
        for a in ast.walk(self.fn):
            for c in ast.iter_child_nodes(a):
                self.par[c] = a

    def in_loop(self, node: ast.AST) -> bool:
        cur = self.par.get(node)
        while cur is not None and cur is not self.fn:
            if isinstance(cur, (ast.For, ast.AsyncFor, ast.While, ast.ListComp, ast.GeneratorExp, ast.SetComp, ast.DictComp)):
                return True
            cur = self.par.get(cur)
        return False


def _path_arg(c: ast.Call) -> Optional[ast.expr]:
    pos, kw = WRITERS[c.func.attr]  # type: ignore[attr-defined]
    for k in c.keywords:
        if k.arg in (kw, 'path', 'paths'):
            return k.value
    return c.args[pos] if len(c.args) > pos else None


def _overwrite(c: ast.Call) -> Optional[bool]:
    for k in c.keywords:
        if k.arg == 'overwrite':
            return k.value.value if isinstance(k.value, ast.Constant) and isinstance(k.value.value, bool) else None
    return False


def _is_output(v: cf.Val) -> bool:
    return v == ('slot', OUTPUT_SLOT[0]) or v == ('list', ('slot', OUTPUT_SLOT[0]))


def _has_fresh(v: cf.Val) -> bool:
    k = v[0]
    if k == 'fresh':
        return True
    if k == 'alt':
        return all(_has_fresh(x) for x in v[1])
    if k == 'cat':
        return any(_has_fresh(x) for x in v[1])
    if k == 'det':
        return any(_has_fresh(x) for x in v[2])
    if k == 'list':
        return _has_fresh(v[1])
    return False


def _step_roots(cm: cf.ClassModel) -> List[str]:
    step = cm.methods.get('step')
    if step is None:
        raise AnalysisError(f'anchor vanished: {CLS}.step')
    out: List[str] = []

    try:
        plan = set(_str_list(_class_assign(cm.cls, '__serialized_slots__'), f'{F}::{CLS}.__serialized_slots__', {}))
    except AnalysisError:
        plan = set()

    def mutates_state(name: str, seen: Tuple[str, ...] = ()) -> bool:
        """The method changes the plan: a serialised slot (a helper that only bumps the job counter or fills a cache is not a step function)."""
        f = cm.methods.get(name)
        if f is None or name in seen:
            return False
        if any(a in plan or not plan for a, _n, _h in _mutations(f)):
            return True
        return any(isinstance(c.func, ast.Attribute) and cf.self_attr(c.func) is not None and mutates_state(cf.self_attr(c.func), seen + (name,))  # type: ignore[arg-type]
                   for c in pf.calls_in(f))
    for c in pf.calls_in(step):
        a = cf.self_attr(c.func) if isinstance(c.func, ast.Attribute) else None
        # a step function changes the object; `self.save()`, logging helpers ... called from step() are not step functions
        if a is not None and a in cm.methods and a not in out and mutates_state(a):
            out.append(a)
    return out


def _slot_writes_outside_init(m: pf.Module, cm: cf.ClassModel, slot_or_props: Set[str]) -> List[Tuple[str, pf.FuncDef, ast.Assign, str]]:
    """(qualified function, function, assignment, attribute) for every store `<x>.<attr> = v` / `<x>.<attr> op= v` with attr in the set, outside __init__."""
    out = []
    for q, fn in m.functions():
        if q == f'{CLS}.__init__':
            continue
        for st in pf.walk_shallow(fn):
            ts: List[ast.AST] = []
            if isinstance(st, ast.Assign):
                ts = [x for t in st.targets for x in (t.elts if isinstance(t, (ast.Tuple, ast.List)) else [t])]
            elif isinstance(st, (ast.AugAssign, ast.AnnAssign)):
                ts = [st.target]
            for t in ts:
                if isinstance(t, ast.Attribute) and isinstance(t.value, ast.Name) and t.attr in slot_or_props:
                    out.append((q, fn, st, t.attr))
    return out


def _slot_facts(ctx: Ctx, m: pf.Module, cm: cf.ClassModel, ser: List[str], closure: List[str]):
    """How each slot gets its value in a new object, and how the steps advance it."""
    m_i, init_i, _il = _inl(m, '__init__')
    cm_i = cf.ClassModel(m_i, CLS)
    sym_i = cf.Sym(m_i, cm_i, cf.named_tuples(m_i))
    init_vals: Dict[str, List[cf.Val]] = {}
    for st in pf.walk_shallow(init_i):
        if isinstance(st, ast.Assign):
            for t in st.targets:
                a = cf.self_attr(t, init_i.args.args[0].arg)
                if a is not None:
                    init_vals.setdefault(_unmangle(a), []).append(sym_i.ev(st.value, init_i))
    # counters: `self.S += c` (c >= 1) in a step function, and no other store to S there
    counters: Dict[str, List[Tuple[str, ast.AST]]] = {}
    other_stores: Dict[str, List[str]] = {}
    for meth in closure:
        fn = cm.methods.get(meth) or cm.getters.get(meth)
        if fn is None:
            continue
        for attr, node, how in _mutations(fn):
            attr = _unmangle(attr)
            if isinstance(node, ast.AugAssign) and isinstance(node.target, ast.Attribute) and isinstance(node.op, ast.Add) \
                    and isinstance(node.value, ast.Constant) and isinstance(node.value.value, int) and node.value.value >= 1:
                counters.setdefault(attr, []).append((meth, node))
            elif isinstance(node, ast.AugAssign) and isinstance(node.target, ast.Attribute) and isinstance(node.op, (ast.Add, ast.Sub)) \
                    and isinstance(node.value, ast.Constant) and type(node.value.value) is int and node.value.value == 0:
                continue  # `self.x += 0`: a recognised store that advances nothing
            elif how == 'assigned' and isinstance(getattr(node, 'targets', [None])[0] if isinstance(node, ast.Assign) else getattr(node, 'target', None), ast.Attribute):
                other_stores.setdefault(attr, []).append(meth)
    return init_vals, counters, other_stores, sym_i


def _unmangle(a: str) -> str:
    pre = f'_{CLS}__'
    return '__' + a[len(pre):] if a.startswith(pre) else a


def _describe_component(slot: str, ser: List[str], init_vals, counters, other_stores, ext_bad: Dict[str, str]) -> Tuple[bool, bool, str]:
    """(distinct across save/resume, advanced between steps, description)."""
    is_counter = slot in counters and slot not in other_stores
    if slot in ser:
        if is_counter:
            return True, True, f'self.{slot}: saved with the plan and advanced by the steps (persisted counter)'
        return False, False, f'self.{slot}: saved with the plan and restored unchanged'
    vals = init_vals.get(slot)
    if not vals:
        raise AnalysisError(f'{F}: path component self.{slot} is neither serialised nor initialised in __init__')
    fresh = all(_has_fresh(v) for v in vals)
    unknown = [x for v in vals for x in cf.leaves(v) if x[0] == 'unknown']
    if not fresh and unknown:
        raise AnalysisError(f'{F}::{CLS}.__init__: cannot classify the initial value of self.{slot}: `{cf.render(vals[-1])[:80]}`')
    desc = cf.render(vals[-1])
    if fresh and slot in ext_bad:
        return False, is_counter, f'self.{slot}: fresh in __init__ ({desc}) but overwritten with a reproducible value by {ext_bad[slot]}'
    if fresh:
        return True, is_counter, f'self.{slot}: not saved; a new object draws {desc}'
    srcs = sorted({x[1] for v in vals for x in cf.leaves(v) if x[0] == 'param'})
    how = f'a deterministic function of the constructor argument(s) {srcs}, which the saved plan restores' if srcs else 'a constant'
    return False, is_counter, (f'self.{slot}: not saved; every new object (so every resumed run) starts it at {desc} - {how}'
                               + ('; the steps advance it only within one process' if is_counter else ''))


def _implies_finished(test: ast.AST, label: str) -> bool:
    """Taking the edge `label` out of `test` implies the `finished` property is true (plan exhausted)."""
    def pos(t: ast.AST) -> bool:
        return cf.self_attr(t) == 'finished'

    def neg(t: ast.AST) -> bool:
        return isinstance(t, ast.UnaryOp) and isinstance(t.op, ast.Not) and pos(t.operand)
    if label == 'T':
        return pos(test) or (isinstance(test, ast.BoolOp) and isinstance(test.op, ast.And) and any(pos(v) for v in test.values))
    if label == 'F':
        return neg(test) or (isinstance(test, ast.BoolOp) and isinstance(test.op, ast.Or) and any(neg(v) for v in test.values))
    return False


def check_paths(ctx: Ctx, m: pf.Module, cls: ast.ClassDef, ser: List[str], slots: List[str]) -> None:
    cm = cf.ClassModel(m, CLS)
    closure = _step_closure({**cm.getters, **cm.methods})
    slot_of_param, _pos, _ws, _un = _init_param_map(m, cm.methods['__init__'])
    ctx.need('output_path' in slot_of_param and 'save_path' in slot_of_param, f'{F}::{CLS}.__init__: output_path / save_path parameters not found')
    OUTPUT_SLOT[0], SAVE_SLOT[0] = slot_of_param['output_path'], slot_of_param['save_path']
    init_vals, counters, other_stores, _sym_i = _slot_facts(ctx, m, cm, ser, closure)
    roots = [_root(m, r) for r in _step_roots(cm)]
    ctx.need(roots, f'{CLS}.step calls no step function')
    for r in roots:
        ctx.need(not r.il.skipped, f'{F}::{CLS}.{r.name}: helper(s) that could not be inlined: {r.il.skipped[:3]}')
    # stores to path components outside __init__ and the steps (e.g. `combiner._uuid = ...` after a load)
    comp_slots: Set[str] = set()
    writes = []  # (root, call, path value)
    for r in roots:
        for c in pf.calls_in(r.fn):
            if isinstance(c.func, ast.Attribute) and c.func.attr in WRITERS:
                pa = _path_arg(c)
                if pa is None:
                    continue
                v = r.sym.ev(pa, r.fn)
                writes.append((r, c, v))
                if not _is_output(v):
                    comp_slots |= {x[1] for x in cf.leaves(v) if x[0] == 'slot'}
    ext_bad: Dict[str, str] = {}
    for q, fn, st, attr in _slot_writes_outside_init(m, cm, comp_slots - set(ser)):
        if q.startswith(CLS + '.') and q.split('.')[1] in closure:
            continue
        v = cf.Sym(m, cm if q.startswith(CLS + '.') else None, cf.named_tuples(m)).ev(getattr(st, 'value', None), fn)
        if not _has_fresh(v):
            ext_bad[attr] = f'{q} (`{pf.nsrc(st)[:70]}`)'
    # job-counter discipline on `step` with everything inlined (names may clash there: only the control flow is used)
    _ms, step_i, il_s = _inl(m, 'step')
    gs = pf.CFG(step_i)
    inter_nodes = []
    for c in pf.calls_in(step_i):
        if isinstance(c.func, ast.Attribute) and c.func.attr in WRITERS:
            pa = _path_arg(c)
            if pa is not None and pf.nsrc(pa) != f'self.{OUTPUT_SLOT[0]}':
                inter_nodes += gs.node_of(c)
    n_inter = sum(1 for _r, _c, v in writes if not _is_output(v))
    ctx.need(n_inter >= 1, f'{F}::{CLS}: no intermediate dataset write found in the step functions {[r.name for r in roots]}')
    ctx.need(not il_s.skipped and len(inter_nodes) >= n_inter, f'{F}::{CLS}.step: could not inline the step functions ({il_s.skipped[:2]})')

    def advanced_after_every_write(slot: str) -> Optional[List[pf.Node]]:
        """None when every path from an intermediate write to the end of step() either bumps self.<slot> or leaves through a branch on
        which the plan is exhausted; else a witness path."""
        def bumps(n: pf.Node) -> bool:
            a = n.ast
            return isinstance(a, ast.AugAssign) and cf.self_attr(a.target) in (slot, f'_{CLS}{slot}') and isinstance(a.op, ast.Add)
        fin_edge = lambda a, b, lab: lab != 'exc' and not (a.kind == 'test' and _implies_finished(a.ast, lab))  # noqa: E731
        at_exit = lambda n: n is gs.exit  # noqa: E731
        for w in inter_nodes:
            p = _firm(gs, gs.path_avoiding(w, at_exit, bumps, edge_ok=fin_edge), step_i, at_exit, bumps, f'{F}::{CLS}.step::self.{slot} advanced after every write', edge_ok=fin_edge)
            if p is not None:
                return p
        return None

    for r, c, v in writes:
        callee = pf.dotted(c.func) or ('.' + c.func.attr)  # type: ignore[attr-defined]
        what = callee if not callee.split('.')[0].islower() or '.' not in callee else callee
        what = what if callee.startswith(('hl.', 'hail.')) else '.' + c.func.attr  # type: ignore[attr-defined]
        cons = f'{F}::{CLS}.{r.name}::{what}'
        if _is_output(v):
            continue
        elem = v[1] if v[0] == 'list' else v
        lv = list(cf.leaves(elem))
        unknown = [x for x in lv if x[0] in ('unknown', 'param')]
        shown = cf.render(elem)
        ow = _overwrite(c)
        ow_txt = ('written with overwrite=True, so the second write silently replaces the first' if ow else
                  'written without overwrite=True, so the second write fails loudly - the resumed run cannot complete' if ow is False else
                  'written with a computed overwrite flag')
        comps = []
        resume_ok = steps_ok = any(x[0] == 'fresh' for x in lv)
        for sl in sorted({x[1] for x in lv if x[0] == 'slot'}):
            a, b, d = _describe_component(sl, ser, init_vals, counters, other_stores, ext_bad)
            comps.append(d)
            resume_ok = resume_ok or a
            if b and advanced_after_every_write(sl) is None:
                steps_ok = True
        if any(x[0] in ('slotelem', 'field') for x in lv):
            comps.append('a path taken from a plan entry')
        if any(x[0] == 'index' for x in lv):
            comps.append('<index>: position within one step, restarts at 0 in every step')
        # (a) across save / resume
        if resume_ok:
            ctx.ok('R6', cons + '::resume', {'path': shown, 'components': comps})
        else:
            ctx.need(not unknown, f'{cons}: cannot resolve path component(s) {[cf.render(x) for x in unknown][:3]} of `{shown}`')
            ctx.need(not any(x[0] in ('slotelem', 'field') for x in lv), f'{cons}: path `{shown}` is derived from the entries being merged (content-addressed): '
                     'whether two writes of it can differ is not decided')
            ctx.bad('R6', cons + '::resume',
                    f'intermediate path `{shown}` is not distinct across save/resume: no component is fresh per object or a persisted counter ['
                    + '; '.join(comps) + f']. History: a run writes this path in some job N, records it in the plan, the plan is saved and the process stops; '
                    f'{CLS}.load / new_combiner rebuilds the object with the same component values and its job N writes the very same path while the saved plan '
                    f'still lists the earlier dataset as a pending input ({ow_txt}): inputs of the first run are lost and the later batch is merged twice',
                    m.path, c.lineno)
        # (b) across the steps of one process
        if steps_ok:
            ctx.ok('R6', cons + '::steps', {'path': shown})
        else:
            ctx.need(not unknown, f'{cons}: cannot resolve path component(s) {[cf.render(x) for x in unknown][:3]} of `{shown}`')
            wit = None
            for sl in sorted({x[1] for x in lv if x[0] == 'slot'}):
                # a store the steps make to a component that is not a recognised counter bump (`self.x += <positive literal>`): whether it advances is not decided
                ctx.need(sl not in other_stores, f'{cons}: self.{sl} is assigned by {sorted(set(other_stores.get(sl, [])))} in a form that is not recognised as a counter')
                if sl in counters:
                    wit = advanced_after_every_write(sl)
            ctx.bad('R6', cons + '::steps',
                    f'intermediate path `{shown}` is the same in consecutive steps of one run: no component is advanced between a write and the next step '
                    f'[{"; ".join(comps)}]' + (f'; step() can finish after the write without advancing the counter: {[repr(x) for x in wit][-4:]}' if wit else '')
                    + f'. The next step writes the path a pending plan entry points to ({ow_txt})', m.path, c.lineno)
        # (c) within one step
        if v[0] == 'list' or r.in_loop(c):
            ok = any(x[0] in ('index', 'fresh') for x in lv)
            ctx.need(ok or not unknown, f'{cons}: cannot resolve path component(s) {[cf.render(x) for x in unknown][:3]} of `{shown}`')
            ctx.check(ok, 'R6', cons + '::within-step', f'several datasets are written by one step under `{shown}`, which contains no per-dataset index: they all '
                      f'get the same path ({ow_txt}) and the plan lists that one path once per dataset', m.path, c.lineno, detail={'path': shown})

    # ---- R9: final output exactly when the plan is exhausted; what is recorded is what was written ------------------------------
    for r in roots:
        g = r.g
        finals, inters = [], []
        for rr, c, v in writes:
            if rr is r:
                (finals if _is_output(v) else inters).append((c, v))
        adds = []  # (call, value recorded)
        for c in pf.calls_in(r.fn):
            if isinstance(c.func, ast.Attribute) and c.func.attr in PLAN_ADD and _self_attr_root(c.func.value) in ser and c.args:
                adds.append((c, r.sym.ev(c.args[-1], r.fn)))
        cons = f'{F}::{CLS}.{r.name}'
        ctx.need(adds or finals, f'{cons}: neither records a dataset in the plan nor writes the output')

        def nodes_of(call: ast.AST) -> List[pf.Node]:
            out = g.node_of(call)
            # a loop whose body contains the call stands for it (zero iterations only when nothing was produced)
            for n in g.nodes:
                if n.kind == 'loop' and n.ast is not None and any(x is call for x in ast.walk(n.ast)):
                    out.append(n)
            return out
        fin_nodes = [n for c, _v in finals for n in g.node_of(c)]
        add_nodes = [n for c, _v in adds for n in nodes_of(c)]
        int_nodes = [n for c, _v in inters for n in g.node_of(c)]
        no_exc = lambda a, b, lab: lab != 'exc'  # noqa: E731
        fin_edge = lambda a, b, lab: lab != 'exc' and not (a.kind == 'test' and _implies_finished(a.ast, lab))  # noqa: E731
        never = lambda x: False  # noqa: E731
        opaque = _plan_opaque([x for x in g.nodes if x.ast is not None], r.fn, _top_level_pending(cm, [x.name for x in roots])[1] & set(ser))
        for n in fin_nodes:
            at_n = lambda x, n=n: x is n  # noqa: E731
            c9 = cons + '::final write guarded by finished'
            p = _firm(g, g.path_avoiding(g.entry, at_n, never, edge_ok=fin_edge), r.fn, at_n, never, c9, edge_ok=fin_edge)
            ctx.check(p is None, 'R9', c9,
                      f'{r.name} can write the final dataset to self._output_path while the plan still has pending inputs (no `self.finished` test on the path '
                      f'{[repr(x) for x in (p or [])][-4:]}): the output is produced from a subset of the inputs and the rest is merged into intermediates nobody reads',
                      m.path, n.lineno)
            at_add = lambda x: x in add_nodes  # noqa: E731
            c9 = cons + '::nothing recorded after the final write'
            q = _firm(g, g.path_avoiding(n, at_add, never, edge_ok=no_exc), r.fn, at_add, never, c9, edge_ok=no_exc) if add_nodes else None
            ctx.check(q is None, 'R9', c9,
                      f'after writing the final dataset {r.name} goes on to record an entry in the plan: `finished` becomes false again and run() merges it once more',
                      m.path, n.lineno)
        stop = set(id(x) for x in fin_nodes + add_nodes)
        at_exit = lambda x: x is g.exit  # noqa: E731
        stops = lambda x: id(x) in stop  # noqa: E731
        c9 = cons + '::merged data re-enters the plan'
        p = _firm(g, g.path_avoiding(g.entry, at_exit, stops, edge_ok=no_exc), r.fn, at_exit, stops, c9, edge_ok=no_exc)
        # "nothing is recorded on this path" is evidence only when every way of recording is visible
        ctx.need(p is None or opaque is None, f'{c9}: {opaque}; whether the merged dataset is recorded is not decided')
        ctx.check(p is None, 'R9', c9,
                  f'{r.name} can return normally after removing inputs from the plan without writing the final dataset or recording the merged dataset in the plan '
                  f'(path {[repr(x) for x in (p or [])][-4:]}): the inputs it consumed are lost', m.path, r.fn.lineno)
        for c, av in adds:
            recs = [av] if av[0] != 'alt' else list(av[1])
            for rec in recs:
                if rec[0] == 'list':
                    rec = rec[1]
                pv = dict(rec[2]).get('path') if rec[0] == 'rec' else None
                ctx.need(pv is not None, f'{cons}: cannot tell which path `{pf.nsrc(c)[:60]}` records')
                written = [(v[1] if v[0] == 'list' else v) for _c, v in inters]
                ctx.need(not any(x[0] == 'unknown' for x in cf.leaves(pv)) or pv in written, f'{cons}: unresolved recorded path `{cf.render(pv)}`')
                # a mismatch is evidence only when every written path is resolved too (and something is written here at all)
                ctx.need(pv in written or (written and not any(x[0] == 'unknown' for w in written for x in cf.leaves(w))),
                         f'{cons}: cannot resolve the path(s) the step writes ({[cf.render(w) for w in written][:2]}) to compare them with the recorded `{cf.render(pv)}`')
                ctx.check(pv in written, 'R9', cons + '::recorded path is the written path',
                          f'{r.name} records `{cf.render(pv)}` in the plan but the datasets it writes are {[cf.render(w) for w in written]}: the next step (or a '
                          f'resumed run) reads a path nothing was written to', m.path, c.lineno)
            for n in g.node_of(c):
                at_n = lambda x, n=n: x is n  # noqa: E731
                wrote = lambda x: x in int_nodes  # noqa: E731
                c9 = cons + '::written before recorded'
                ctx.need(int_nodes, f'{c9}: no write of an intermediate dataset recognised in {r.name}')
                q = _firm(g, g.path_avoiding(g.entry, at_n, wrote, edge_ok=no_exc), r.fn, at_n, wrote, c9, edge_ok=no_exc)
                ctx.check(q is None, 'R9', c9,
                          f'{r.name} can record a dataset in the plan before (or without) writing it: a failure in between leaves an in-memory plan that names a '
                          f'dataset that does not exist', m.path, c.lineno)

    # ---- R10: nothing the plan still needs is deleted ---------------------------------------------------------------------------
    check_deletions(ctx, m, cm, ser, [(v[1] if v[0] == 'list' else v) for _r, _c, v in writes if not _is_output(v)])


def _parts(v: cf.Val) -> List[cf.Val]:
    return list(v[1]) if v[0] == 'cat' else [v]


def _path_relation(p: cf.Val, w: cf.Val) -> str:
    """'covers' when deleting p removes w (p equals w or names a directory above it), 'disjoint' when the two provably differ, else 'unknown'."""
    pp, ww = _parts(p), _parts(w)
    for i, a in enumerate(pp):
        if i >= len(ww):
            return 'disjoint' if a[0] == 'const' else 'unknown'
        b = ww[i]
        if a == b:
            continue
        if a[0] == 'const' and b[0] == 'const':
            if i == len(pp) - 1 and b[1].startswith(a[1]):
                rest = b[1][len(a[1]):]
                return 'covers' if (a[1].endswith('/') or rest.startswith('/')) else 'disjoint'
            if a[1].startswith(b[1]) or b[1].startswith(a[1]):
                return 'unknown'
            return 'disjoint'
        if a[0] == 'slot' and b[0] == 'slot' and i == 0:
            return 'disjoint'  # rooted at a different configured location (save path vs temp path)
        return 'unknown'
    if len(pp) == len(ww) or pp[-1][0] == 'const' and pp[-1][1].endswith('/'):
        return 'covers'
    nxt = ww[len(pp)]
    if nxt[0] == 'const':
        return 'covers' if nxt[1].startswith('/') else 'disjoint'
    return 'unknown'


def _deletion_verdict(v: cf.Val, inter: List[cf.Val]) -> Optional[str]:
    lv = list(cf.leaves(v))
    if any(x[0] in ('slotelem', 'field') for x in lv):
        return 'a dataset path taken from a plan entry'
    if v == ('slot', SAVE_SLOT[0]):
        return 'the saved plan itself'
    for w in inter:
        if _path_relation(v, w) == 'covers':
            return f'`{cf.render(v)}`, which is or contains the intermediate dataset `{cf.render(w)}` recorded in the plan,'
    return None


def _deletion_undecided(v: cf.Val, inter: List[cf.Val]) -> bool:
    return any(_path_relation(v, w) == 'unknown' for w in inter)


SAVE_SLOT = ['_save_path']
OUTPUT_SLOT = ['_output_path']


def check_deletions(ctx: Ctx, m: pf.Module, cm: cf.ClassModel, ser: List[str], inter: List[cf.Val]) -> None:
    """Deleting an intermediate is safe only once no plan (in memory or on disk) lists it.  The steps mutate the in-memory plan and run() saves
    only before the NEXT step, so a deletion inside the class of a plan entry's path / the intermediates directory / the plan file is
    premature: the plan on disk still names the deleted dataset when the process stops."""
    n = 0
    # site -> list of (context method, value, call, guarded by `finished`); a site is identified by the position of the call only to recognise
    # the same call again wherever its method is inlined
    seen: Dict[Tuple[int, int], List[Tuple[str, cf.Val, ast.Call, bool]]] = {}

    def owner(c: ast.Call) -> str:
        for name, f in cm.methods.items():
            if f.lineno <= c.lineno <= (f.end_lineno or f.lineno):
                return name
        return '?'

    def is_deleter(c: ast.Call) -> bool:
        if isinstance(c.func, ast.Attribute):
            return c.func.attr in DELETERS and bool(c.args) and _self_attr_root(c.func.value) is None
        return isinstance(c.func, ast.Name) and c.func.id in DELETERS and bool(c.args)
    called: Set[str] = set()
    for f in list(cm.methods.values()) + list(cm.setters.values()) + list(cm.getters.values()):
        for c in pf.calls_in(f, into_nested_defs=True):
            a = cf.self_attr(c.func, f.args.args[0].arg) if isinstance(c.func, ast.Attribute) and f.args.args else None
            if a is not None:
                called.add(a)
    for name, fn0 in list(cm.methods.items()):
        helper = name.startswith('_') and not name.startswith('__') and name in called and not fn0.decorator_list
        if fn0.decorator_list or not fn0.args.args or name == '__init__':
            fn, sym, g = fn0, cf.Sym(m, cm, cf.named_tuples(m)), pf.cfg(fn0)
        else:
            r = _root(m, name)
            fn, sym, g = r.fn, r.sym, r.g
            for hn, _line, _why in r.il.skipped:
                h = cm.methods.get(hn)
                ctx.need(h is None or not any(is_deleter(c) for c in pf.calls_in(h)), f'{F}::{CLS}.{name}: helper {hn} deletes files but cannot be inlined')
        for c in pf.calls_in(fn):
            if is_deleter(c):
                v = sym.ev(c.args[0], fn)
                if helper and any(x[0] == 'param' for x in cf.leaves(v)):
                    continue  # decided where the helper is inlined, with the caller's argument
                guarded = all(g.path_avoiding(g.entry, lambda x, nn=nn: x is nn, lambda x: False,
                                              edge_ok=lambda a, b, lab: lab != 'exc' and not (a.kind == 'test' and _implies_finished(a.ast, lab))) is None
                              for nn in g.node_of(c))
                seen.setdefault((c.lineno, c.col_offset), []).append((name, v, c, guarded))
    for _site, ctxs in sorted(seen.items()):
        n += 1
        ctxs.sort(key=lambda t: (t[3], t[0] != owner(t[2])))  # report an unguarded context first
        reported = False
        for name, v, c, guarded in ctxs:
            if name == owner(c) and len(ctxs) > 1 and name in called and name.startswith('_') and not name.startswith('__'):
                continue  # a private helper also seen inlined in its callers: the callers' verdicts count
            why = _deletion_verdict(v, inter)
            cname = pf.dotted(c.func) or getattr(c.func, 'attr', '?')
            cons = f'{F}::{CLS}.{owner(c)}::{cname.split(".")[-1]}({cf.render(v)})'
            if why is None:
                if any(x[0] in ('unknown', 'param') for x in cf.leaves(v)) or _deletion_undecided(v, inter):
                    if guarded:
                        continue
                    raise AnalysisError(f'{F}::{CLS}.{name}: cannot tell whether `{pf.nsrc(c)[:70]}` removes something the plan references')
                continue
            if guarded and v != ('slot', SAVE_SLOT[0]):
                continue  # only reached once `finished` was true: the plan lists nothing any more
            ctx.bad('R10', cons, f'{name} deletes {why} (`{pf.nsrc(c)[:70]}`) although the plan saved on disk may still list it: run() saves the plan '
                    f'only before the next step, so stopping right after this call and resuming from the saved plan reads a dataset that no longer exists',
                    m.path, c.lineno)
            reported = True
            break
        if not reported:
            name, v, c, guarded = ctxs[0]
            cname = pf.dotted(c.func) or getattr(c.func, 'attr', '?')
            ctx.ok('R10', f'{F}::{CLS}.{owner(c)}::{cname.split(".")[-1]}({cf.render(v)})', {'guarded_by_finished': guarded})
    # positive control: the recogniser sees a premature deletion in a synthetic step
    probe = ast.parse('class K:\n def _s(self):\n  f = self._vdses[1][:2]\n  for x in f:\n   fs.rmtree(x.path)\n').body[0]
    pm = pf.Module('<probe>', '<probe>', '', ast.Module(body=[probe], type_ignores=[]))
    pcm = cf.ClassModel(pm, 'K')
    psym = cf.Sym(pm, pcm, {})
    pfn = pcm.methods['_s']
    hit = [c for c in pf.calls_in(pfn) if isinstance(c.func, ast.Attribute) and c.func.attr in DELETERS and _deletion_verdict(psym.ev(c.args[0], pfn), [])]
    ctx.need(len(hit) == 1, 'R10 positive control failed')
    ctx.ok('R10', 'positive control: deletion of a plan entry path is recognised', None, nontrivial=False)
    ctx.unit('deletion_sites', n)


# ---------------------------------------------------------------------------------------------------------------------------
# R7 / R8: every step takes exactly what it removes from the plan, and removes at least one input
# ---------------------------------------------------------------------------------------------------------------------------
def _norm_arith(e: ast.AST) -> str:
    """Normal form of an integer expression up to commutativity of * and +."""
    if isinstance(e, ast.BinOp) and isinstance(e.op, (ast.Mult, ast.Add)):
        parts: List[str] = []

        def flat(x: ast.AST) -> None:
            if isinstance(x, ast.BinOp) and type(x.op) is type(e.op):  # type: ignore[attr-defined]
                flat(x.left)
                flat(x.right)
            else:
                parts.append(_norm_arith(x))
        flat(e)
        return ('*' if isinstance(e.op, ast.Mult) else '+').join(sorted(f'({x})' for x in parts))
    if isinstance(e, ast.UnaryOp) and isinstance(e.op, ast.USub):
        return '-' + _norm_arith(e.operand)
    return pf.nsrc(e)


Poly = Dict[Tuple[str, ...], int]


def _poly(e: ast.AST) -> Optional[Poly]:
    """Polynomial normal form (monomial -> coefficient) of an integer expression over atoms `self.x` / local names / int literals with + - * and
    unary minus; None when the expression contains anything else (a call, a division, a subscript ...)."""
    if isinstance(e, ast.Constant) and type(e.value) is int:
        return {(): e.value} if e.value else {}
    if isinstance(e, ast.Name) or cf.self_attr(e) is not None:
        return {(pf.nsrc(e),): 1}
    if isinstance(e, ast.UnaryOp) and isinstance(e.op, (ast.USub, ast.UAdd)):
        a = _poly(e.operand)
        return None if a is None else ({k: -v for k, v in a.items()} if isinstance(e.op, ast.USub) else a)
    if isinstance(e, ast.BinOp) and isinstance(e.op, (ast.Add, ast.Sub, ast.Mult)):
        a, b = _poly(e.left), _poly(e.right)
        if a is None or b is None:
            return None
        out: Poly = {}
        if isinstance(e.op, ast.Mult):
            for ka, va in a.items():
                for kb, vb in b.items():
                    k = tuple(sorted(ka + kb))
                    out[k] = out.get(k, 0) + va * vb
        else:
            sign = 1 if isinstance(e.op, ast.Add) else -1
            out = dict(a)
            for kb, vb in b.items():
                out[kb] = out.get(kb, 0) + sign * vb
        return {k: v for k, v in out.items() if v}
    return None


def _same_amount(a: ast.AST, b: ast.AST) -> Optional[bool]:
    """True / False when both expressions have a polynomial normal form (equal / different), None when one of them is not comparable that way
    (textually equal expressions are the same amount whatever they contain)."""
    if _norm_arith(a) == _norm_arith(b):
        return True
    pa, pb = _poly(a), _poly(b)
    if pa is None or pb is None:
        return None
    return pa == pb


def _factors(e: ast.AST) -> Optional[List[str]]:
    """Slots whose product the expression is (`self.a * self.b`), else None."""
    if isinstance(e, ast.BinOp) and isinstance(e.op, ast.Mult):
        a, b = _factors(e.left), _factors(e.right)
        return None if a is None or b is None else a + b
    a = cf.self_attr(e)
    return [a] if a is not None else None


class _Slice:
    def __init__(self, st: ast.stmt, base: ast.expr, sl: ast.Slice, kind: str, fn: pf.FuncDef):
        self.st, self.base, self.sl, self.kind = st, base, sl, kind
        self.base_txt = pf.nsrc(base)
        self.slot = _self_attr_root(base)
        self.lower = pf.expand_locals(fn, sl.lower) if sl.lower is not None else None
        self.upper = pf.expand_locals(fn, sl.upper) if sl.upper is not None else None

    def shape(self) -> Tuple[str, Optional[ast.AST]]:
        """('head', n) for [:n], ('tail', n) for [n:], ('last', n) for [-n:], ('butlast', n) for [:-n]."""
        lo, up = self.lower, self.upper
        neg = lambda x: isinstance(x, ast.UnaryOp) and isinstance(x.op, ast.USub)  # noqa: E731
        if self.sl.step is not None or (lo is not None and up is not None):
            return ('other', None)
        if lo is None and up is not None:
            return ('butlast', up.operand) if neg(up) else ('head', up)
        if lo is not None:
            return ('last', lo.operand) if neg(lo) else ('tail', lo)
        return ('all', None)


COMPLEMENT = {'head': 'tail', 'last': 'butlast'}


def _plan_slices(r: _Root, ser: List[str]) -> Tuple[List[_Slice], List[_Slice]]:
    takes: List[_Slice] = []
    keeps: List[_Slice] = []
    for st in pf.walk_shallow(r.fn):
        if not (isinstance(st, ast.Assign) and len(st.targets) == 1 and isinstance(st.value, ast.Subscript) and isinstance(st.value.slice, ast.Slice)):
            continue
        base = st.value.value
        if _self_attr_root(base) not in ser:
            continue
        t = st.targets[0]
        if isinstance(t, ast.Name):
            takes.append(_Slice(st, base, st.value.slice, 'take', r.fn))
        elif pf.nsrc(t) == pf.nsrc(base):
            keeps.append(_Slice(st, base, st.value.slice, 'keep', r.fn))
    return takes, keeps


def check_progress(ctx: Ctx, m: pf.Module, cls: ast.ClassDef, ser: List[str]) -> None:
    cm = cf.ClassModel(m, CLS)
    roots = [_root(m, r) for r in _step_roots(cm)]
    need: Dict[str, Tuple[int, str]] = {}
    expr_reqs: List[Tuple[str, ast.AST, int, str, int]] = []  # (step function, expression, minimum, why, line)
    lockstep: List[Tuple[str, List[str]]] = []

    def require(slot: str, bound: int, why: str) -> None:
        if slot not in need or need[slot][0] < bound:
            need[slot] = (bound, why)

    for r in roots:
        takes, keeps = _plan_slices(r, ser)
        cons0 = f'{F}::{CLS}.{r.name}'
        by_base: Dict[str, Tuple[List[_Slice], List[_Slice]]] = {}
        for t in takes:
            by_base.setdefault(t.base_txt, ([], []))[0].append(t)
        for k in keeps:
            by_base.setdefault(k.base_txt, ([], []))[1].append(k)
        top_bounds: Dict[str, ast.AST] = {}
        for base, (ts, ks) in by_base.items():
            cons = f'{cons0}::{base}'
            if len(ts) != len(ks):
                slot0 = (ts or ks)[0].slot
                opaque = _plan_opaque([x for x in r.g.nodes if x.ast is not None], r.fn, _top_level_pending(cm, [x.name for x in roots])[1] & set(ser))
                if not ks:
                    # `del base` under `len(taken) == len(base)` is the other way of keeping nothing; a take with neither is reuse
                    dels = [st for st in pf.walk_shallow(r.fn) if isinstance(st, ast.Delete) and any(pf.nsrc(x) == base for x in st.targets)]
                    if not dels:
                        # evidence of "never removed": NOTHING in the step (helpers inlined) changes the slot - no store, no delete, no mutating call
                        changes = [n for a, n, _h in _mutations(r.fn) if a == slot0 and not (isinstance(n, ast.Call) and isinstance(n.func, ast.Attribute) and n.func.attr in PLAN_ADD)]
                        ctx.need(not changes and opaque is None, f'{cons}: `{pf.nsrc(ts[0].st)[:60]}` is taken and self.{slot0} is changed by '
                                 f'`{pf.nsrc(changes[0])[:50] if changes else opaque}`; whether that removes exactly the taken entries is not recognised')
                    ctx.check(bool(dels), 'R8', cons + '::take without drop', f'{r.name} takes `{pf.nsrc(ts[0].st)[:70]}` for merging but never removes those entries from '
                              f'`{base}`: the same inputs are taken again by the next step (merged twice, and the plan never empties)', m.path, ts[0].st.lineno)
                    continue
                if not ts:
                    # evidence of "not taken": the removed list is read nowhere else in the step, so nothing can have been taken from it
                    keep_nodes = {id(x) for k in ks for x in ast.walk(k.st)}
                    other_reads = [x for x in ast.walk(r.fn) if isinstance(x, ast.Attribute) and isinstance(x.ctx, ast.Load) and cf.self_attr(x) == slot0 and id(x) not in keep_nodes]
                    ctx.need(not other_reads and opaque is None, f'{cons}: `{pf.nsrc(ks[0].st)[:60]}` shortens the list and self.{slot0} is also read elsewhere in the step; '
                             f'how the removed entries are taken is not recognised')
                    ctx.bad('R8', cons + '::drop without take', f'{r.name} removes entries from the plan (`{pf.nsrc(ks[0].st)[:70]}`) without taking them for merging: '
                            f'those inputs are in no dataset', m.path, ks[0].st.lineno)
                    continue
                raise AnalysisError(f'{cons}: {len(ts)} slice(s) taken but {len(ks)} kept - pairing not recognised')
            for t, k in zip(ts, ks):
                (tk, tn), (kk, kn) = t.shape(), k.shape()
                ctx.need(tk in COMPLEMENT and tn is not None, f'{cons}: unrecognised slice `{pf.nsrc(t.st)[:70]}`')
                ctx.need(kn is not None and kk in ('tail', 'butlast', 'head', 'last'), f'{cons}: unrecognised slice `{pf.nsrc(k.st)[:70]}`')
                same = _same_amount(tn, kn)
                # different bounds are evidence only in polynomial normal form (`[:n]` / `[len(taken):]` partition the list as well)
                ctx.need(same is not None or COMPLEMENT[tk] != kk, f'{cons}: cannot compare the bounds `{pf.nsrc(tn)[:40]}` and `{pf.nsrc(kn)[:40]}` of the taken and the kept slice')
                ok = COMPLEMENT[tk] == kk and bool(same)
                ctx.check(ok, 'R8', cons + f'::{tk} taken, rest kept',
                          f'{r.name} merges `{pf.nsrc(t.st)[:80]}` but keeps `{pf.nsrc(k.st)[:80]}`: the two slices do not partition the list - '
                          + ('entries between them are dropped without being merged' if COMPLEMENT.get(tk) == kk else 'entries are merged and also kept, or dropped unmerged')
                          + f' (take bound `{pf.nsrc(tn)}`, keep bound `{pf.nsrc(kn)}`)', m.path, k.st.lineno)
                # the take must read the list before the keep replaces it
                tn_nodes, kn_nodes = r.g.node_of(t.st), r.g.node_of(k.st)
                ctx.need(tn_nodes and kn_nodes, f'{cons}: slice statements not found in the CFG')
                at_k = lambda x: x in kn_nodes  # noqa: E731
                at_t = lambda x: x in tn_nodes  # noqa: E731
                q = _firm(r.g, r.g.path_avoiding(r.g.entry, at_k, at_t), r.fn, at_k, at_t, cons + f'::{tk} taken before the rest is kept')
                ctx.check(q is None, 'R8', cons + f'::{tk} taken before the rest is kept', f'{r.name} can execute `{pf.nsrc(k.st)[:70]}` before `{pf.nsrc(t.st)[:70]}`: '
                          f'the slice that is merged is taken from the already shortened list, so the first entries are dropped unmerged', m.path, k.st.lineno)
                if pf.nsrc(t.base) == f'self.{t.slot}' and ok:
                    top_bounds[t.slot] = tn
                    # progress: the number of entries removed per step
                    fs = _factors(kn)
                    if kk == 'tail':
                        if fs is not None:
                            for sl in fs:
                                require(sl, 1, f'{r.name} removes `self.{t.slot}[:{pf.nsrc(kn)}]` per step')
                        else:
                            expr_reqs.append((r.name, kn, 1, f'{r.name} removes `self.{t.slot}[:{pf.nsrc(kn)}]` per step', k.st.lineno))
                elif ok and tk == 'head':
                    # fan-in of a merge whose single result goes back into the same slot
                    adds = [c for c in pf.calls_in(r.fn) if isinstance(c.func, ast.Attribute) and c.func.attr in PLAN_ADD
                            and _self_attr_root(c.func.value) == t.slot and not r.in_loop(c)]
                    a = cf.self_attr(tn)
                    if adds and a is not None:
                        require(a, 2, f'{r.name} replaces up to self.{a} entries of self.{t.slot} by one merged entry')
                    elif adds:
                        expr_reqs.append((r.name, tn, 2, f'{r.name} replaces up to `{pf.nsrc(tn)}` entries of self.{t.slot} by one merged entry', t.st.lineno))
        if len(top_bounds) >= 2:
            lockstep.append((r.name, sorted(top_bounds)))
            bs = list(top_bounds.values())
            sames = [_same_amount(bs[0], b2) for b2 in bs[1:]]
            ctx.need(all(x is not None for x in sames), f'{cons0}: cannot compare the amounts {[pf.nsrc(b2)[:30] for b2 in bs]} by which the parallel lists are consumed')
            ctx.check(all(sames), 'R8', cons0 + '::lists consumed in lockstep', f'{r.name} consumes the parallel lists {sorted(top_bounds)} by different amounts '
                      f'{ {k: _norm_arith(v) for k, v in top_bounds.items()} }: after the first step the i-th name no longer belongs to the i-th input', m.path, r.fn.lineno)
        # range(..., step) over the taken files
        for c in pf.calls_in(r.fn):
            if pf.dotted(c.func) == 'range' and len(c.args) == 3:
                a = cf.self_attr(pf.expand_locals(r.fn, c.args[2]))
                if a is not None:
                    require(a, 1, f'{r.name} iterates with range(..., self.{a})')
    ctx.need(need or expr_reqs, f'{F}::{CLS}: no slice of the pending inputs found in the step functions')
    check_chunking(ctx, m, roots)
    check_ctor_inputs(ctx, m, cm, ser)
    for _rn, e, _b, _w, _l in expr_reqs:
        for n in ast.walk(e):
            a = cf.self_attr(n)
            if a is not None and a not in need and a not in cm.consts:
                need[a] = (-cf.INF, 'read by a step size expression')  # no bound of its own: only its interval is needed

    # lists consumed in lockstep must be validated to have the same length when the object is (re)built
    m_i, init_i, _il = _inl(m, '__init__')
    _sp, param_of_slot, _ws, _un = _init_param_map(m, cf.ClassModel(m, CLS).methods['__init__'])
    for rname, sl in lockstep:
        ps = [param_of_slot.get(x) for x in sl]
        ctx.need(all(ps), f'{F}::{CLS}.__init__: cannot tell which parameters initialise {sl}')
        lens = {f'len({p})' for p in ps}
        found = mention = False
        for st in pf.walk_shallow(init_i):
            test = st.test if isinstance(st, (ast.If, ast.Assert)) else None
            if test is None:
                continue
            test = pf.expand_locals(init_i, test)
            for cmp in [x for x in ast.walk(test) if isinstance(x, ast.Compare) and len(x.ops) == 1]:
                sides = {pf.nsrc(cmp.left), pf.nsrc(cmp.comparators[0])}
                if sides == lens:
                    mention = True
                    raises = isinstance(st, ast.If) and any(isinstance(x, ast.Raise) for x in st.body)
                    if (isinstance(cmp.ops[0], ast.NotEq) and raises) or (isinstance(cmp.ops[0], ast.Eq) and isinstance(st, ast.Assert)):
                        found = True
        ctx.need(found or not mention, f'{F}::{CLS}.__init__: unrecognised comparison of {sorted(lens)}')
        if not found:
            # "no check" is evidence only when nothing else in the constructor could be the check: the lists are not handed to a function
            # and no length of them is held in a local that a later test reads
            seen_by = _consumers(init_i, set(ps))  # type: ignore[arg-type]
            ctx.need(not seen_by, f'{F}::{CLS}.__init__: {sl} are consumed in lockstep and their parameters are passed to `{seen_by[0] if seen_by else ""}`; '
                     f'whether that validates their lengths is not recognised')
        ctx.check(found, 'R8', f'{F}::{CLS}.__init__::{"/".join(sl)} same length', f'{rname} consumes {sl} in lockstep but __init__ (which also rebuilds the object '
                  f'from a saved plan) does not reject {sorted(lens)} of different lengths: a plan with fewer names than inputs mislabels or drops samples',
                  m.path, init_i.lineno)

    accepted = check_sizes(ctx, m, cm, need, param_of_slot)
    consts = cm.const_env()
    for rname, e, bound, why, line in expr_reqs:
        cons = f'{F}::{CLS}.{rname}::step size `{_norm_arith(e)}`'
        ae = cf.AbsExec('self', consts, cons)
        env = {f'self.{k}': v for k, v in accepted.items()}
        iv = ae.ev(e, env)
        if iv.lo >= bound:
            ctx.ok('R7', cons, {'interval': repr(iv), 'needs': f'>= {bound}'})
            continue
        ctx.need(not ae.atoms, f'{cons}: depends on {sorted(ae.atoms)}, which the analysis does not track')
        keys = sorted(k for k in env if any(cf.self_attr(n) == k[5:] for n in ast.walk(e)))
        wit = None
        import itertools as _it
        for combo in _it.product(*[[int(x) for x in (env[k].lo, env[k].lo + 1, env[k].lo + 2) if x != -cf.INF and x <= env[k].hi] or [0, 1, 2] for k in keys]):
            try:
                val = cf.Concrete('self', consts).ev(e, dict(zip(keys, combo)))
            except Exception:  # noqa: BLE001 - not evaluable: no witness from this point
                continue
            if val < bound:
                wit = (dict(zip(keys, combo)), val)
                break
        ctx.need(wit is not None, f'{cons}: interval {iv} (needs >= {bound}) but no concrete slot values reaching a smaller value were found')
        ctx.bad('R7', cons, f'{why}, so `{pf.nsrc(e)}` must be >= {bound}, but the values every writer guarantees ({", ".join(f"{k} in {env[k]}" for k in keys)}) allow '
                f'{", ".join(f"{k}={v}" for k, v in wit[0].items())} -> {wit[1]}: ' + ('a step then removes nothing from the plan and run() never finishes' if wit[1] <= 0 else
                'a merge then replaces one entry by one entry, the plan never shrinks and run() never finishes'), m.path, line)


def check_chunking(ctx: Ctx, m: pf.Module, roots: List[_Root]) -> None:
    """`for i in range(0, len(xs), k): ... xs[i : i + k]`: the chunks partition the list only if every slice indexed by the loop variable
    runs from i to i + k with the k of the range."""
    for r in roots:
        for loop in [n for n in pf.walk_shallow(r.fn) if isinstance(n, ast.For)]:
            it = loop.iter
            if not (isinstance(it, ast.Call) and pf.dotted(it.func) == 'range' and len(it.args) == 3 and isinstance(loop.target, ast.Name)):
                continue
            var, k = loop.target.id, _norm_arith(pf.expand_locals(r.fn, it.args[2]))
            start0 = isinstance(it.args[0], ast.Constant) and it.args[0].value == 0
            stop = pf.expand_locals(r.fn, it.args[1])
            covered = isinstance(stop, ast.Call) and pf.dotted(stop.func) == 'len'
            for st in loop.body:
                for sub in [n for n in pf.walk_shallow(st) if isinstance(n, ast.Subscript) and isinstance(n.slice, ast.Slice)]:
                    sl = sub.slice
                    if not any(isinstance(x, ast.Name) and x.id == var for x in ast.walk(sl)):
                        continue
                    cons = f'{F}::{CLS}.{r.name}::chunks of {pf.nsrc(sub.value)}'
                    ctx.need(start0 and covered and sl.step is None, f'{cons}: unrecognised chunking loop `{pf.nsrc(it)}`')
                    lo = pf.expand_locals(r.fn, sl.lower) if sl.lower is not None else ast.Constant(value=0)
                    up = pf.expand_locals(r.fn, sl.upper) if sl.upper is not None else None
                    want = ast.BinOp(left=ast.Name(id=var, ctx=ast.Load()), op=ast.Add(), right=pf.expand_locals(r.fn, it.args[2]))
                    lo_s = _same_amount(lo, ast.Name(id=var, ctx=ast.Load()))
                    up_s = _same_amount(up, want) if up is not None else None
                    # other bounds are evidence only when they are polynomials in the loop variable and the stride (`xs[i:min(i + k, n)]` is the same chunk)
                    ctx.need(lo_s is not None and up_s is not None, f'{cons}: cannot compare the chunk `{pf.nsrc(sub)[:60]}` with the stride of `{pf.nsrc(it)[:50]}`')
                    lo_ok, up_ok = bool(lo_s), bool(up_s)
                    ctx.check(lo_ok and up_ok, 'R8', cons, f'{r.name} walks `{pf.nsrc(it)}` but merges `{pf.nsrc(sub)}`: the chunks do not partition the batch - '
                              f'entries between two chunks are in no dataset, or entries are in two (chunk stride `{k}`)', m.path, sub.lineno)



# ---- regrouping of a flat list of plan entries into bins (constructor) ----------------------------------------------------------------
class _Sub(ast.NodeTransformer):
    """Replace loads of the given names by expressions (copies)."""

    def __init__(self, mapping: Dict[str, ast.AST]):
        self.mapping = mapping

    def visit_Name(self, node: ast.Name):
        if isinstance(node.ctx, ast.Load) and node.id in self.mapping:
            import copy as _copy
            return ast.copy_location(_copy.deepcopy(self.mapping[node.id]), node)
        return node

    def visit_Lambda(self, node):
        return node


def _subst(e: ast.AST, mapping: Dict[str, ast.AST]) -> ast.AST:
    import copy as _copy
    return ast.fix_missing_locations(_Sub(mapping).visit(_copy.deepcopy(e)))


def _expr_helper(cm: cf.ClassModel, name: str) -> Optional[Tuple[List[str], ast.expr]]:
    """(parameter names, returned expression) of a plain method whose body is `return <expr>`."""
    h = cm.methods.get(name)
    if h is None or h.decorator_list or h.args.vararg or h.args.kwarg or h.args.kwonlyargs or not h.args.args:
        return None
    body = cf._strip_doc(h.body)
    if len(body) != 1 or not isinstance(body[0], ast.Return) or body[0].value is None:
        return None
    recv = h.args.args[0].arg
    ret = body[0].value if recv == 'self' else _subst(body[0].value, {recv: ast.Name(id='self', ctx=ast.Load())})
    return [a.arg for a in h.args.args[1:]], ret


class _InlineExprHelpers(ast.NodeTransformer):
    """`self.h(a, b)` -> the returned expression of h with its parameters substituted (expression helpers only, bounded depth)."""

    def __init__(self, cm: cf.ClassModel, depth: int = 3):
        self.cm, self.depth = cm, depth

    def visit_Call(self, node: ast.Call):
        self.generic_visit(node)
        a = cf.self_attr(node.func) if isinstance(node.func, ast.Attribute) else None
        if a is None or self.depth <= 0 or node.keywords:
            return node
        h = _expr_helper(self.cm, a)
        if h is None or len(h[0]) != len(node.args):
            return node
        return _InlineExprHelpers(self.cm, self.depth - 1).visit(_subst(h[1], dict(zip(h[0], node.args))))


def _key_function(e: ast.AST, cm: cf.ClassModel) -> Optional[Tuple[str, ast.AST]]:
    """(element parameter, key expression) of `lambda v: E` or of a bound expression helper `self.h`."""
    if isinstance(e, ast.Lambda) and len(e.args.args) == 1 and not e.args.kwonlyargs and not e.args.vararg:
        return e.args.args[0].arg, e.body
    a = cf.self_attr(e)
    if a is not None:
        h = _expr_helper(cm, a)
        if h is not None and len(h[0]) == 1:
            return h[0][0], h[1]
    return None


def _key_nf(e: ast.AST, cm: cf.ClassModel) -> str:
    e = _InlineExprHelpers(cm).visit(_subst(e, {}))
    cf.resolve_property_reads(ast.FunctionDef(name='_', args=ast.arguments(posonlyargs=[], args=[ast.arg(arg='self')], kwonlyargs=[], kw_defaults=[], defaults=[]),
                                              body=[ast.Expr(value=e)], decorator_list=[]), cm.getter_alias())
    return _norm_arith(e)


def _regroup(v: ast.AST, p: str, cm: cf.ClassModel):
    """Recognise a constructor expression that distributes the elements of parameter `p` over bins:
         defaultdict(list, {k: list(g) for k, g in groupby(IT, key=K)})      -> ('groupby', element var, key expr, IT)
         {K(v): [v] for v in p} / {K(v): v for v in p}                       -> ('keyed', element var, key expr, p)
    (dict(...) / defaultdict(list, ...) wrappers stripped); None when the expression is something else."""
    while isinstance(v, ast.Call):
        d = (pf.dotted(v.func) or '').split('.')[-1]
        if d == 'defaultdict' and len(v.args) == 2 and not v.keywords:
            v = v.args[1]
        elif d == 'dict' and len(v.args) == 1 and not v.keywords:
            v = v.args[0]
        else:
            break
    if not isinstance(v, ast.DictComp) or len(v.generators) != 1:
        return None
    gen = v.generators[0]
    if gen.ifs or gen.is_async:
        return None
    it = gen.iter
    if isinstance(it, ast.Call) and (pf.dotted(it.func) or '').split('.')[-1] == 'groupby' and isinstance(gen.target, ast.Tuple) and len(gen.target.elts) == 2 \
            and all(isinstance(x, ast.Name) for x in gen.target.elts):
        kvar, gvar = gen.target.elts[0].id, gen.target.elts[1].id  # type: ignore[attr-defined]
        keyarg = it.args[1] if len(it.args) > 1 else next((k.value for k in it.keywords if k.arg == 'key'), None)
        whole_run = (isinstance(v.value, ast.Call) and pf.dotted(v.value.func) in ('list', 'tuple') and len(v.value.args) == 1 and isinstance(v.value.args[0], ast.Name)
                     and v.value.args[0].id == gvar) or (isinstance(v.value, ast.List) and len(v.value.elts) == 1 and isinstance(v.value.elts[0], ast.Starred)
                                                        and isinstance(v.value.elts[0].value, ast.Name) and v.value.elts[0].value.id == gvar)
        if not (it.args and keyarg is not None and isinstance(v.key, ast.Name) and v.key.id == kvar and whole_run):
            return None
        kf = _key_function(keyarg, cm)
        if kf is None:
            return None
        return ('groupby', kf[0], kf[1], it.args[0])
    if isinstance(it, ast.Name) and it.id == p and isinstance(gen.target, ast.Name):
        ev = gen.target.id
        single = (isinstance(v.value, ast.List) and len(v.value.elts) == 1 and isinstance(v.value.elts[0], ast.Name) and v.value.elts[0].id == ev) \
            or (isinstance(v.value, ast.Name) and v.value.id == ev)
        if single and ev in pf.names_in(v.key):
            return ('keyed', ev, v.key, it)
    return None


def _key_reads_only(e: ast.AST, elem: str, cm: cf.ClassModel, fields_not: Tuple[str, ...] = ('path',)) -> bool:
    """The key is computed from fields of the element other than its (unique) path, attributes of self and constants: two different inputs can share it."""
    e = _InlineExprHelpers(cm).visit(_subst(e, {}))
    for n in ast.walk(e):
        if isinstance(n, ast.Name) and isinstance(n.ctx, ast.Load) and n.id == elem:
            par_ok = any(isinstance(a, ast.Attribute) and a.value is n and a.attr not in fields_not for a in ast.walk(e))
            if not par_ok:
                return False
    return elem in pf.names_in(e)


def _natural_key(key_param: str, key_expr: ast.AST, entry: ast.AST, fn: pf.FuncDef, records: Dict[str, List[str]]) -> Optional[ast.AST]:
    """The constructor's key of the entry a step stores: the key expression with its parameter replaced by the stored entry (a name, or a record
    constructor call whose fields are substituted)."""
    ent = pf.expand_locals(fn, entry)
    if isinstance(ent, ast.Name):
        return _subst(key_expr, {key_param: ent})
    if isinstance(ent, ast.Call) and pf.dotted(ent.func) in records:
        fields = records[pf.dotted(ent.func)]  # type: ignore[index]
        vals: Dict[str, ast.AST] = dict(zip(fields, ent.args))
        for k in ent.keywords:
            if k.arg is None:
                return None
            vals[k.arg] = k.value
        import copy as _copy

        class _F(ast.NodeTransformer):
            bare = False

            def visit_Attribute(self, node: ast.Attribute):
                if isinstance(node.value, ast.Name) and node.value.id == key_param and node.attr in vals:
                    return ast.copy_location(_copy.deepcopy(vals[node.attr]), node)
                self.generic_visit(node)
                return node

            def visit_Name(self, node: ast.Name):
                if node.id == key_param:
                    _F.bare = True
                return node
        _F.bare = False
        out = _F().visit(_copy.deepcopy(key_expr))
        return None if _F.bare else ast.fix_missing_locations(out)
    return None


def _bin_producers(ctx: Ctx, m: pf.Module, cm: cf.ClassModel, slot: str, key_param: str, key_expr: ast.AST) -> Tuple[List[str], List[str], int]:
    """Compare the bin every step stores an entry under (`self.<slot>[K].append(X)`) with the constructor's key of that entry.
    Returns (sites whose stored bin depends on state other than the entry, sites whose bin only differs in form, sites that agree)."""
    records = cf.named_tuples(m)
    other: List[str] = []
    differs: List[str] = []
    agree = 0
    for rn in _step_roots(cm):
        r = _root(m, rn)
        for c in pf.calls_in(r.fn):
            if not (isinstance(c.func, ast.Attribute) and c.func.attr == 'append' and isinstance(c.func.value, ast.Subscript) and cf.self_attr(c.func.value.value) == slot
                    and len(c.args) == 1 and not isinstance(c.func.value.slice, ast.Slice)):
                continue
            nat = _natural_key(key_param, key_expr, c.args[0], r.fn, records)
            ctx.need(nat is not None, f'{F}::{CLS}.{rn}: cannot tell which entry `{pf.nsrc(c)[:60]}` stores')
            nat_nf = _key_nf(pf.expand_locals(r.fn, nat), r.cm)
            nat_names = {pf.nsrc(x) for x in ast.walk(pf.expand_locals(r.fn, nat)) if isinstance(x, (ast.Name, ast.Attribute))}
            stored = c.func.value.slice
            alts: List[ast.AST] = [stored]
            if isinstance(stored, ast.Name):
                ds = [d for d in pf.assignments(r.fn).get(stored.id, [])]
                if ds and all(isinstance(d, ast.expr) for d in ds):
                    alts = list(ds)  # type: ignore[arg-type]
            for alt in alts:
                ex = pf.expand_locals(r.fn, alt)
                if _key_nf(ex, r.cm) == nat_nf:
                    agree += 1
                    continue
                names = {pf.nsrc(x) for x in ast.walk(_InlineExprHelpers(r.cm).visit(_subst(ex, {}))) if isinstance(x, (ast.Name, ast.Attribute)) and isinstance(x.ctx, ast.Load)}
                extra = sorted(n for n in names - nat_names if not any(n == k or k.startswith(n + '.') for k in nat_names) and n.split('.')[0] not in ('math',)
                               and n not in ('floor', 'log', 'max', 'min', 'int', 'ceil', 'len', 'self'))
                txt = f'{rn} stores `{pf.nsrc(c.args[0])[:50]}` under `{pf.nsrc(alt)[:40]}` (line {c.lineno})'
                if extra:
                    other.append(txt + f', computed from {extra[:3]} and not from the entry itself')
                else:
                    differs.append(txt + f', the constructor files the same entry under `{pf.nsrc(nat)[:60]}`')
    return other, differs, agree


def _flatten_of(e: ast.AST, slot: str) -> Optional[str]:
    """How to_dict lists the entries of the binned slot: 'all' when every entry of every bin is listed (grouped by stored bin), a problem text when
    entries are visibly dropped, None when the expression is not recognised."""
    def dict_iter(x: ast.AST) -> Optional[str]:
        """'keys' / 'values' when x iterates all keys / all values of self.<slot> (any order)."""
        while isinstance(x, ast.Call) and pf.dotted(x.func) in ('sorted', 'reversed', 'list', 'tuple') and x.args:
            x = x.args[0]
        if cf.self_attr(x) == slot:
            return 'keys'
        if isinstance(x, ast.Call) and isinstance(x.func, ast.Attribute) and cf.self_attr(x.func.value) == slot and not x.args:
            return {'keys': 'keys', 'values': 'values', 'items': 'items'}.get(x.func.attr)
        return None
    if isinstance(e, ast.Call) and pf.dotted(e.func) in ('list', 'tuple') and len(e.args) == 1:
        e = e.args[0]
    if isinstance(e, ast.Call) and (pf.dotted(e.func) or '').endswith('chain.from_iterable') and len(e.args) == 1:
        return 'all' if dict_iter(e.args[0]) == 'values' else None
    if isinstance(e, (ast.ListComp, ast.GeneratorExp)) and len(e.generators) == 2:
        g1, g2 = e.generators
        if g1.ifs or g2.ifs:
            return f'the comprehension filters the entries (`if {pf.nsrc((g1.ifs + g2.ifs)[0])[:50]}`)'
        if not (isinstance(g2.target, ast.Name) and isinstance(e.elt, ast.Name) and e.elt.id == g2.target.id):
            return None
        kind = dict_iter(g1.iter)
        inner = g2.iter
        if kind == 'keys' and isinstance(g1.target, ast.Name):
            if isinstance(inner, ast.Subscript) and isinstance(inner.slice, ast.Slice) and cf.self_attr(inner.value.value if isinstance(inner.value, ast.Subscript) else None) == slot:
                return f'only the slice `{pf.nsrc(inner)[:50]}` of every bin is listed'
            if isinstance(inner, ast.Subscript) and cf.self_attr(inner.value) == slot and isinstance(inner.slice, ast.Name) and inner.slice.id == g1.target.id:
                return 'all'
            return None
        if kind is None:
            x = g1.iter
            while isinstance(x, ast.Call) and pf.dotted(x.func) in ('sorted', 'reversed', 'list', 'tuple') and x.args:
                x = x.args[0]
            if isinstance(x, ast.Subscript) and isinstance(x.slice, ast.Slice):
                y = x.value
                while isinstance(y, ast.Call) and pf.dotted(y.func) in ('sorted', 'reversed', 'list', 'tuple') and y.args:
                    y = y.args[0]
                if dict_iter(y) is not None:
                    return f'only the bins `{pf.nsrc(g1.iter)[:50]}` are listed'
            return None
        if kind == 'values' and isinstance(g1.target, ast.Name) and isinstance(inner, ast.Name) and inner.id == g1.target.id:
            return 'all'
        if kind == 'items' and isinstance(g1.target, ast.Tuple) and len(g1.target.elts) == 2 and isinstance(inner, ast.Name) \
                and isinstance(g1.target.elts[1], ast.Name) and inner.id == g1.target.elts[1].id:
            return 'all'
    return None



def _regroup_verdict(ctx: Ctx, m: pf.Module, cm: cf.ClassModel, slot: str, p: str, cons: str, st: ast.stmt, rg, init_i: pf.FuncDef) -> Tuple[bool, ast.AST, str]:
    """Does a recognised regrouping of parameter `p` keep every element?"""
    kind, elem, key, it = rg
    if kind == 'keyed':
        ctx.need(_key_reads_only(key, elem, cm), f'{cons}: cannot tell whether two elements of `{p}` can share the key `{pf.nsrc(key)[:50]}`')
        return (False, st, f'`{pf.nsrc(st)[:70]}` keeps one element per key: of all elements of `{p}` that share a bin (two datasets with the same sample count do) '
                           f'only the last survives')
    # groupby: one group per RUN of equal keys; building a dict from the groups keeps the last run of every key
    src = it
    if isinstance(src, ast.Call) and pf.dotted(src.func) == 'sorted' and src.args and isinstance(src.args[0], ast.Name) and src.args[0].id == p:
        k2 = next((k.value for k in src.keywords if k.arg == 'key'), None)
        kf2 = _key_function(k2, cm) if k2 is not None else None
        ctx.need(kf2 is not None, f'{cons}: cannot compare the sort key of `{pf.nsrc(src)[:50]}` with the grouping key')
        same = _key_nf(_subst(kf2[1], {kf2[0]: ast.Name(id='_e', ctx=ast.Load())}), cm) == _key_nf(_subst(key, {elem: ast.Name(id='_e', ctx=ast.Load())}), cm)
        ctx.need(same, f'{cons}: `{pf.nsrc(src)[:50]}` sorts by another key than the grouping key; whether equal grouping keys end up adjacent is not decided')
        return (True, st, '')
    ctx.need(isinstance(src, ast.Name) and src.id == p, f'{cons}: unrecognised groupby source `{pf.nsrc(src)[:50]}`')
    # order-sensitive: every element is kept only if the list arrives with equal keys adjacent.  The constructor is also what the decoder calls
    # with the list to_dict wrote, which is grouped by the bin each entry was STORED under
    td = cm.methods.get('to_dict')
    ctx.need(td is not None, f'anchor vanished: {CLS}.to_dict')
    _sp, param_of_slot, _ws, _un = _init_param_map(m, cm.methods['__init__'])
    dkeys = {k.value: v for k, v in zip(_dict_return(td, f'{F}::{CLS}.to_dict').keys, _dict_return(td, f'{F}::{CLS}.to_dict').values)
             if isinstance(k, ast.Constant)}
    ctx.need(p in dkeys and _flatten_of(dkeys[p], slot) == 'all', f'{cons}: how to_dict lists `{p}` is not recognised')
    other, differs, agree = _bin_producers(ctx, m, cm, slot, elem, key)
    ctx.need(other, f'{cons}: `{pf.nsrc(st)[:60]}` keeps only the LAST run of every key; the steps store entries under the same key ({agree} site(s)'
             + (f'; differing in form only: {differs[:1]}' if differs else '') + '), whether every caller passes a list with equal keys adjacent is not decided')
    return (False, st, f'`{pf.nsrc(st)[:90]}` makes one group per RUN of equal keys and the dict keeps only the last run of a key, so a list in which two datasets of one '
                       f'bin are separated by a dataset of another bin loses the earlier ones. A saved plan is such a list: {other[0]}; to_dict lists the entries by '
                       f'the bin they are stored under, the decoder hands that list to this constructor, which re-bins by `{pf.nsrc(key)[:60]}` - e.g. stored bins '
                       f'2,2,1,1 holding entries whose own bins are 1,2,1,1: the first entry (a merged intermediate and every input in it) is dropped on resume')


def check_ctor_inputs(ctx: Ctx, m: pf.Module, cm: cf.ClassModel, ser: List[str]) -> None:
    """The constructor (which also rebuilds the object from a saved plan) keeps every input it is given: a list parameter is stored whole, or
    every element of it is appended unconditionally."""
    _m, init_i, _il = _inl(m, '__init__')
    _sp, param_of_slot, _ws, _un = _init_param_map(m, cm.methods['__init__'])
    pending: Set[str] = set()
    for rn in _step_roots(cm):
        for st in pf.walk_shallow(cm.methods[rn]):
            if isinstance(st, ast.Assign) and isinstance(st.value, ast.Subscript) and isinstance(st.value.slice, ast.Slice):
                sl = _self_attr_root(st.value.value)
                if sl is not None and sl in ser:
                    pending.add(sl)
    for slot in sorted(pending):
        p = param_of_slot.get(slot)
        ctx.need(p is not None, f'{F}::{CLS}.__init__: cannot tell which parameter fills self.{slot}')
        cons = f'{F}::{CLS}.__init__::self.{slot} keeps every {p}'
        whole = [st for st in pf.walk_shallow(init_i) if isinstance(st, ast.Assign) and any(cf.self_attr(t) == slot for t in st.targets)]
        loops = [st for st in pf.walk_shallow(init_i) if isinstance(st, ast.For) and any(a == slot for a, _n, _h in _mutations_in(st))]
        verdicts: List[Tuple[bool, ast.AST, str]] = []
        for st in whole:
            v = st.value
            if isinstance(v, ast.Call) and pf.dotted(v.func) in ('list', 'tuple') and len(v.args) == 1:
                v = v.args[0]
            if isinstance(v, ast.Name) and v.id == p:
                verdicts.append((True, st, ''))
            elif isinstance(v, ast.Subscript) and isinstance(v.slice, ast.Slice) and isinstance(v.value, ast.Name) and v.value.id == p \
                    and (v.slice.lower is not None or v.slice.upper is not None):
                verdicts.append((False, st, f'`{pf.nsrc(st)[:70]}` stores only a slice of `{p}`'))
            elif isinstance(v, ast.ListComp) and len(v.generators) == 1 and isinstance(v.generators[0].iter, ast.Name) and v.generators[0].iter.id == p \
                    and v.generators[0].ifs and pf.nsrc(v.elt) == pf.nsrc(v.generators[0].target):
                verdicts.append((False, st, f'`{pf.nsrc(st)[:70]}` filters `{p}`'))
            elif p in pf.names_in(v):
                rg = _regroup(v, p, cm)
                if rg is None:
                    raise AnalysisError(f'{cons}: unrecognised `{pf.nsrc(st)[:70]}`')
                verdicts.append(_regroup_verdict(ctx, m, cm, slot, p, cons, st, rg, init_i))
        # `self.<slot>.update(<regrouping of p>)` / `.extend(p)` outside a loop
        for c in pf.calls_in(init_i):
            if isinstance(c.func, ast.Attribute) and c.func.attr in ('update', 'extend') and cf.self_attr(c.func.value) == slot and len(c.args) == 1 \
                    and p in pf.names_in(c.args[0]) and not any(any(y is c for y in ast.walk(lp)) for lp in loops):
                a0 = c.args[0]
                if isinstance(a0, ast.Name) and a0.id == p and c.func.attr == 'extend':
                    verdicts.append((True, c, ''))
                    continue
                rg = _regroup(a0, p, cm)
                if rg is None:
                    raise AnalysisError(f'{cons}: unrecognised `{pf.nsrc(c)[:70]}`')
                verdicts.append(_regroup_verdict(ctx, m, cm, slot, p, cons, c, rg, init_i))
        for lp in loops:
            it = lp.iter
            while isinstance(it, ast.Call) and pf.dotted(it.func) in ('sorted', 'reversed', 'list', 'tuple', 'iter') and it.args:
                it = it.args[0]  # a reordering / copy of the whole list still visits every element
            if isinstance(it, ast.Call) and (pf.dotted(it.func) or '').split('.')[-1] == 'groupby' and it.args and p in pf.names_in(it.args[0]) \
                    and isinstance(lp.target, ast.Tuple) and len(lp.target.elts) == 2 and all(isinstance(x, ast.Name) for x in lp.target.elts):
                # `for k, run in groupby(p, key=K): self.<slot>[k] = list(run)` (the last run of a key wins) / `.extend(run)` (every run is kept)
                kvar, gvar = lp.target.elts[0].id, lp.target.elts[1].id  # type: ignore[attr-defined]
                keyarg = it.args[1] if len(it.args) > 1 else next((k.value for k in it.keywords if k.arg == 'key'), None)
                kf = _key_function(keyarg, cm) if keyarg is not None else None
                body = [x for x in lp.body if not (isinstance(x, ast.Expr) and isinstance(x.value, ast.Constant))]
                ctx.need(kf is not None and len(body) == 1, f'{cons}: unrecognised groupby loop `{pf.nsrc(lp)[:70]}`')
                b = body[0]

                def run_of(x: ast.AST) -> bool:
                    return (isinstance(x, ast.Name) and x.id == gvar) or (isinstance(x, ast.Call) and pf.dotted(x.func) in ('list', 'tuple') and len(x.args) == 1
                                                                          and isinstance(x.args[0], ast.Name) and x.args[0].id == gvar)

                def bin_of(x: ast.AST) -> bool:
                    return isinstance(x, ast.Subscript) and cf.self_attr(x.value) == slot and isinstance(x.slice, ast.Name) and x.slice.id == kvar
                if isinstance(b, ast.Assign) and len(b.targets) == 1 and bin_of(b.targets[0]) and run_of(b.value) and not isinstance(b.value, ast.Name):
                    verdicts.append(_regroup_verdict(ctx, m, cm, slot, p, cons, lp, ('groupby', kf[0], kf[1], it.args[0]), init_i))
                elif (isinstance(b, ast.Expr) and isinstance(b.value, ast.Call) and isinstance(b.value.func, ast.Attribute) and b.value.func.attr == 'extend'
                      and bin_of(b.value.func.value) and len(b.value.args) == 1 and run_of(b.value.args[0])) \
                        or (isinstance(b, ast.AugAssign) and isinstance(b.op, ast.Add) and bin_of(b.target) and run_of(b.value) and not isinstance(b.value, ast.Name)):
                    src = it.args[0]
                    while isinstance(src, ast.Call) and pf.dotted(src.func) in ('sorted', 'reversed', 'list', 'tuple', 'iter') and src.args:
                        src = src.args[0]
                    ctx.need(isinstance(src, ast.Name) and src.id == p, f'{cons}: unrecognised groupby source `{pf.nsrc(it.args[0])[:50]}`')
                    verdicts.append((True, lp, ''))
                else:
                    raise AnalysisError(f'{cons}: unrecognised groupby loop body `{pf.nsrc(b)[:70]}`')
                continue
            if not (isinstance(it, ast.Name) and it.id == p):
                if isinstance(it, ast.Subscript) and isinstance(it.slice, ast.Slice) and isinstance(it.value, ast.Name) and it.value.id == p \
                        and (it.slice.lower is not None or it.slice.upper is not None or it.slice.step is not None):
                    verdicts.append((False, lp, f'the loop runs over `{pf.nsrc(lp.iter)[:50]}`, not over all of `{p}`'))
                elif p in pf.names_in(lp.iter):
                    raise AnalysisError(f'{cons}: unrecognised loop over `{pf.nsrc(lp.iter)[:50]}`')
                continue
            adds = [c for c in pf.calls_in(lp) if isinstance(c.func, ast.Attribute) and c.func.attr in ('append', 'add') and _self_attr_root(c.func.value) == slot]
            # `self.<slot>[K(x)] = [x]` / `= x` in the loop: every element REPLACES the bin instead of joining it
            over = [x for x in pf.walk_shallow(lp) if isinstance(x, ast.Assign) and len(x.targets) == 1 and isinstance(x.targets[0], ast.Subscript)
                    and cf.self_attr(x.targets[0].value) == slot and isinstance(lp.target, ast.Name)
                    and ((isinstance(x.value, ast.List) and len(x.value.elts) == 1 and isinstance(x.value.elts[0], ast.Name) and x.value.elts[0].id == lp.target.id)
                         or (isinstance(x.value, ast.Name) and x.value.id == lp.target.id))]
            if over and not adds:
                key = over[0].targets[0].slice  # type: ignore[attr-defined]
                ctx.need(_key_reads_only(key, lp.target.id, cm), f'{cons}: cannot tell whether two elements of `{p}` can share the key `{pf.nsrc(key)[:50]}`')
                verdicts.append((False, lp, f'`{pf.nsrc(over[0])[:70]}` replaces the bin by the current element: of all elements of `{p}` that share a bin '
                                            f'(two datasets with the same sample count do) only the last is kept'))
                continue
            ctx.need(len(adds) == 1 and isinstance(lp.target, ast.Name), f'{cons}: unrecognised loop')
            top = any(isinstance(st, ast.Expr) and st.value is adds[0] for st in lp.body)
            same = len(adds[0].args) == 1 and isinstance(adds[0].args[0], ast.Name) and adds[0].args[0].id == lp.target.id
            skips = any(isinstance(x, (ast.Continue, ast.Break)) for x in ast.walk(lp))
            ctx.need(same, f'{cons}: the loop appends `{pf.nsrc(adds[0].args[0])[:50] if adds[0].args else ""}`, not the element itself; whether every element is kept is not recognised')
            if not top:
                # conditional (positive evidence) only when the append sits directly under an `if` of the loop body
                under_if = any(isinstance(st, ast.If) and any(x is adds[0] for x in ast.walk(st)) for st in lp.body)
                ctx.need(under_if, f'{cons}: unrecognised position of `{pf.nsrc(adds[0])[:50]}` in the loop')
            verdicts.append((top and same and not skips, lp, f'the loop over `{p}` does not append every element (`{pf.nsrc(adds[0])[:60]}` is conditional or appends something else)'))
        ctx.need(verdicts, f'{cons}: no store found')
        bad = [v for v in verdicts if not v[0]]
        ctx.check(not bad, 'R8', cons, (bad[0][2] if bad else '') + f': inputs given to the constructor - or listed in the saved plan it is rebuilt from - never enter '
                  f'self.{slot}, so they are in no dataset', m.path, (bad[0][1] if bad else verdicts[0][1]).lineno)


def _consumers(fn: pf.FuncDef, names: Set[str]) -> List[str]:
    """Calls in fn (helpers already inlined where possible) that receive one of the given names - directly, through `len(name)` or through a local
    computed from it - and are not known to be harmless (builtins that only read, loggers, exception constructors, record constructors)."""
    defs = pf.assignments(fn)
    tainted = set(names)
    grew = True
    while grew:
        grew = False
        for nm, ds in defs.items():
            if nm not in tainted and any(isinstance(d, ast.expr) and (pf.names_in(d) & tainted) for d in ds):
                tainted.add(nm)
                grew = True
    out: List[str] = []
    raised = {id(x) for st in pf.walk_shallow(fn) if isinstance(st, ast.Raise) and st.exc is not None for x in ast.walk(st.exc)}
    for c in pf.calls_in(fn):
        if id(c) in raised:
            continue
        d = pf.dotted(c.func) or ''
        if d in _PURE_CALLEES or d in ('set', 'frozenset', 'collections.defaultdict', 'defaultdict', 'uuid.uuid4', 'hl.tlocus', 'isinstance'):
            continue
        if isinstance(c.func, ast.Attribute) and c.func.attr in ('append', 'extend', 'add', 'update', 'format', 'join', 'get', 'items', 'values', 'keys'):
            continue
        if any(pf.names_in(a) & tainted for a in list(c.args) + [k.value for k in c.keywords]):
            out.append(pf.nsrc(c)[:60])
    return out


def _int_params(fn: pf.FuncDef) -> List[str]:
    return [a.arg for a in fn.args.posonlyargs + fn.args.args + fn.args.kwonlyargs]


def _analyse_writer(where: str, stmts: List[ast.stmt], recv: str, consts: Dict[str, int], entry: cf.Env, slot: str, bound: int,
                    prefer: Dict[str, int]) -> Tuple[Optional[cf.Iv], Optional[Dict[str, int]], int]:
    """(interval of self.<slot> over the exits that set it, witness input when it can fall below bound, number of exits setting it)."""
    ae = cf.AbsExec(recv, consts, where)
    out = ae.run(stmts, dict(entry))
    if out is not None:
        ae.exits.append(out)
    key = f'self.{slot}'
    ivs = [e[key] for e in ae.exits if key in e]
    if not ivs:
        return None, None, 0
    iv = ivs[0]
    for x in ivs[1:]:
        iv = iv.join(x)
    if iv.lo >= bound:
        return iv, None, len(ivs)
    rel = cf.relevant_atoms(stmts, recv, key)
    inputs = sorted(a for a in (ae.atoms | set(entry)) if a in rel and a != key)
    wit = cf.find_witness(stmts, recv, consts, entry, inputs, ae.int_consts | {bound}, key, bound, prefer)
    return iv, wit, len(ivs)


def check_sizes(ctx: Ctx, m: pf.Module, cm: cf.ClassModel, need: Dict[str, Tuple[int, str]], param_of_slot: Dict[str, str]) -> Dict[str, cf.Iv]:
    """Interval analysis of the slots that size a step, through every writer: the constructor (also run by the decoder on every reload), property
    setters, other methods, and stores from outside the class."""
    consts = cm.const_env()
    m_i, init_i, _il = _inl(m, '__init__')
    recv = init_i.args.args[0].arg
    defaults: Dict[str, int] = {}
    for a, d in list(zip(init_i.args.kwonlyargs, init_i.args.kw_defaults)):
        if d is not None:
            dv = consts.get(pf.dotted(d) or '') if not isinstance(d, ast.Constant) else (d.value if isinstance(d.value, int) else None)
            if isinstance(dv, int):
                defaults[a.arg] = dv
    accepted: Dict[str, cf.Iv] = {}

    def report(cons: str, slot: str, iv: Optional[cf.Iv], wit, line: int, who: str, entry_note: str = '', validators: Sequence[str] = ()) -> None:
        bound, why = need[slot]
        if iv is None or bound == -cf.INF:
            return
        if iv.lo >= bound:
            ctx.ok('R7', cons, {'interval': repr(iv), 'needs': f'>= {bound}'})
            return
        ctx.need(wit is not None, f'{cons}: the interval analysis gives self.{slot} in {iv} (needs >= {bound}) but no concrete input reaching a smaller value was found')
        ctx.need(not validators, f'{cons}: the value reaches `{validators[0] if validators else ""}`, which may reject it; not followed')
        got = wit.get(f'=> self.{slot}')
        inp = ', '.join(f'{k}={v}' for k, v in wit.items() if not k.startswith('=>'))
        ctx.bad('R7', cons, f'{who} can leave self.{slot} = {got} (interval {iv}; {why}, so it must be >= {bound}){entry_note}: with {inp} the stored value is {got}. '
                + (f'Then every step removes 0 entries from the plan: `finished` never becomes true and run() saves and steps forever (or fails on the empty batch on every attempt) - no dataset is produced'
                   if got is not None and got <= 0 else 'Then a merge replaces one entry by one entry: the plan never shrinks'), m.path, line)

    for slot, (bound, _why) in sorted(need.items()):
        cons = f'{F}::{CLS}.__init__::self.{slot}'
        iv, wit, n = _analyse_writer(cons, init_i.body, recv, consts, {}, slot, bound, defaults)
        ctx.need(iv is not None, f'{cons}: __init__ does not set the slot')
        accepted[slot] = iv if iv.lo >= bound else cf.Iv(bound, cf.INF)
        p = param_of_slot.get(slot)
        report(cons, slot, iv, wit, init_i.lineno, f'the constructor (also run by Decoder._object_hook on every reload; parameter `{p}`)',
               validators=_consumers(init_i, {p} if p else set()) if (iv is not None and iv.lo < bound) else ())

    # property setters
    for prop in sorted(cm.setters):
        m_s, fn_s, _ = _inl(m, prop, True)
        written = {a for a, _n, _h in _mutations(fn_s)} & set(need)
        for slot in sorted(written):
            bound = need[slot][0]
            ps = [a.arg for a in fn_s.args.args[1:]]
            ctx.need(len(ps) == 1, f'{F}::{CLS}.{prop}.setter: unexpected signature')
            entry = {ps[0]: accepted[slot]}
            for other in need:
                if other != slot:
                    entry[f'self.{other}'] = accepted[other]
            cons = f'{F}::{CLS}.{prop}.setter::self.{slot}'
            pv = defaults.get(param_of_slot.get(slot, ''), None)
            iv, wit, _n = _analyse_writer(cons, fn_s.body, fn_s.args.args[0].arg, consts, entry, slot, bound, {ps[0]: pv} if pv is not None else {})
            report(cons, slot, iv, wit, fn_s.lineno, f'the public setter `{prop}`', f' although it is given a value the constructor accepts ({ps[0]} in {accepted[slot]})',
                   validators=_consumers(fn_s, {ps[0]}) if (iv is not None and iv.lo < bound) else ())

    # other stores (1): methods of the class other than __init__ / setters.  A private helper that other methods call is analysed where it is
    # inlined (with the arguments of that call); every other method is an entry point: its own parameters are unconstrained, the object
    # satisfies the invariant on entry
    props_to_slots: Dict[str, Set[str]] = {}
    for prop, f in cm.setters.items():
        ws = {a for a, _n, _h in _mutations(f)} & set(need)
        if ws:
            props_to_slots[prop] = ws
    attrs = set(need) | set(props_to_slots)
    n_ext = 0
    called: Set[str] = set()
    for f in list(cm.methods.values()) + list(cm.setters.values()) + list(cm.getters.values()):
        for c in pf.calls_in(f, into_nested_defs=True):
            a = cf.self_attr(c.func, f.args.args[0].arg) if isinstance(c.func, ast.Attribute) and f.args.args else None
            if a is not None:
                called.add(a)
    for name, f0 in cm.methods.items():
        if name == '__init__' or not f0.args.args or 'staticmethod' in pf.decorator_names(f0):
            continue
        if name.startswith('_') and not name.startswith('__') and name in called and not f0.decorator_list:
            continue
        _mm, fn_m, il_m = _inl(m, name)
        written = {a for a, _n, _h in _mutations(fn_m)} & set(need)
        if not written:
            continue
        ctx.need(not il_m.skipped, f'{F}::{CLS}.{name}: helper(s) that could not be inlined: {il_m.skipped[:2]}')
        rcv = fn_m.args.args[0].arg
        for slot in sorted(written):
            n_ext += 1
            entry = {f'self.{other}': accepted[other] for other in need}
            cons = f'{F}::{CLS}.{name}::self.{slot}'
            iv, wit, _n = _analyse_writer(cons, fn_m.body, rcv, consts, entry, slot, need[slot][0], {})
            report(cons, slot, iv, wit, fn_m.lineno, f'{CLS}.{name}', ' starting from an object that satisfies the bound')

    # other stores (2): stores on another object - code outside the class, static methods (e.g. the resume path of new_combiner, load)
    for q, fn, st, attr in _slot_writes_outside_init(m, cm, attrs):
        t = st.targets[0] if isinstance(st, ast.Assign) else st.target  # type: ignore[union-attr]
        ctx.need(isinstance(t, ast.Attribute) and isinstance(t.value, ast.Name), f'{F}::{q}: unrecognised store `{pf.nsrc(st)[:60]}`')
        obj = t.value.id  # type: ignore[union-attr]
        in_class = q.startswith(CLS + '.')
        if in_class and fn.args.args and obj == fn.args.args[0].arg and 'staticmethod' not in pf.decorator_names(fn):
            continue  # a store on self: covered by the constructor / setter / method analyses above
        n_ext += 1
        g = _copy_with_setters(fn, obj, cm)  # stores through setters on `obj` inlined
        forwarded: Dict[str, str] = {}
        if not in_class:
            for c in pf.calls_in(m.func(q.split('.')[0]), into_nested_defs=True):
                if pf.dotted(c.func) == CLS:
                    for k in c.keywords:
                        if isinstance(k.value, ast.Name) and k.arg is not None:
                            forwarded[k.arg] = k.value.id
        for slot in sorted(props_to_slots.get(attr, {attr}) & set(need)):
            bound = need[slot][0]
            p = param_of_slot.get(slot)
            e2: cf.Env = {f'self.{other}': accepted[other] for other in need}  # whatever combiner `obj` is bound to came out of the constructor
            note = ''
            if p in forwarded:
                # the very value the fresh path hands to the validating constructor: in the constructor's accepted domain
                e2[forwarded[p]] = accepted[slot]
                note = f' although `{forwarded[p]}` is a value the constructor accepts ({accepted[slot]})'
            cons = f'{F}::{q}::{obj}.{attr} = {pf.nsrc(getattr(st, "value", st))[:50]}'
            iv, wit, _n = _analyse_writer(cons, g.body, obj, consts, e2, slot, bound, {forwarded[p]: defaults[p]} if p in forwarded and p in defaults else {})
            ctx.need(iv is not None, f'{cons}: store not reached by the interval analysis')
            vnames = pf.names_in(getattr(st, 'value', st)) - {obj}
            report(cons, slot, iv, wit, st.lineno, f'`{pf.nsrc(st)[:70]}` in {q}', note,
                   validators=_consumers(g, vnames) if (iv is not None and iv.lo < bound and vnames) else ())
    if ctx.tier == 'thorough':
        # closure: nobody else in the Python package stores to these attributes
        n_files = 0
        for rel in pf.walk_py(['hail/python/hail']):
            if rel == F:
                continue
            n_files += 1
            try:
                mo = pf.load(rel)
            except AnalysisError:
                continue
            for node in ast.walk(mo.tree):
                if isinstance(node, ast.Attribute) and isinstance(node.ctx, ast.Store) and node.attr in attrs:
                    raise AnalysisError(f'{rel}:{node.lineno}: store to `.{node.attr}` outside {F} - this writer of a step size is not analysed')
        ctx.unit('files_scanned_for_size_slot_stores', n_files)
    ctx.unit('size_slot_writers', n_ext + len(need))
    return accepted


def _copy_with_setters(fn: pf.FuncDef, obj: str, cm: cf.ClassModel) -> pf.FuncDef:
    """Copy of fn in which `obj.prop = v` is replaced by the body of the property's setter (receiver obj)."""
    import copy as _copy
    g = _copy.deepcopy(fn)
    helpers: Dict[str, pf.FuncDef] = {}
    for prop, f in cm.setters.items():
        h = _copy.deepcopy(f)
        h.decorator_list = []
        h.name = cf.SETTER_PREFIX + prop
        helpers[h.name] = h
    tr = cf._SetterStores(obj, set(cm.setters))
    g.body = [tr.visit(st) for st in g.body]
    il = cf.Inliner(helpers, obj, 3)
    il.run(g)
    left = [c for c in pf.calls_in(g) if isinstance(c.func, ast.Attribute) and c.func.attr.startswith(cf.SETTER_PREFIX)]
    if left or tr.left:
        raise AnalysisError(f'{F}::{fn.name}: store through a property setter on `{obj}` that cannot be inlined ({il.skipped[:2]})')
    ast.fix_missing_locations(g)
    return g


# ---------------------------------------------------------------------------------------------------------------------------
# R11: a plan found under the generated save path belongs to the same inputs
# ---------------------------------------------------------------------------------------------------------------------------
def check_plan_identity(ctx: Ctx, m: pf.Module) -> None:
    nc = m.func('new_combiner')
    where = f'{F}::new_combiner'
    ctors = [c for c in pf.calls_in(nc) if pf.dotted(c.func) == CLS]
    ctx.need(len(ctors) == 1 and not ctors[0].args, f'{where}: expected one {CLS}(...) call with keyword arguments')
    params = {a.arg for a in nc.args.kwonlyargs + nc.args.args}
    defs = pf.assignments(nc)
    # values re-applied to a loaded plan (they are allowed to differ between the plan and the call)
    overrides: Set[str] = set()
    resume_reads: Set[str] = set()  # every name the nested (resume) functions read: an argument used there in another way may be re-applied in a form not recognised
    loads_plan = False
    for sub in [n for n in ast.walk(nc) if isinstance(n, (ast.FunctionDef, ast.AsyncFunctionDef)) and n is not nc]:
        resume_reads |= {x.id for x in ast.walk(sub) if isinstance(x, ast.Name) and isinstance(x.ctx, ast.Load)}
        for st in pf.walk_shallow(sub):
            if isinstance(st, ast.Assign) and isinstance(st.targets[0], ast.Attribute) and isinstance(st.value, ast.Name):
                overrides.add(st.value.id)
            if isinstance(st, ast.Expr) and isinstance(st.value, ast.Call) and pf.dotted(st.value.func) == 'setattr' and len(st.value.args) == 3 \
                    and isinstance(st.value.args[2], ast.Name):
                overrides.add(st.value.args[2].id)
        loads_plan = loads_plan or any((pf.dotted(c.func) or '').split('.')[-1] in ('load_combiner', 'load') for c in pf.calls_in(sub))
    ctx.need(loads_plan, f'{where}: the resume path (load_combiner) was not found')
    # what feeds the hash
    hashers = {n for n, ds in defs.items() for d in ds if isinstance(d, ast.Call) and (pf.dotted(d.func) or '').startswith('hashlib.')}
    ctx.need(hashers, f'{where}: no hashlib object found')
    hashed: Set[str] = set()
    par: Dict[ast.AST, ast.AST] = {}
    for a in ast.walk(nc):
        for c in ast.iter_child_nodes(a):
            par[c] = a
    n_upd = 0
    for c in pf.calls_in(nc):
        if isinstance(c.func, ast.Attribute) and c.func.attr == 'update' and isinstance(c.func.value, ast.Name) and c.func.value.id in hashers and c.args:
            n_upd += 1
            names = pf.names_in(c.args[0])
            hashed |= names
            cur = par.get(c)
            while cur is not None and cur is not nc:
                if isinstance(cur, ast.For) and pf.names_in(cur.target) & names:
                    hashed |= pf.names_in(cur.iter)
                    names = names | pf.names_in(cur.iter)
                cur = par.get(cur)
    # data given to the hash constructor (`hashlib.sha256(x.encode())`) is hashed too
    for n0, ds in defs.items():
        if n0 in hashers:
            for d in ds:
                if isinstance(d, ast.Call):
                    for a in list(d.args) + [k.value for k in d.keywords]:
                        hashed |= pf.names_in(a)
    # "nothing feeds the digest" is evidence only when every use of the hash object is an update / digest call seen above: the object must not be
    # handed to a helper, aliased, or used inside a nested function
    escapes: List[str] = []
    for x in ast.walk(nc):
        if isinstance(x, ast.Name) and x.id in hashers and isinstance(x.ctx, ast.Load):
            pr = par.get(x)
            ok_use = isinstance(pr, ast.Attribute) and pr.value is x and pr.attr in ('update', 'hexdigest', 'digest') and isinstance(par.get(pr), ast.Call) and par[pr].func is pr  # type: ignore[union-attr]
            cur = pr
            nested = False
            while cur is not None and cur is not nc:
                if isinstance(cur, (ast.FunctionDef, ast.AsyncFunctionDef, ast.Lambda)):
                    nested = True
                cur = par.get(cur)
            if not ok_use or nested:
                escapes.append(pf.nsrc(pr if pr is not None else x)[:50])
    ctx.need(n_upd >= 3, f'{where}: fewer than 3 hash updates found')
    # the digest names the save path
    flows = False
    work: List[Tuple[ast.AST, int]] = [(d, 0) for d in defs.get('save_path', []) if isinstance(d, ast.expr)]
    seen_names: Set[str] = set()
    while work and not flows:
        e, depth = work.pop()
        for x in ast.walk(e):
            if isinstance(x, ast.Call) and isinstance(x.func, ast.Attribute) and x.func.attr in ('hexdigest', 'digest') and isinstance(x.func.value, ast.Name) \
                    and x.func.value.id in hashers:
                flows = True
            elif isinstance(x, ast.Name) and x.id not in seen_names and depth < 4:
                seen_names.add(x.id)
                work += [(d, depth + 1) for d in defs.get(x.id, []) if isinstance(d, ast.expr)]
    ctx.need(flows or (not escapes and defs.get('save_path')), f'{where}: how the generated save path is computed is not followed (the hash object is used as `{escapes[0] if escapes else "?"}`)')
    ctx.check(flows, 'R11', f'{where}::digest names the save path', 'the generated save_path does not contain the digest of the arguments: plans of different '
              'combines share one file and new_combiner resumes the wrong one', m.path, nc.lineno)

    def direct_params(n: str) -> Set[str]:
        """Parameters named in the defining expressions of local `n` (one level: names are shared between loops, so deeper closure would mix them up)."""
        out: Set[str] = set()
        for d in defs.get(n, []):
            if isinstance(d, (ast.For, ast.AsyncFor, ast.comprehension)):
                d = d.iter  # a loop target comes from the iterable, not from the loop body
            if isinstance(d, ast.AST) and not isinstance(d, ast.arg):
                out |= pf.names_in(d) & params
        return out
    for k in ctors[0].keywords:
        ctx.need(k.arg is not None, f'{where}: **kwargs in the constructor call')
        names = pf.names_in(k.value)
        if k.arg == 'save_path' or (isinstance(k.value, ast.Name) and k.value.id in overrides):
            continue
        cons = f'{where}::{k.arg} identifies the plan'
        cand: Set[str] = set()
        for n in names:
            cand.add(n)
            if n not in params and n in defs and n not in hashed:
                dp = direct_params(n)
                ctx.need(dp, f'{where}: cannot tell which arguments `{n}` (passed as `{k.arg}`) is computed from')
                cand |= dp  # the parameters a local is computed from
        ok = bool(cand & hashed)
        ctx.need(ok or not (pf.names_in(k.value) & resume_reads), f'{cons}: `{pf.nsrc(k.value)[:40]}` is also read on the resume path; whether it is re-applied to a loaded plan there is not recognised')
        ctx.need(ok or not escapes, f'{cons}: the hash object is also used as `{escapes[0] if escapes else ""}`; what is fed to it there is not followed')
        ctx.check(ok, 'R11', cons, f'new_combiner passes `{k.arg}={pf.nsrc(k.value)}` to the constructor but nothing it is computed from ({sorted(cand & (params | set(defs)))[:6]}) '
                  f'feeds the digest that names the generated save path: a second call with a different `{k.arg}` finds the plan of the first call at the same path '
                  f'and resumes it (maybe_load_from_saved_path re-applies only {sorted(overrides)}) - the output is built from the other call\'s inputs', m.path, k.value.lineno)


# ---------------------------------------------------------------------------------------------------------------------------
# R12: the plan is only ever saved in a state from which a resume uses every input once
# ---------------------------------------------------------------------------------------------------------------------------
_SAVERS: Set[str] = {'save'}


def _is_save_call(c: ast.Call, recv: str) -> bool:
    """`self.save()`, a call of a method that (transitively) saves, or a direct dump of the object (`json.dump(self, ...)`, e.g. `save` inlined)."""
    if isinstance(c.func, ast.Attribute) and cf.self_attr(c.func, recv) in _SAVERS:
        return True
    return (pf.dotted(c.func) or '') in ('json.dump', 'json.dumps') and bool(c.args) and isinstance(c.args[0], ast.Name) and c.args[0].id == recv


def _node_saves(n: pf.Node, recv: str) -> bool:
    return any(_is_save_call(c, recv) for c in pf.node_calls(n))


def _saver_methods(cm: cf.ClassModel, exclude: Set[str]) -> Set[str]:
    """Methods through which the plan reaches the save path: `save` and every helper that calls one of them (methods that run steps themselves,
    such as run(), are not helpers and are analysed as callers instead)."""
    out = {'save'}
    changed = True
    while changed:
        changed = False
        for name, f in cm.methods.items():
            if name in out or name in exclude or not f.args.args:
                continue
            recv = f.args.args[0].arg
            if any((isinstance(c.func, ast.Attribute) and cf.self_attr(c.func, recv) in out)
                   or ((pf.dotted(c.func) or '') in ('json.dump', 'json.dumps') and c.args and isinstance(c.args[0], ast.Name) and c.args[0].id == recv)
                   for c in pf.calls_in(f, into_nested_defs=True)):
                out.add(name)
                changed = True
    return out


def _halfway_region(r: _Root, pending: Set[str], ser: List[str], out_slot: str):
    """(removal nodes, commit nodes, dirty nodes) of one step function with its helpers inlined.  A removal takes entries out of a pending
    list of the plan; a commit records a dataset in the plan or writes the final output; a node is dirty when it can execute after a removal and
    before any commit (all edges, exceptional ones included)."""
    g = r.g
    removals: List[pf.Node] = []
    commits: List[pf.Node] = []
    for attr, node, how in _mutations(r.fn):
        if attr not in pending:
            continue
        if isinstance(node, ast.Call) and isinstance(node.func, ast.Attribute) and node.func.attr in PLAN_ADD:
            continue
        removals += g.node_of(node)
    for c in pf.calls_in(r.fn):
        if not isinstance(c.func, ast.Attribute):
            continue
        if c.func.attr in PLAN_ADD and _self_attr_root(c.func.value) in ser and c.args:
            commits += g.node_of(c)
            # a loop whose body records the datasets stands for the recording (zero iterations only when nothing was produced)
            commits += [n for n in g.nodes if n.kind == 'loop' and n.ast is not None and any(x is c for x in ast.walk(n.ast))]
        elif c.func.attr in WRITERS:
            pa = _path_arg(c)
            if pa is not None:
                v = r.sym.ev(pa, r.fn)
                if v == ('slot', out_slot) or v == ('list', ('slot', out_slot)):
                    commits += g.node_of(c)
    cids = {n.id for n in commits}
    dirty: Dict[int, pf.Node] = {}
    work = [m for n in removals for m, _lab in n.succ]
    while work:
        n = work.pop()
        if n.id in dirty or n.id in cids or n is g.exit or n is g.raise_exit:
            continue
        dirty[n.id] = n
        work += [m for m, _lab in n.succ]
    return removals, commits, list(dirty.values())


def _guarded_only_by_local_flags(g: pf.CFG, seeds: List[pf.Node], goal: pf.Node) -> bool:
    """True when every path seeds -> goal passes a test that reads a local name (a flag such as `ok`): whether that guard excludes the failed-step
    case is not decided here."""
    def flag_test(n: pf.Node) -> bool:
        return n.kind == 'test' and n.ast is not None and any(isinstance(x, ast.Name) and isinstance(x.ctx, ast.Load) and x.id not in ('self', 'True', 'False', 'None')
                                                            for x in ast.walk(n.ast) if not isinstance(x, ast.Call))
    for s in seeds:
        if s is goal or (not flag_test(s) and g.path_avoiding(s, lambda x: x is goal, flag_test) is not None):
            return False
    return True


def check_save_consistency(ctx: Ctx, m: pf.Module, cls: ast.ClassDef, ser: List[str]) -> None:
    """A step takes its inputs out of the plan first and puts the merged dataset back (or writes the final output) last.  In between the in-memory
    plan describes neither the state before the step nor the state after it, so it must never reach the save path: not by a save inside the step,
    not by a save that runs when the step fails (finally / except / retry loop), not by returning normally with the failure swallowed."""
    cm = cf.ClassModel(m, CLS)
    slot_of_param, _pos, _ws, _un = _init_param_map(m, cm.methods['__init__'])
    ctx.need('output_path' in slot_of_param, f'{F}::{CLS}.__init__: output_path parameter not found')
    out_slot = slot_of_param['output_path']
    root_names = _step_roots(cm)
    roots = [_root(m, rn) for rn in root_names]
    ctx.need(roots, f'{CLS}.step calls no step function')
    pending: Set[str] = set()
    for rn in root_names:
        for st in pf.walk_shallow(cm.methods[rn]):
            if isinstance(st, ast.Assign) and isinstance(st.value, ast.Subscript) and isinstance(st.value.slice, ast.Slice):
                sl = _self_attr_root(st.value.value)
                if sl is not None and sl in ser:
                    pending.add(sl)
    ctx.need(pending, f'{F}::{CLS}: no pending list found in {root_names}')
    # helpers that save (a method that itself drives the steps is a caller, not a saver)
    drivers: Set[str] = set(root_names)
    grew = True
    while grew:
        grew = False
        for name, f in cm.methods.items():
            if name not in drivers and f.args.args and any(isinstance(c.func, ast.Attribute) and cf.self_attr(c.func, f.args.args[0].arg) in drivers for c in pf.calls_in(f)):
                drivers.add(name)
                grew = True
    _SAVERS.clear()
    _SAVERS.update(_saver_methods(cm, drivers))
    exc_dirty: Dict[str, str] = {}   # method -> why an exception can leave it with a half-way plan
    norm_dirty: Dict[str, str] = {}  # method -> why it can return normally with a half-way plan
    for r in roots:
        ctx.need(not r.il.skipped, f'{F}::{CLS}.{r.name}: helper(s) that could not be inlined: {r.il.skipped[:3]}')
        recv = r.fn.args.args[0].arg
        removals, commits, dirty = _halfway_region(r, pending, ser, out_slot)
        cons = f'{F}::{CLS}.{r.name}'
        ctx.need(removals and commits, f'{cons}: removal / recording of plan entries not recognised')
        first = min(removals, key=lambda n: n.lineno)
        raisers = sorted((n for n in dirty if n.kind != 'except' and pf.node_calls(n)), key=lambda n: n.lineno)
        writer = [n for n in raisers if any(isinstance(c.func, ast.Attribute) and c.func.attr in WRITERS for c in pf.node_calls(n))]
        if raisers:
            wn = (writer or raisers)[0]
            exc_dirty[r.name] = (f'{r.name} takes its inputs out of the plan (`{first.text()[:60]}`, line {first.lineno}) before `{wn.text()[:60]}` (line {wn.lineno}) '
                                 f'and puts the result back only afterwards (`{max(commits, key=lambda n: n.lineno).text()[:50]}`)')
        # (a) no save inside the half-way region
        hit = [n for n in dirty if _node_saves(n, recv)]
        ctx.check(not hit, 'R12', cons + '::no save between taking the inputs and recording the result',
                  f'{r.name} saves the plan (`{hit[0].text()[:60] if hit else ""}`) after `{first.text()[:60]}` removed the inputs of this step from it and before the merged '
                  f'dataset is recorded: a process that stops after this save resumes from a plan that lists neither those inputs nor anything built from them - '
                  f'they are missing from the output', m.path, hit[0].lineno if hit else r.fn.lineno, detail={'halfway_nodes': len(dirty), 'can_fail_halfway': bool(raisers)})
        # (b) no normal return with the plan half-way (a handler that swallows the failure)
        p = None
        at_exit = lambda x, r=r: x is r.g.exit  # noqa: E731
        is_commit = lambda x: x in commits  # noqa: E731
        c12 = cons + '::returns only with the result recorded'
        for n in removals:
            p = p or _firm(r.g, r.g.path_avoiding(n, at_exit, is_commit), r.fn, at_exit, is_commit, c12)
        if p is not None:
            opaque = _plan_opaque([x for x in r.g.nodes if x.ast is not None], r.fn, pending)
            ctx.need(opaque is None, f'{c12}: {opaque}; whether the result is recorded on that path is not decided')
        if p is not None:
            norm_dirty[r.name] = f'{r.name} can return normally with its inputs removed and nothing recorded (path {[repr(x) for x in p][-4:]})'
            ctx.bad('R12', cons + '::returns only with the result recorded', norm_dirty[r.name] + ': run() then saves that plan and carries on; the inputs of the '
                    'failed step are in no dataset', m.path, p[-2].lineno if len(p) > 1 else r.fn.lineno)
    # (c) callers: a save must not be reachable once a step has failed (or returned) half-way
    callers = {n: f for n, f in cm.methods.items() if n not in root_names and f.args.args and 'staticmethod' not in pf.decorator_names(f)}
    reported: Set[str] = set()
    bad_callers: Set[str] = set()
    decided: Set[Tuple[str, int]] = set()
    for _round in range(len(callers) + 1):
        changed = False
        for name, f in callers.items():
            recv = f.args.args[0].arg
            g = pf.cfg(f)
            for n in g.nodes:
                if n.ast is None:
                    continue
                for c in pf.node_calls(n):
                    callee = cf.self_attr(c.func, recv) if isinstance(c.func, ast.Attribute) else None
                    if callee is None or callee == name:
                        continue
                    seeds: List[pf.Node] = []
                    whys: List[str] = []
                    if callee in exc_dirty or callee in norm_dirty:
                        decided.add((name, n.id))
                    if callee in exc_dirty:
                        ex = [t for t, lab in n.succ if lab == 'exc']
                        whys.append(exc_dirty[callee])
                        if not ex and name not in exc_dirty:
                            exc_dirty[name] = f'{name} lets a failure of self.{callee}() propagate; ' + exc_dirty[callee]
                            changed = True
                        seeds += ex
                    if callee in norm_dirty:
                        seeds += [t for t, lab in n.succ if lab != 'exc']
                        whys.append(norm_dirty[callee])
                    if not seeds:
                        continue
                    reach: Dict[int, pf.Node] = {}
                    work = list(seeds)
                    while work:
                        x = work.pop()
                        if x.id in reach:
                            continue
                        reach[x.id] = x
                        work += [t for t, _lab in x.succ]
                    if g.raise_exit.id in reach and name not in exc_dirty:
                        exc_dirty[name] = f'{name} re-raises a failure of self.{callee}(); ' + whys[0]
                        changed = True
                    saves = sorted((x for x in reach.values() if x.ast is not None and _node_saves(x, recv)), key=lambda x: x.lineno)
                    if g.exit.id in reach and not saves and name not in norm_dirty:
                        norm_dirty[name] = f'{name} returns normally after self.{callee}() failed half-way; ' + whys[0]
                        changed = True
                    cons = f'{F}::{CLS}.{name}::no save after a failed self.{callee}()'
                    if saves and cons not in reported:
                        sv = saves[0]
                        ctx.need(not _guarded_only_by_local_flags(g, seeds, sv), f'{cons}: `{sv.text()[:40]}` (line {sv.lineno}) is reachable after a failure of '
                                 f'self.{callee}() only through tests of local flags; whether they exclude the failed-step case is not decided')
                        via = 'a finally block / exception handler' if callee in exc_dirty else 'the statements after the call'
                        ctx.bad('R12', cons, f'{name} executes `{sv.text()[:40]}` (line {sv.lineno}) when `{n.text()[:40]}` (line {n.lineno}) has failed ({via}): ' + whys[0] +
                                '. History: a step raises while writing its dataset (storage error, pre-empted job, Ctrl-C); the plan written on the way out lists '
                                'neither the inputs of that step nor a dataset built from them; load_combiner / new_combiner resume from it and finish "successfully" with '
                                'an output that lacks those inputs (or, when the final write failed, with a plan that is already `finished`: no dataset at all)',
                                m.path, sv.lineno, extra=[repr(x) for x in (g.path_avoiding(seeds[0], lambda y: y is sv, lambda y: False) or [])][:8])
                        reported.add(cons)
                        bad_callers.add(name)
        if not changed:
            break
    # every save site of a caller of the steps is accounted for
    for name, f in callers.items():
        recv = f.args.args[0].arg
        g = pf.cfg(f)
        calls_steps = any(cf.self_attr(c.func, recv) in exc_dirty or cf.self_attr(c.func, recv) in norm_dirty
                          for c in pf.calls_in(f) if isinstance(c.func, ast.Attribute))
        if not calls_steps:
            continue
        if name not in bad_callers:
            n_saves = len([x for x in g.nodes if x.ast is not None and _node_saves(x, recv)])
            ctx.ok('R12', f'{F}::{CLS}.{name}::no save after a failed step', {'save_nodes': n_saves, 'propagates_failure': name in exc_dirty})
    ctx.unit('halfway_callers', len(decided))
    # (d) code outside the class that drives a combiner: `c.run()` / `c.step()` under a try whose handler / finally calls `c.save()`
    drive = {n for n in ('run', 'step') if n in exc_dirty} | {n for n in root_names if n in exc_dirty}
    mods = [m]
    if ctx.tier == 'thorough':
        for rel in pf.walk_py(['hail/python/hail']):
            if rel == F:
                continue
            try:
                src = read_repo(rel)
            except AnalysisError:
                continue
            if 'combiner' in src and ('.save()' in src):
                try:
                    mods.append(pf.load(rel))
                except AnalysisError:
                    continue
    n_ext = 0
    for mo in mods:
        for q, fn in mo.functions():
            if mo is m and q.startswith(CLS + '.') and q.count('.') == 1 and 'staticmethod' not in pf.decorator_names(fn):
                continue
            if not any(isinstance(c.func, ast.Attribute) and c.func.attr in drive and isinstance(c.func.value, ast.Name) for c in pf.calls_in(fn)):
                continue
            g = pf.cfg(fn)
            for n in g.nodes:
                if n.ast is None:
                    continue
                for c in pf.node_calls(n):
                    if not (isinstance(c.func, ast.Attribute) and c.func.attr in drive and isinstance(c.func.value, ast.Name)):
                        continue
                    n_ext += 1
                    obj = c.func.value.id
                    seeds = [t for t, lab in n.succ if lab == 'exc']
                    reach: Dict[int, pf.Node] = {}
                    work = list(seeds)
                    while work:
                        x = work.pop()
                        if x.id not in reach:
                            reach[x.id] = x
                            work += [t for t, _lab in x.succ]
                    saves = sorted((x for x in reach.values() if x.ast is not None and any(isinstance(k.func, ast.Attribute) and k.func.attr in _SAVERS
                                    and isinstance(k.func.value, ast.Name) and k.func.value.id == obj for k in pf.node_calls(x))), key=lambda x: x.lineno)
                    cons = f'{mo.rel}::{q}::no {obj}.save() after a failed {obj}.{c.func.attr}()'
                    if saves:
                        ctx.need(not _guarded_only_by_local_flags(g, seeds, saves[0]), f'{cons}: reachable only through tests of local flags - not decided')
                        ctx.bad('R12', cons, f'{q} calls `{saves[0].text()[:40]}` (line {saves[0].lineno}) when `{n.text()[:40]}` has raised: ' + exc_dirty[c.func.attr] +
                                ' - the plan written on the way out lists neither the inputs of the failed step nor a dataset built from them, a resume loses them',
                                mo.path, saves[0].lineno)
                    else:
                        ctx.ok('R12', cons, {'handlers_reached': len(reach)}, nontrivial=False)
    ctx.unit('external_step_drivers', n_ext)


def run(ctx: Ctx) -> None:
    ctx.explanation = ('Slot / to_dict / __init__ / decoder-hook tables compared key by key; CFG dominance of save over step in run; symbolic components of '
                       'every intermediate output path classified as fresh per object / persisted / reset on reload; interval analysis of the slots that size a '
                       'step through all their writers (constructor guards, property setters, stores on the resume path) with concrete witnesses; take/keep slice '
                       'pairs of the pending lists compared; the half-way region of each step (inputs removed, result not yet recorded) computed on its CFG and '
                       'every save site of the callers shown unreachable from a failure inside it; the constructor\'s re-binning compared with the bins the steps store under; the statements of calc_parts interpreted exactly for every (contig length, interval size) in '
                       '1..80 x 1..80 and for the real mitochondrial contigs.')
    ctx.rule('R1', 'attributes mutated by the step functions are serialised slots (or on the frozen transient list)', 5)
    ctx.rule('R2', 'saved plan complete and loadable: slots <-> to_dict keys <-> __init__ parameters <-> decoder inverses', 45)
    ctx.rule('R3', 'run saves before every step and after the last, loops until `finished` (= no pending list), step always steps; save/load go through Encoder.to_dict / Decoder._object_hook', 9)
    ctx.rule('R4', 'even genome partitioning covers every base of a contig exactly once (evaluated domain)', 1)
    ctx.rule('R5', 'no interval of the even genome partitioning is longer than the requested size (evaluated domain)', 3)
    ctx.rule('R6', 'every intermediate dataset path is distinct from every path the plan may still reference: across save/resume (a component fresh per object '
                   'or a persisted counter), across the steps of one run (a counter advanced after every write) and within a step (an index)', 5)
    ctx.rule('R7', 'every step removes at least one input: the slots that size a step (batch size, branch factor) stay >= their minimum through every writer', 5)
    ctx.rule('R8', 'a step merges exactly the entries it removes from the plan: take/keep slices partition the pending list, in that order, parallel lists in lockstep; chunks partition a batch; the constructor keeps every input', 15)
    ctx.rule('R9', 'the final dataset is written exactly when the plan is exhausted; otherwise the merged dataset is written, then recorded under the written path', 10)
    ctx.rule('R10', 'nothing a saved plan may still reference is deleted (plan entries, the intermediates directory, the plan file)', 2)
    ctx.rule('R11', 'the generated save path is a digest of every argument that defines the plan (a plan found there belongs to the same inputs)', 15)
    ctx.rule('R12', 'the plan is only saved in a state a resume can continue from: never between a step taking its inputs out of the plan and recording the merged '
                    'dataset - no save inside that region, none reachable when a step fails (finally / except / retry), no normal return with the failure swallowed', 4)
    ctx.assume('math.ceil(a / b) is modelled with exact rationals (float rounding of very large quotients is not modelled)')
    ctx.assume('hl.Interval(start, end, includes_start, includes_end) denotes the locus positions start..end with the stated closedness')
    ctx.assume('uuid.uuid4 / uuid1 / secrets / os.urandom / clock reads never repeat a value (closed table FRESH in engines/c38facts.py); uuid5 / uuid3 / hashes are functions of their arguments')
    ctx.assume('a caller of a public setter, and the resume path of new_combiner, pass values the constructor would accept (the same value is forwarded to the validating constructor on the fresh path)')
    m = cn.normalise_class(pf.load(F), CLS)  # behaviour-preserving normal form (engines/c38norm.py): `x = x + 1`, bound-method dispatch, bin aliases
    ctx.unit('files', 2)
    cls = m.cls(CLS)
    _FINISHED_LIKE.clear()
    _FINISHED_LIKE.add('finished')
    _note_finished_like(cf.ClassModel(m, CLS))
    ser, _slots = check_slots(ctx, m, cls)
    declined: List[str] = []
    for part in (lambda: check_roundtrip(ctx, m, cls, ser), lambda: check_run(ctx, m, cls), lambda: check_paths(ctx, m, cls, ser, _slots),
                 lambda: check_progress(ctx, m, cls, ser), lambda: check_plan_identity(ctx, m), lambda: check_save_consistency(ctx, m, cls, ser),
                 lambda: check_partitioning(ctx, m)):
        try:
            part()
        except AnalysisError as e:  # keep going: a violation established by another rule must not be masked by a decline here
            declined.append(str(e))
    if declined:
        raise AnalysisError(' | '.join(declined))
